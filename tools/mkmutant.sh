#!/bin/bash
# tools/mkmutant.sh <name> <file relative to /repo> <sed expression>
# writes /verif/mutants/<name>.patch (diff of /repo HEAD with the sed applied)
set -e
NAME=$1; F=$2; EXPR=$3
TMP=$(mktemp)
sed "$EXPR" "/repo/$F" > "$TMP"
if cmp -s "$TMP" "/repo/$F"; then echo "sed changed nothing"; rm -f "$TMP"; exit 1; fi
diff -u "/repo/$F" "$TMP" | sed "1s#^--- .*#--- a/$F#; 2s#^+++ .*#+++ b/$F#" > "/verif/mutants/$NAME.patch"
rm -f "$TMP"
grep -c '^[-+][^-+]' "/verif/mutants/$NAME.patch"
