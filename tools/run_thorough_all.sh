#!/bin/bash
# runs the thorough tier of every check once (sequentially), evidence into evidence_thorough/
cd /verif
mkdir -p evidence_thorough
for id in ${@:-C18 C14 C20 C15 C11 C10 C17 C04 C12 C02 C19 C05 C07 C08 C09 C06 C01 C03}; do
  start=$(date +%s)
  out=$(VERIF_EVIDENCE_DIR=/verif/evidence_thorough ./check $id --tier thorough 2>&1)
  rc=$?
  echo "$id rc=$rc $(( $(date +%s) - start ))s $(echo "$out" | grep -E "^$id thorough" | head -1)"
  echo "$out" | grep -E "VIOLATION|key:|HARNESS-ERROR|KNOWN-FINDING" | head -6
done
