#!/bin/bash
# tools/soak_some.sh "<seeds>" <ID>...: quick tier of the given checks at the given seeds
cd /verif
seeds=$1; shift
for seed in $seeds; do
  for id in "$@"; do
    out=$(VERIF_SEED=$seed VERIF_EVIDENCE_DIR=/verif/.cache/soak_evidence ./check $id 2>&1); rc=$?
    echo "seed=$seed $id rc=$rc $(echo "$out" | grep -E "^$id quick" | sed 's/.*evaluations/evaluations/' | cut -c1-120)"
    echo "$out" | grep -E "VIOLATION|key:|HARNESS-ERROR" | head -4
  done
done
