#!/bin/bash
# like verify_all_seeds.sh, in reverse order (second worker)
for d in $(ls -d /tmp/seedout/C*-*/ | sort -r); do
  d=${d%/}
  [ -f "$d/patch.diff" ] && [ -f "$d/demo.cpp" ] && [ -f "$d/meta.txt" ] || continue
  [ -f "$d/verify.json" ] && continue
  id=$(basename "$d" | cut -d- -f1)
  /verif/tools/verify_seed.sh "$d" "$id" > "$d/verify.log" 2>&1
done
