#!/bin/bash
# tools/mutant_run.sh <patch.diff> <ID> [<ID>...]   (env TIER=quick|thorough)
# Applies a patch to a scratch git worktree of /repo (outside /repo and
# /verif), runs the given checks against it (VERIF_REPO) and removes the
# worktree again. Prints one line per check: <ID> rc=<rc>.
set -u
PATCH=$(readlink -f "$1"); shift
W=/var/tmp/verif-scratch/mut.$$
mkdir -p /var/tmp/verif-scratch
git -C /repo worktree add -q --detach "$W" HEAD || exit 2
trap 'git -C /repo worktree remove --force "$W" >/dev/null 2>&1; rm -rf /verif/.cache/mut.$$' EXIT
if ! git -C "$W" apply "$PATCH"; then echo "patch does not apply"; exit 2; fi
for id in "$@"; do
  out=$(cd /verif && VERIF_REPO="$W" VERIF_CACHE=/verif/.cache/mut.$$ VERIF_EVIDENCE_DIR=/verif/.cache/mut.$$/evidence ./check "$id" --tier "${TIER:-quick}" 2>&1)
  rc=$?
  echo "$id rc=$rc"
  echo "$out" | grep -E "VIOLATION|key:|HARNESS-ERROR|KNOWN-FINDING" | head -${LINES_MAX:-8}
done
