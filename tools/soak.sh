#!/bin/bash
# runs every quick check with several seeds; one line per run
cd /verif
for seed in ${SEEDS:-1 2 3 12345}; do
  for id in C01 C02 C03 C04 C05 C06 C07 C08 C09 C10 C11 C12 C13 C14 C15 C16 C17 C18 C19 C20; do
    out=$(VERIF_SEED=$seed VERIF_EVIDENCE_DIR=/verif/.cache/soak_evidence ./check $id 2>&1); rc=$?
    echo "seed=$seed $id rc=$rc $(echo "$out" | grep -E "^$id quick" | sed 's/.*evaluations/evaluations/' | cut -c1-120)"
    echo "$out" | grep -E "VIOLATION|key:|HARNESS-ERROR" | head -4
  done
done
