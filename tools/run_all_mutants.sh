#!/bin/bash
# tools/run_all_mutants.sh [pattern]  - runs every mutants/<ID>-*.patch against the check
# of its property (quick tier) and appends "<patch> <rc> <first new key>" to mutants/RESULTS.tsv
cd /verif
OUT=mutants/RESULTS.tsv
for p in $(ls mutants/${1:-C}*.patch | sort -V); do
  id=$(basename "$p" | cut -d- -f1)
  if grep -q "^$(basename $p)	" "$OUT" 2>/dev/null; then continue; fi
  res=$(LINES_MAX=40 tools/mutant_run.sh "$p" "$id" 2>&1)
  rc=$(echo "$res" | grep -oE "rc=[0-9]+" | head -1 | cut -d= -f2)
  if echo "$res" | grep -q "patch does not apply"; then rc=NA; fi
  keys=$(echo "$res" | grep "key:" | sed 's/^ *key: //' | head -3 | tr '\n' '|' | cut -c1-300)
  printf "%s\t%s\t%s\n" "$(basename $p)" "${rc:-?}" "$keys" >> "$OUT"
done
