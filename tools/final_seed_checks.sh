#!/bin/bash
# runs the CURRENT quick check of each kept seed's property against the seeded change and
# records rc/keys in /tmp/seedout/<seed>/final_check.json (then tools/collect_seeds.py copies it)
cd /verif
# usage: final_seed_checks.sh [<seed>...]   (default: every verified seed without final_check.json)
if [ $# -gt 0 ]; then list=$(for s in "$@"; do echo /tmp/seedout/$s/; done); else list=$(ls -d /tmp/seedout/C*-*/); fi
for d in $list; do
  d=${d%/}; s=$(basename $d); id=${s%-*}
  [ -f "$d/verify.json" ] || continue
  [ $# -eq 0 ] && [ -f "$d/final_check.json" ] && continue
  res=$(LINES_MAX=40 tools/mutant_run.sh "$d/patch.diff" "$id" 2>&1)
  rc=$(echo "$res" | grep -oE "rc=[0-9]+" | head -1 | cut -d= -f2)
  echo "$res" | grep "key:" | sed 's/^ *key: //' | head -4 | python3 -c "
import sys,json
json.dump(dict(rc=int('${rc:-2}'), violation_keys=[l.strip() for l in sys.stdin], verif_commit='$(git rev-parse --short HEAD)'), open('$d/final_check.json','w'), indent=1)"
  echo "$s final rc=$rc"
done
