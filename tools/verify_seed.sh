#!/bin/bash
# tools/verify_seed.sh <seed dir with patch.diff demo.cpp meta.txt> <ID> [extra demo flags]
# Confirms in a scratch worktree (outside /repo and /verif) that the seeded change
#   (1) applies and compiles, (2) passes the repo's 159 tests,
#   (3) makes the demonstration fail, while the demonstration passes on the unchanged tree,
# then runs the property's quick check against the changed tree. Writes <dir>/verify.json.
set -u
D=$(readlink -f "$1"); ID=$2; shift 2
W=/var/tmp/verif-scratch/seed.$$
mkdir -p /var/tmp/verif-scratch
git -C /repo worktree add -q --detach "$W" HEAD || exit 2
trap 'git -C /repo worktree remove --force "$W" >/dev/null 2>&1; rm -rf /verif/.cache/seed.$$' EXIT
applies=true; git -C "$W" apply "$D/patch.diff" || applies=false
tests="not run"; demo_clean="?"; demo_changed="?"
if $applies; then
  cmake -S "$W" -B "$W/_b" -G Ninja -DCMAKE_BUILD_TYPE=RelWithDebInfo -DBUILD_TESTING=ON -DBUILD_EXAMPLES=ON -DCMAKE_CXX_FLAGS=-Wno-error >/dev/null 2>&1
  if cmake --build "$W/_b" -j16 >"$W/_b/build.log" 2>&1; then
    tests=$(ctest --timeout 300 --test-dir "$W/_b" -j16 2>&1 | grep -E "tests passed|tests failed" | head -1)
  else
    tests="BUILD FAILED"
  fi
  rm -rf "$W/_b"
  FLAGS=$(grep -oE "fsanitize=[a-z,]+" "$D/meta.txt" | head -1)
  [ -n "$FLAGS" ] && FLAGS="-$FLAGS"
  LIBS="-lz -lbz2 -lexpat -llz4 -pthread"
  if g++ -std=c++17 -O1 -g $FLAGS "$@" -I/repo/include "$D/demo.cpp" -o "$W/demo_clean" $LIBS 2>"$W/demo_clean.err"; then
    (cd "$W" && timeout 300 ./demo_clean >/dev/null 2>&1); demo_clean=$?
  else demo_clean="compile failed"; fi
  if g++ -std=c++17 -O1 -g $FLAGS "$@" -I"$W/include" "$D/demo.cpp" -o "$W/demo_changed" $LIBS 2>"$W/demo_changed.err"; then
    (cd "$W" && timeout 300 ./demo_changed >/dev/null 2>&1); demo_changed=$?
  else demo_changed="compile failed"; fi
fi
chk=$(cd /verif && VERIF_REPO="$W" VERIF_CACHE=/verif/.cache/seed.$$ VERIF_EVIDENCE_DIR=/verif/.cache/seed.$$/evidence ./check "$ID" --tier "${TIER:-quick}" 2>&1)
rc=$?
keys=$(echo "$chk" | grep "key:" | sed 's/^ *key: //' | head -4 | python3 -c "import sys,json; print(json.dumps([l.strip() for l in sys.stdin]))")
python3 - "$D" "$ID" "$applies" "$tests" "$demo_clean" "$demo_changed" "$rc" "$keys" <<'PY'
import json,sys
d,pid,applies,tests,dc,dch,rc,keys=sys.argv[1:9]
json.dump(dict(property=pid,patch_applies=applies=='true',repo_tests=tests,demo_exit_unchanged_tree=dc,demo_exit_changed_tree=dch,
               check_quick_rc=int(rc),check_violation_keys=json.loads(keys)),open(d+'/verify.json','w'),indent=1)
print(open(d+'/verify.json').read())
PY
