#!/bin/bash
# verifies every delivered seed under /tmp/seedout/<ID>-<k>/ that has no verify.json yet
for d in /tmp/seedout/C*-*/; do
  d=${d%/}
  [ -f "$d/patch.diff" ] && [ -f "$d/demo.cpp" ] || continue
  [ -f "$d/verify.json" ] && continue
  id=$(basename "$d" | cut -d- -f1)
  /verif/tools/verify_seed.sh "$d" "$id" > "$d/verify.log" 2>&1
done
