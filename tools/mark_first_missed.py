#!/usr/bin/env python3
"""tools/mark_first_missed.py <seed>...: the verify run of these seeds happened after the check had
already been strengthened (the miss was observed in a direct tools/mutant_run.sh run before).
Moves the verify result into final_check.json and records the observed first run (rc=0)."""
import json
import subprocess
import sys

head = subprocess.check_output(['git', '-C', '/verif', 'rev-parse', '--short', 'HEAD'], text=True).strip()
for s in sys.argv[1:]:
    d = '/tmp/seedout/%s/' % s
    v = json.load(open(d + 'verify.json'))
    if v['check_quick_rc'] != 1:
        print(s, 'verify rc is', v['check_quick_rc'], '- left alone')
        continue
    json.dump(dict(rc=1, violation_keys=v['check_violation_keys'], verif_commit=head), open(d + 'final_check.json', 'w'), indent=1)
    v['check_quick_rc'] = 0
    v['check_violation_keys'] = []
    v['note'] = 'first run (tools/mutant_run.sh with the check as it was before it was strengthened for this seed) gave rc=0; final_check.json holds the run of the current check'
    json.dump(v, open(d + 'verify.json', 'w'), indent=1)
    print(s, 'marked')
