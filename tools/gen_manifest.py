#!/usr/bin/env python3
"""Regenerates /verif/MANIFEST.json from the table below (kept in one place so
that the manifest stays valid while checks are being added)."""
import json
import os
import subprocess

HERE = os.path.dirname(os.path.dirname(os.path.abspath(__file__)))

# id -> (category, technique, text, note, design_ref)
CHECKS = {
    'C16': ('exploration', 'exhaustive grid enumeration against a reference order + order-axiom monitor (ASan/UBSan build)',
            'Every ordered pair of a 648-object boundary grid is compared under all four comparators with the documented order '
            '(type, id rule 0/negative/positive by absolute value, version, timestamp) and the strict-weak-order axioms are '
            'checked on triples (all 2.7e8 in the thorough tier); every (type,id) sequence of length <= 4 goes through '
            'CheckOrder against "strictly ascending"; random collections are sorted through ObjectPointerCollection and fed '
            'to CheckOrder. Held on what was enumerated, nothing is proved beyond the grid.',
            'Trusted: the reference key in the harness (written from the comments in object_comparisons.hpp), gcc ASan/UBSan. '
            'Timestamp-using comparators are judged only on all-set or all-unset timestamps, as the property states.',
            'DESIGN.md section 2 C16'),
    'C13': ('exploration', 'exhaustive/strided enumeration with an exact decimal-arithmetic reference oracle (ASan/UBSan + -O2 builds)',
            'parse(format(x)) == x for all 2^32 coordinates and timestamps (thorough; strided plus complete boundary blocks in quick); every '
            'string over {0-9 . - + e E space x} up to length 5/7 and every exponent -99999..99999 through set_lon/set_lat and the partial '
            'variants against exact decimal rounding (ties accept either neighbour); timestamp field sweeps and corruptions against a proleptic '
            'Gregorian reference; integer attribute parsers at every type boundary. Inputs sit in exact-size heap blocks so ASan sees reads past the NUL.',
            'Trusted: the digit-string arithmetic and calendar code in harness/c13_numbers.cpp. Must-accept class is conservative (documented digit '
            'limits, no "+"); 2^32-1 for version/uid/changeset is not judged because the shipped unit tests pin it as rejected; 29 Feb in non-leap '
            'years and instants outside the uint32 window are not judged.',
            'DESIGN.md section 2 C13'),
    'C01': ('exploration', 'differential round trip Writer->Reader against a format-projection model + independent PBF framing parser (ASan/UBSan build)',
            'Seeded data sets with boundary-heavy values are written with the real Writer under random option vectors (format, dense, blob compression, '
            '32 metadata subsets, locations_on_ways, file compression, reader pool, file/memory input, buffer/item feeding), read back with the real Reader '
            'and compared field by field with project(D, options); boundary packs exercise 7999/8000/8001 entities per block and a > 32 MiB string table; '
            'every uncompressed PBF file is re-parsed by an independent framing parser that enforces the 64 KiB / 32 MiB limits. Held on the sampled '
            '(D, option) pairs only.',
            'Trusted: the projection rules (listed in the evidence under coverage.info), the harness framing parser, zlib/lz4. Domain restrictions are '
            'listed in the evidence. Known finding: XML changeset id 2^32-1 (pinned by a shipped unit test).',
            'DESIGN.md section 2 C01'),
    'C18': ('exploration', 'exhaustive/strided enumeration of fixed-point latitudes/longitudes with direct evaluation of the stated inequalities (-O2 and ASan/UBSan builds)',
            'Every fixed-point latitude in [-90,90] (1.8e9 values, thorough tier; random-offset stride 1009 plus complete +-10^4 neighbourhoods of 0, +-78, '
            '+-85.05, +-MERCATOR_MAX_LAT, +-89.99, +-90 in quick) and a dense longitude grid incl. exactly +-180: round trip to the same fixed-point value, '
            'fast formula within 1 cm and 1/4 local step of the tangent formula, strict monotonicity, and for zoom 0..30 tile range, never decreasing east/south, '
            'parent/child containment, through both Tile constructors.',
            'Trusted: long double reference formulas in the harness. Round trip/monotonicity/accuracy vs the canonical formula are judged inside the documented domain '
            '|lat| <= MERCATOR_MAX_LAT; tile clauses for every valid location incl. poles.',
            'DESIGN.md section 2 C18'),
    'C09': ('fault_enumeration', 'reference-decompressor oracle (Python gzip/bz2 at generation time) over an enumerated corpus of multi-stream, truncated and corrupted files (ASan/UBSan builds, three input buffer sizes)',
            'Every file of a generated corpus (1..6 concatenated streams incl. empty/tiny streams and stream boundaries aligned to libbz2/zlib read sizes; every '
            'truncation length and single-byte corruption of small files, sampled ones for larger files) goes through the fd and the buffer decompressor created via '
            'CompressionFactory under input buffer sizes default/4096/100: output must equal the reference payload, offset <= file size, damaged files must not be '
            'accepted as a shorter payload; the library compressors\' output is re-read by the library and by Python; multi-stream OPL files go through the full Reader.',
            'Trusted: Python gzip/bz2. Not judged: bytes of a following stream shorter than / corrupted inside its magic number (all compression libraries treat that as '
            'ignorable trailing garbage), empty files, damaged files that decode completely or to something that is not a prefix.',
            'DESIGN.md section 2 C09'),
    'C11': ('exploration', 'set-based reference model of the two-pass history, judged online inside the manager callbacks (ASan/UBSan build, GC hook counter)',
            'Seeded relation sets with overlapping/duplicate/missing/nested references and seeded interest predicates are fed through all 8 type-switch instantiations '
            'of RelationsManager (plus 3 without order check) and the MultipolygonManager: completion exactly once at the arrival of the last wanted member, members '
            'byte-identical inside the callback, availability until the last needing relation completed and nullptr afterwards, *_not_in_any_relation and incomplete '
            'listing exact, output delivered once in order; large histories force ItemStash garbage collection (hook counter required > 0).',
            'Trusted: the model in harness/c11_relations.cpp. Not judged: relations of interest without wanted members, order of several completions at the same object.',
            'DESIGN.md section 2 C11'),
    'C19': ('exploration', 'offline checker over client-boundary push/pop/task histories under seeded schedule perturbation (TSan and ASan builds)',
            'Histories with 1..8 producers x 1..8 consumers x bounds {0,1,2,3,10}: every pop logged with call/return ticks of a logical clock; multiset equality '
            '(no loss/duplicate), real-time FIFO per producer, size bound observed under the queue\'s own lock (hook), producer blocks at the bound, every consumer '
            'wakes on shutdown; pools of 1..32 workers: every task exactly once, value/exception arrives in the future, destruction with queued work runs it and '
            'joins the workers. Each history runs under seeded yields/sleeps at the hook points; the number of distinct interleaving signatures is reported.',
            'Liveness is decided as bounded progress (in-harness watchdog + driver stall oracle). Held on the interleavings actually produced.',
            'DESIGN.md section 2 C19'),
}

NOT_YET = 'check not built yet (work in progress, see DESIGN.md section 6)'


def main():
    hooks_commits = subprocess.run(['git', '-C', '/repo', 'log', '--format=%H %s', '--grep=^verif hooks'],
                                   stdout=subprocess.PIPE, text=True).stdout.strip().splitlines()
    checks = []
    for pid in sorted(CHECKS):
        cat, tech, text, note, ref = CHECKS[pid]
        checks.append(dict(
            property_id=pid,
            quick_cmd='./check %s --tier quick' % pid,
            thorough_cmd='./check %s --tier thorough' % pid,
            evidence_file='evidence/%s.json' % pid,
            replay_cmd_template='./check --replay {path}',
            engine='vh-runner',
            level_claimed=dict(category=cat, text=text, design_ref=ref),
            level_note=note,
            technique=tech))
    na = [dict(property_id='C%02d' % i, reason=NOT_YET) for i in range(1, 21) if 'C%02d' % i not in CHECKS]
    m = dict(
        version=1,
        setup_cmd='./check --build-all --tier quick',
        hooks=dict(guard='OSMIUM_VERIF',
                   enable='every harness is compiled by lib/vlib.py with -DOSMIUM_VERIF -I/repo/include (header-only library); '
                          'optional size overrides -DOSMIUM_VERIF_INPUT_BUFFER_SIZE / _PBF_BUFFER_SIZE / _PARSER_BUFFER_SIZE / _MIN_DENSE_ENTRIES',
                   baseline_off_cmd='cmake --build /repo/_build -j16 && ctest --test-dir /repo/_build -j8 --timeout 900',
                   source_commits=[c.split(' ')[0] for c in hooks_commits],
                   add_only=True),
        engines=[dict(name='vh-runner', path='check',
                      serves_properties=sorted(CHECKS),
                      kind_free_text='python driver (lib/vlib.py): content-addressed build cache of C++ harnesses compiled against '
                                     '/repo/include under gcc ASan+UBSan / TSan / clang libFuzzer, sharded seeded case runner with crash '
                                     'attribution and hang oracle, known-findings matcher, evidence writer')],
        checks=checks,
        notes='Technique family: runtime monitoring and sanitizers. See DESIGN.md. known_findings.txt lists recorded findings and fixed: entries.',
        not_applicable=na)
    with open(os.path.join(HERE, 'MANIFEST.json'), 'w') as fh:
        json.dump(m, fh, indent=1)
        fh.write('\n')
    try:
        import jsonschema
        jsonschema.validate(m, json.load(open('/root/.vp/MANIFEST.schema.json')))
        print('MANIFEST.json valid; %d checks, %d not_applicable' % (len(checks), len(na)))
    except ImportError:
        print('jsonschema not available; wrote MANIFEST.json')


if __name__ == '__main__':
    main()
