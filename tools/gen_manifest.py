#!/usr/bin/env python3
"""Regenerates /verif/MANIFEST.json from the table below (kept in one place so
that the manifest stays valid while checks are being added)."""
import json
import os
import subprocess

HERE = os.path.dirname(os.path.dirname(os.path.abspath(__file__)))

# id -> (category, technique, text, note, design_ref)
CHECKS = {
    'C16': ('exploration', 'exhaustive grid enumeration against a reference order + order-axiom monitor (ASan/UBSan build)',
            'Every ordered pair of a 648-object boundary grid is compared under all four comparators with the documented order '
            '(type, id rule 0/negative/positive by absolute value, version, timestamp) and the strict-weak-order axioms are '
            'checked on triples (all 2.7e8 in the thorough tier); every (type,id) sequence of length <= 4 goes through '
            'CheckOrder against "strictly ascending"; random collections are sorted through ObjectPointerCollection and fed '
            'to CheckOrder. Held on what was enumerated, nothing is proved beyond the grid.',
            'Trusted: the reference key in the harness (written from the comments in object_comparisons.hpp), gcc ASan/UBSan. '
            'Timestamp-using comparators are judged only on all-set or all-unset timestamps, as the property states.',
            'DESIGN.md section 2 C16'),
    'C13': ('exploration', 'exhaustive/strided enumeration with an exact decimal-arithmetic reference oracle (ASan/UBSan + -O2 builds)',
            'parse(format(x)) == x for all 2^32 coordinates and timestamps (thorough; strided plus complete boundary blocks in quick); every '
            'string over {0-9 . - + e E space x} up to length 5/7 and every exponent -99999..99999 through set_lon/set_lat and the partial '
            'variants against exact decimal rounding (ties accept either neighbour); timestamp field sweeps and corruptions against a proleptic '
            'Gregorian reference, through Timestamp(const char*) and the strict OSMObject::set_timestamp(const char*); integer attribute parsers at every type boundary. Inputs sit in exact-size heap blocks so ASan sees reads past the NUL.',
            'Trusted: the digit-string arithmetic and calendar code in harness/c13_numbers.cpp. Must-accept class is conservative (documented digit '
            'limits, no "+"); 2^32-1 for version/uid/changeset is not judged because the shipped unit tests pin it as rejected; 29 Feb in non-leap '
            'years and instants outside the uint32 window are not judged.',
            'DESIGN.md section 2 C13'),
    'C01': ('exploration', 'differential round trip Writer->Reader against a format-projection model + independent PBF framing parser (ASan/UBSan build)',
            'Seeded data sets with boundary-heavy values are written with the real Writer under random option vectors (format, dense, blob compression, '
            '32 metadata subsets, locations_on_ways, file compression, reader pool, file/memory input; fed as buffers, as items or as a seeded sequence of item runs, whole buffers and flush() calls; one case per format encodes 40 blocks concurrently), read back with the real Reader '
            'and compared field by field with project(D, options); boundary packs exercise 7999/8000/8001 entities per block and a > 32 MiB string table; '
            'every uncompressed PBF file is re-parsed by an independent framing parser that enforces the 64 KiB / 32 MiB limits. Held on the sampled '
            '(D, option) pairs only.',
            'Trusted: the projection rules (listed in the evidence under coverage.info), the harness framing parser, zlib/lz4. Domain restrictions are '
            'listed in the evidence. Known finding: XML changeset id 2^32-1 (pinned by a shipped unit test).',
            'DESIGN.md section 2 C01'),
    'C18': ('exploration', 'exhaustive/strided enumeration of fixed-point latitudes/longitudes with direct evaluation of the stated inequalities (-O2 and ASan/UBSan builds)',
            'Every fixed-point latitude in [-90,90] (1.8e9 values, thorough tier; random-offset stride 1009 plus complete +-10^4 neighbourhoods of 0, +-78, '
            '+-85.05, +-MERCATOR_MAX_LAT, +-89.99, +-90 in quick) and a dense longitude grid incl. exactly +-180: round trip to the same fixed-point value, '
            'fast formula within 1 cm and 1/4 local step of the tangent formula, strict monotonicity, and for zoom 0..30 tile range, never decreasing east/south, '
            'parent/child containment, through both Tile constructors.',
            'Trusted: long double reference formulas in the harness. Round trip and strict monotonicity are judged for every latitude in [-90,90]; agreement with the canonical formula inside the documented domain '
            '|lat| <= MERCATOR_MAX_LAT; tile clauses for every valid location incl. poles.',
            'DESIGN.md section 2 C18'),
    'C09': ('fault_enumeration', 'reference-decompressor oracle (Python gzip/bz2 at generation time) over an enumerated corpus of multi-stream, truncated and corrupted files (ASan/UBSan builds, three input buffer sizes)',
            'Every file of a generated corpus (1..6 concatenated streams incl. empty/tiny streams and stream boundaries aligned to libbz2/zlib read sizes; every '
            'truncation length and single-byte corruption of small files, sampled ones for larger files) goes through the fd and the buffer decompressor created via '
            'CompressionFactory under input buffer sizes default/4096/100: output must equal the reference payload, offset <= file size, damaged files must not be '
            'accepted as a shorter payload; the library compressors\' output is re-read by the library and by Python; multi-stream OPL files go through the full Reader.',
            'Trusted: Python gzip/bz2. Not judged: bytes of a following stream shorter than / corrupted inside its magic number (all compression libraries treat that as '
            'ignorable trailing garbage), empty files, damaged files that decode completely or to something that is not a prefix.',
            'DESIGN.md section 2 C09'),
    'C11': ('exploration', 'set-based reference model of the two-pass history, judged online inside the manager callbacks (ASan/UBSan build, GC hook counter)',
            'Seeded relation sets with overlapping/duplicate/missing/nested references and seeded interest predicates are fed through all 8 type-switch instantiations '
            'of RelationsManager (plus 3 without order check) and the MultipolygonManager: completion exactly once at the arrival of the last wanted member, members '
            'byte-identical inside the callback, availability until the last needing relation completed and nullptr afterwards, *_not_in_any_relation and incomplete '
            'listing exact, output delivered once in order; large histories force ItemStash garbage collection (hook counter required > 0).',
            'Trusted: the model in harness/c11_relations.cpp. Not judged: relations of interest without wanted members, order of several completions at the same object.',
            'DESIGN.md section 2 C11'),
    'C19': ('exploration', 'offline checker over client-boundary push/pop/task histories under seeded schedule perturbation (TSan and ASan builds)',
            'Histories with 1..8 producers x 1..8 consumers x bounds {0,1,2,3,10}: every pop logged with call/return ticks of a logical clock; multiset equality '
            '(no loss/duplicate), real-time FIFO per producer, size bound observed under the queue\'s own lock (hook), producer blocks at the bound, every consumer '
            'wakes on shutdown; pools of 1..32 workers: every task exactly once, value/exception arrives in the future, destruction with queued work runs it and '
            'joins the workers. Each history runs under seeded yields/sleeps at the hook points; the number of distinct interleaving signatures is reported.',
            'Liveness is decided as bounded progress (in-harness watchdog + driver stall oracle). Held on the interleavings actually produced.',
            'DESIGN.md section 2 C19'),
    'C02': ('exploration', 'independent specification-derived encoders (PBF, o5m/o5c, XML, OPL) with every free encoding choice seeded; decoded result compared with the model (ASan/UBSan builds, one with 8-byte input pieces)',
            'A model data set D is encoded by harness encoders written from the format specifications, varying dense/plain nodes, blob compression, granularity, offsets, '
            'date granularity, absent optional fields, unknown fields of all wire types at every message level, field order, string table layout, indexdata, every '
            'BlobHeader length 11..65535 (thorough), blocks up to 32 MiB, o5m inline/table references incl. table wrap-around, resets, delta chains, tiny files and tiny '
            'final datasets, XML attribute order/quotes/references/change sections, OPL field order/escapes/line ends; the real Reader must return exactly D, and the four '
            'readers must agree pairwise on the same D.',
            'Trusted: the harness encoders (self-checked by the framing parser and by cross-format agreement). Not generated: unpacked encoding of packed fields, '
            'o5m string pairs of 244..256 bytes (spec ambiguity), XML value 4294967295 (pinned as rejected by a unit test).',
            'DESIGN.md section 2 C02'),
    'C04': ('exploration', 'reference byte-image + model-list oracle over seeded builder/buffer histories with an exhaustive capacity sweep (ASan/UBSan, with and without NDEBUG)',
            'Each seeded history of builder and buffer operations is executed in a large non-growing buffer (reference image) and then with every initial capacity 64, 72, ... '
            'peak+8 under auto_grow no/yes/internal and through CallbackBuffer: reserved bytes per operation, committed byte image (nested buffers oldest first), an '
            'explicit-bounds item walker, accessor-level comparison, buffer_is_full exactly where predicted, purge callbacks, swap/move/clear/rollback semantics; any '
            'ASan report (stale pointer across growth) or assertion on a legal history is a violation.',
            'Trusted: the model/walker in harness/c04_buffer.cpp. Not judged: capacity after automatic growth, moved-from buffers.',
            'DESIGN.md section 2 C04'),
    'C06': ('exploration', 'metamorphic oracle (one-piece run of the same bytes) with a piece-delivering Decompressor registered through CompressionFactory; real fd decompressors with tiny input buffers and wrapped short read(2)s (ASan/UBSan builds)',
            'For seed files in XML, osc, PBF (dense/plain/locations-on-ways), OPL and o5m, valid and truncated: every single cut and every pair of cuts for files up to '
            '90 (quick) / 256 (thorough) bytes, fixed piece sizes {1,2,3,5,7,8,9,10,11,4095,4096,4097}, seeded random cut sequences; header, objects or error type and '
            'message must equal the one-piece run. The real plain/gzip/bzip2 fd paths run with input_buffer_size 1/7/4096 and read(2) returning 1..n bytes; the same byte stream also as 2-5 gzip members / bzip2 streams incl. empty ones.',
            'Trusted: nothing but the equality oracle. Across the memory and fd code paths only success/failure, error type and data are compared (their error texts differ by design).',
            'DESIGN.md section 2 C06'),
    'C10': ('exploration', 'constructive generator with known validity + exact integer geometry oracle (__int128 predicates) on every produced area; metamorphic variants (ASan/UBSan build)',
            'Arrangements built on a jittered, linearly mapped integer lattice (nesting, islands, up to 100 touching points, shared edges, duplicate segments) and nested '
            'star/orthogonal polygons, 40% with an injected crossing/open ring/overlap, are cut into ways in up to 9 variants (order, direction, re-cutting, roles, node ids, '
            'way vs relation interface) and assembled: rings closed with >= 4 points, no crossing/overlap, inner inside its directly enclosing outer ring, fixed opposite '
            'orientation, segment conservation mod 2; valid inputs must be assembled, invalid ones rejected with a matching problem report; verdict and canonical ring set '
            'equal across variants.',
            'Trusted: brute-force re-check of the generator ground truth. Not judged: T-junctions, > 100 touching points. Known finding: recursion limit of the ring-joining search.',
            'DESIGN.md section 2 C10'),
    'C12': ('exploration', 'std::map reference model over seeded insertion histories for all eight factory-created map types, raw parsing and reload of dumps (ASan/UBSan builds, one with hook H5)',
            'The same history of distinct ids (dense, sparse, 2^33/2^63, boundaries k*2^16, k*2^20, k*1310720, growth steps) goes into every registered map type; get and '
            'get_noexcept on inserted ids, neighbours, boundaries and never-inserted ids are compared with the model; dump_as_list/dump_as_array are parsed raw and reloaded '
            'through the file-based types; FlexMem switch with H5=4096 in quick and across the real 0xffffff threshold in thorough; NodeLocationsForWays with 8x8 type pairs, '
            'nine node orders, positive and negative ids.',
            'Trusted: the std::map model. Not judged: clear(), size(), used_memory().',
            'DESIGN.md section 2 C12'),
    'C14': ('exploration', 'exhaustive enumeration with the real parsers as left inverse (opl_parse_string, expat; writer blocks also through the XML reader of the library), structural-character scan, exact-size heap blocks / guard pages for over-reads (ASan/UBSan + -O2 builds)',
            'Every Unicode scalar value (alone and in context), every sequence up to length 4 over a structural alphabet, random long strings and writer-level blocks are '
            'escaped by the OPL/XML writers and parsed back; escaped forms are scanned for raw structural characters and checked pairwise distinct; every byte string of '
            'length 0..4 (strided in quick) is escaped from an exact-size block: no read past the NUL and an exception exactly when a well-formed prefix ends in a cut-off sequence.',
            'Trusted: RFC 3629 encoder/walker in the harness, expat. Not judged: exceptions for other invalid UTF-8 (overlong, stray continuation), the byte-transparent XML escaper for the cut-off clause.',
            'DESIGN.md section 2 C14'),
    'C15': ('exploration', 'step-by-step comparison with std::set / pair-set / map models over seeded operation histories (ASan/UBSan build, GC hook counter)',
            'IdSetDense<uint32_t|uint64_t, chunk_bits 3|4|8|22>, IdSetSmall and nwr_array histories (set/unset/check_and_set/get/size/iteration/copy/move/swap/clear) with ids '
            'at every chunk border and at the top of T; RelationsMapStash with 32/64-bit mixes and all three index builders with lookups of recorded, truncated-alias and absent '
            'keys; ItemStash histories with manual and automatic garbage collection (hook counter), byte-identical content behind every live handle, space reclaimed.',
            'Trusted: the standard-container models.',
            'DESIGN.md section 2 C15'),
    'C17': ('exploration', 'independent WKB/EWKB/hex, WKT and GeoJSON decoders + exact rounding reference over enumerated and seeded geometries (ASan/UBSan build)',
            'Every node list of length 0..5 over {A, A+1 unit, C, undefined, out of range, half undefined} and seeded lists up to 400 nodes / areas with 1..5 outer x 0..4 inner '
            'rings, x {unique, all} x {forward, backward} x {identity, Mercator} x precision 0..17: each encoding is decoded by the harness, counts must match the encoded elements and '
            'consume the bytes exactly, coordinates must be the object\'s (exactly for identity, 1e-9 relative for Mercator), text numbers correctly rounded, all encodings agree, '
            'degenerate inputs rejected with geometry_error/invalid_location; double2string is tested directly against exact integer arithmetic.',
            'Trusted: the harness decoders and rounding reference. Not judged: area rings with < 4 points, duplicate removal inside create_multipolygon, latitudes beyond MERCATOR_MAX_LAT.',
            'DESIGN.md section 2 C17'),
    'C20': ('exploration', 'ordered callback log compared with a dispatch model; exhaustive enumeration of item sequences, handler lists and version histories (ASan/UBSan builds, one with hook H4)',
            'All 402k item-type sequences of length 0..5 over 13 item kinds x 30 handler kinds (static, DynamicHandler, const/non-const lambdas, ChainHandler) in lists of length 1..4 x 21 '
            'sources (Buffer, const Buffer, iterator ranges, InputIterator over mock and real Readers): osm_object then exactly the type callback per item and handler in order, one flush at the end; '
            'all 114k sorted version histories through DiffIterator/apply_diff incl. Readers with 4 KiB parser buffers: every version once, prev/next/first/last exact.',
            'Trusted: the dispatch model. Not judged: whether removed items are visited, forwarding of osm_object/sub-item callbacks by DynamicHandler/ChainHandler.',
            'DESIGN.md section 2 C20'),
    'C05': ('exploration', 'exactly-once/order oracle over unique (type,id,version) triples under seeded configurations and schedule perturbation at queue/pool hook points (TSan and ASan builds with small parser buffers, hook H4)',
            'Seeded multi-block files in PBF (dense/plain), XML, OPL and o5m are read with pool sizes 1..32, work/input/osmdata queue sizes, PBF decoding in pool threads on/off, buffers_type, '
            'all 16 entity masks, read_meta, file or memory input and fast/slow consumers, each under seeded yields/sleeps at the hook points: the delivered sequence must equal the generated '
            'data set filtered by the mask; eof() and failure of reads after the end are asserted. Every 6th case runs two Readers alive at the same time (each must deliver exactly its own file); '
            'close(2) is interposed (--wrap=close): a close of a descriptor that is not open is a violation.',
            'Held on the interleavings actually produced (distinct signatures are counted in the evidence). read_meta::no: metadata fields may be real or default.',
            'DESIGN.md section 2 C05'),
    'C07': ('fault_enumeration', 'enumerated stop points and injected faults (mock Decompressor registered via CompressionFactory, corrupted blocks, truncation) with process monitors: watchdog, read(2)/close(2) logs via --wrap=read/--wrap=close, /proc task and fd baselines (ASan and TSan builds)',
            'For every format: the consumer abandons the Reader after k reads (with/without header(), via close() or destructor); the j-th decompressor read or the close throws; the n-th PBF block '
            'is corrupt (zlib data / protobuf), text formats are corrupt in the middle, headers corrupt, input truncated; x pool and queue sizes x seeded perturbation. Every API call must return '
            '(bounded progress), the first error must be reported exactly by header()/read()/close(), afterwards read() throws and delivers nothing, delivered objects are a prefix located before '
            'the fault, no Decompressor::read()/read(2) on the Reader\'s fd after close() returned, no close(2) of a descriptor that is not open, thread and fd sets back to the baseline.',
            'Liveness decided as bounded progress (120 s watchdog + driver stall oracle). TSan reports through the exception_ptr reference count of the uninstrumented libstdc++ are suppressed (lib/tsan.supp).',
            'DESIGN.md section 2 C07'),
    'C08': ('fault_enumeration', 'OS-level fault injection (RLIMIT_FSIZE/EFBIG at byte offsets in a forked child; strace -e inject on the n-th write, fsync, close) and throwing mock Compressor / unencodable input, with file re-decoding as oracle (ASan and TSan builds)',
            'For 16 configurations (xml/pbf/opl x none/gzip/bzip2 x fsync) the Writer scenario (single items, flush, several buffers, optional flush, close) runs with the kernel refusing the first write that '
            'reaches offset o (first/last offsets densely, seeded ones between, control runs at the full size), with strace failing the n-th write (ENOSPC/EIO), fsync or close of the output file, '
            'with a Compressor that throws in its constructor, k-th write or close, and with an OPL string that cannot be encoded (failure in a pool worker). A fault that demonstrably fired must '
            'surface as an exception from operator(), flush() or close(); afterwards operator() throws io_error; destructor returns, threads back at baseline; a normal close() means size == stat size '
            'and the file decodes to exactly the objects written.',
            'A fault counts only when it demonstrably fired ((INJECTED) in the strace log, offset below the full size, mock call counter); other runs are inconclusive. Liveness as bounded progress.',
            'DESIGN.md section 2 C08'),
    'C03': ('exploration', 'coverage-guided fuzzing (clang libFuzzer + ASan + UBSan) and deterministic/structure-aware mutation sweeps (gcc ASan + UBSan, NDEBUG and assertions on) through the real Reader, with exact-fit traversal of everything delivered',
            'Every prefix of every seed file, single-byte substitutions at every offset, ~1700 crafted inputs (every order of child elements in XML, valid files whose objects sweep across the decoder buffer capacities, o5m reference-table fill, (string lengths 0..70000 and embedded NULs in every PBF string slot, '
            'mismatching packed-array lengths, hostile framing, structurally odd XML, OPL escapes, o5m references and lengths; each also gzip-wrapped), seeded structure-aware mutations (PBF '
            're-framed after mutating the uncompressed blob, payload mutated then re-compressed, compressed bytes mutated) in both build modes, plus libFuzzer targets for 10 format/wrapper '
            'combinations. Accepted: objects or an exception derived from std::exception. Violations: any ASan report, fatal UBSan class, signal, abort/assert, other exception type, hang, or a '
            'delivered item whose traversal (library accessors on an exact-fit copy) leaves the item.',
            'Arithmetic UBSan classes are informational. Liveness as bounded progress (libFuzzer timeout artifacts must reproduce alone; driver stall oracle). A clean run is "no report on N executions".',
            'DESIGN.md section 2 C03'),
}

NOT_YET = 'check not built yet (work in progress, see DESIGN.md section 6)'


def main():
    hooks_commits = subprocess.run(['git', '-C', '/repo', 'log', '--format=%H %s', '--grep=^verif hooks'],
                                   stdout=subprocess.PIPE, text=True).stdout.strip().splitlines()
    checks = []
    for pid in sorted(CHECKS):
        cat, tech, text, note, ref = CHECKS[pid]
        checks.append(dict(
            property_id=pid,
            quick_cmd='./check %s --tier quick' % pid,
            thorough_cmd='./check %s --tier thorough' % pid,
            evidence_file='evidence/%s.json' % pid,
            replay_cmd_template='./check --replay {path}',
            engine='vh-runner',
            level_claimed=dict(category=cat, text=text, design_ref=ref),
            level_note=note,
            technique=tech))
    na = [dict(property_id='C%02d' % i, reason=NOT_YET) for i in range(1, 21) if 'C%02d' % i not in CHECKS]
    m = dict(
        version=1,
        setup_cmd='./check --build-all --tier quick',
        hooks=dict(guard='OSMIUM_VERIF',
                   enable='every harness is compiled by lib/vlib.py with -DOSMIUM_VERIF -I/repo/include (header-only library); '
                          'optional size overrides -DOSMIUM_VERIF_INPUT_BUFFER_SIZE / _PBF_BUFFER_SIZE / _PARSER_BUFFER_SIZE / _MIN_DENSE_ENTRIES',
                   baseline_off_cmd='cmake --build /repo/_build -j16 && ctest --test-dir /repo/_build -j8 --timeout 900',
                   source_commits=[c.split(' ')[0] for c in hooks_commits],
                   add_only=True),
        engines=[dict(name='vh-runner', path='check',
                      serves_properties=sorted(CHECKS),
                      kind_free_text='python driver (lib/vlib.py): content-addressed build cache of C++ harnesses compiled against '
                                     '/repo/include under gcc ASan+UBSan / TSan / clang libFuzzer, sharded seeded case runner with crash '
                                     'attribution and hang oracle, known-findings matcher, evidence writer')],
        checks=checks,
        notes='Technique family: runtime monitoring and sanitizers. See DESIGN.md. known_findings.txt lists recorded findings and fixed: entries.',
        not_applicable=na)
    with open(os.path.join(HERE, 'MANIFEST.json'), 'w') as fh:
        json.dump(m, fh, indent=1)
        fh.write('\n')
    try:
        import jsonschema
        jsonschema.validate(m, json.load(open('/root/.vp/MANIFEST.schema.json')))
        print('MANIFEST.json valid; %d checks, %d not_applicable' % (len(checks), len(na)))
    except ImportError:
        print('jsonschema not available; wrote MANIFEST.json')


if __name__ == '__main__':
    main()
