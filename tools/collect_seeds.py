#!/usr/bin/env python3
"""Copies verified seeded changes from /tmp/seedout/<ID>-<k>/ into /verif/seeded/<ID>-<k>/
(patch.diff, demo.cpp, meta.json). Only seeds whose verify.json shows: patch applies, the 159
repo tests pass with it, the demo passes on the unchanged tree and fails on the changed tree."""
import json
import os
import shutil
import subprocess
import sys

SRC = '/tmp/seedout'
DST = '/verif/seeded'
# seeds that the checks missed when they were first run, and what was strengthened
STRENGTHENED = {
    'C01-1': 'missed at first (the Writer was fed either by buffers or by items, never both); C01 now also mixes runs of items and buffers on one Writer',
    'C03-1': 'missed at first (parser buffers never had to grow while a role was appended); C03 now repeats crafted inputs, prefixes and seeded mutations with tiny parser buffers (hook H4) and seeds with many long roles / many nodes / many tags',
    'C05-1': 'missed by the check as of commit ec0f5a0 (confirmed by running that version against the change: no object larger than the PBF decoder buffer at the start of a block); C05 now makes the first object of some runs larger than the decoder buffer',
    'C05-2': 'missed by the check as of commit ec0f5a0 (confirmed by running that version against the change: no input stall longer than the seeded 1 s timeout); C05 now feeds some files through a FIFO whose feeder stalls for 1.3 s',
    'C06-1': 'missed at first (o5m seeds had only datasets with 1-byte lengths); C06 now has encoder-made o5m/o5c seeds incl. a way with 125/200 node refs',
    'C07-2': 'missed at first (injected faults were std::runtime_error and pieces were not aligned to blob boundaries); C07 now also throws classes derived from osmium::io_error and delivers PBF blobs as whole pieces',
    'C09-1': 'missed at first (no file whose total compressed size is a multiple of 5000); the corpus now has files with total size = 0 mod 5000/4096/100',
    'C01-3': 'missed by the check as of /verif commit f2be2be (confirmed by running that version against the change: rc=0; a Writer was never given two whole buffers in a row, or flush() twice, after single items); C01 now drives a seeded sequence of item runs, whole buffers and flush() calls on one Writer',
    'C01-4': 'caught by the check as of f2be2be with a single occurrence; C01 now also writes 40 buffers of 1000 nodes with distinct timestamps through a pool of 4 workers so that concurrent encoding of text blocks is certain, not incidental',
    'C05-4': 'missed at first (one Reader at a time); C05 now runs every 6th case with two Readers alive at the same time and interposes close(2): a close on a descriptor that is not open is a violation (also in C07)',
    'C08-4': 'missed by the check as of /verif commit f2be2be (confirmed by running that version against the change: rc=0; the Writer scenarios only wrote whole buffers); every C08 scenario now starts with single items followed by flush() before the buffers',
    'C09-3': 'missed at first: the corpus was meant to hold bzip2 files whose first stream ends 1-2 bytes before a 5000-byte read chunk, but the search for such a first stream (prefix lengths of incompressible data) silently found none for bzip2; the search now runs on the compressible payload with bisection and retries, and the driver fails (exit 2) if the required alignment classes are not in the corpus',
    'C14-3': 'missed at first (the XML writer output was parsed with expat only, never with the library\'s own XML parser, whose character-data handler is what has to reassemble escaped text); C14 writer mode now also reads every XML block with the real Reader and compares all string sites',
    'C03-4': 'missed at first (verify run of 11:4x with /verif commit 1e0c0a5..: rc=0; no crafted XML input had a <tag> after a <discussion>); C03 now has crafted XML inputs with every order of up to 3 child elements of 6 kinds under each parent and every order of 4 under <changeset>, run in both build modes and with tiny parser buffers',
    'C18-3': 'missed at first: round trip and strict monotonicity were judged only on the documented domain of lonlat_to_mercator (|lat| <= 85.0511288) although the property states them for every representable latitude; after the exhaustive thorough run had shown 0 mismatches outside that domain on the unchanged tree, both clauses are now judged for every latitude in [-90, 90]',
    'C18-4': 'missed at first for the same reason as C18-3 (the 36 affected latitudes lie within 3e-6 degrees of the poles, outside the domain that was judged); the +-10^4 neighbourhoods of +-90 degrees are swept with stride 1 in the quick tier and are now judged',
    'C03-5': 'missed at first (no o5m input stored more than 15000 strings; C02 has such files but judges decoding, not memory safety of C03 inputs); C03 now reads o5m inputs that fill the reference table with 14998..15002 and 30001 strings followed by back references, in all three build variants',
    'C03-6': 'missed at first (no input made the pending object reach the buffer capacity with a small committed part in front and a long string behind); C03 now sweeps the size of the second object of a valid file in element steps across 1 KiB / 4 KiB / 64 KiB (node refs, members, tags) followed by a string of 300 / 1000 bytes, in OPL, XML and PBF, in all three build variants',
    'C05-6': 'missed at first (the Reader was only consumed through read(); C20 catches the same change through its own iterator sources); every 5th C05 case now consumes the Reader through InputIterator<Reader, const OSMEntity> with *it++, with a retained copy, or with pre-increment, under ASan and TSan',
    'C06-6': 'missed at first (C06 delivered empty pieces only never - the quantifier asks for non-empty chunks - and compressed inputs had a single member; C09 catches the same change); the fd part of C06 now also cuts the byte stream into 2-5 gzip members / bzip2 streams, empty ones included, and judges buffer and fd decompressor runs against the uncompressed bytes',
    'C04-6': 'missed at first (add_buffer sources were always fully committed); every other source buffer of C04 now holds one complete but uncommitted object behind its committed ones',
    'C09-6': 'missed at first (the compressor round trip never issued a zero-length write); half of the round trips now insert zero-length writes first, in between and last',
    'C13-5': 'missed at first (timestamps were parsed through Timestamp(const char*) only, which does not require full consumption); C13 now also judges OSMObject::set_timestamp(const char*), the strict entry point used by the XML reader: same grammar, whole string consumed, else invalid_argument',
    'C02-6': 'missed at first (the text data sets had valid_locations_only: every node ref of a way was located); the OPL data sets of C02 now contain ways with partly located node refs and the xy form for undefined ones',
    'C07-5': 'missed at first (every Reader asked for all entity types); a fifth of the valid-input scenarios of C07 now ask for osm_entity_bits::nothing (header only) - the fd and thread baselines do the rest',
    'C20-5': 'missed at first (the function object given to DynamicHandler recorded into a global log, so a call on a copy looked the same); it now carries its own address and reports a call that reaches a copy',
    'C02-1': 'missed at first (string pairs near the 250-character table limit were deliberately kept out of the files); C02 now places pairs of exactly 249/250/251/252 characters followed by references',
}


NEEDS = json.load(open('/verif/tools/seed_needs.json'))


def first_paragraphs(meta_txt):
    paras = [p.strip() for p in meta_txt.split('\n\n') if p.strip()]
    return paras


def main():
    os.makedirs(DST, exist_ok=True)
    rows = []
    for name in sorted(os.listdir(SRC)):
        d = os.path.join(SRC, name)
        vj = os.path.join(d, 'verify.json')
        if not os.path.isdir(d) or not os.path.exists(vj):
            continue
        v = json.load(open(vj))
        ok = v['patch_applies'] and v['repo_tests'].startswith('100% tests passed') and v['demo_exit_unchanged_tree'] == '0' and v['demo_exit_changed_tree'] not in ('0', '?', 'compile failed')
        if not ok:
            rows.append((name, 'NOT KEPT', json.dumps(v)[:200]))
            continue
        out = os.path.join(DST, name)
        os.makedirs(out, exist_ok=True)
        shutil.copy(os.path.join(d, 'patch.diff'), out)
        shutil.copy(os.path.join(d, 'demo.cpp'), out)
        meta_txt = open(os.path.join(d, 'meta.txt'), errors='replace').read()
        final = None
        fj = os.path.join(d, 'final_check.json')
        if os.path.exists(fj):
            final = json.load(open(fj))
        meta = dict(
            id=name, property=v['property'],
            written_by='independent sub-agent given only the property text and its own scratch worktree',
            needs_in_order_to_manifest=NEEDS.get(name, ''),
            description=meta_txt[:6000],
            what_i_ran=dict(
                tool='tools/verify_seed.sh (scratch worktree under /var/tmp/verif-scratch, removed afterwards)',
                patch_applies=v['patch_applies'], repo_test_suite_with_patch=v['repo_tests'],
                demo_exit_code_on_unchanged_tree=v['demo_exit_unchanged_tree'], demo_exit_code_with_patch=v['demo_exit_changed_tree'],
                check_quick_exit_code_when_first_run=v['check_quick_rc'], check_violation_keys_when_first_run=v['check_violation_keys']),
            final_check=final,
            note=STRENGTHENED.get(name, 'caught by the quick tier as first run'))
        json.dump(meta, open(os.path.join(out, 'meta.json'), 'w'), indent=1)
        rows.append((name, 'kept', 'first rc=%s%s' % (v['check_quick_rc'], (' final rc=%s' % final['rc']) if final else '')))
    for r in rows:
        print('\t'.join(r))


if __name__ == '__main__':
    main()
