#!/usr/bin/env python3
"""Regenerates section 12 of DESIGN.md (between the SENSITIVITY markers) from
mutants/RESULTS.tsv and seeded/*/meta.json."""
import glob
import json
import os
import re

V = '/verif'
BEGIN, END = '<!-- SENSITIVITY:BEGIN -->', '<!-- SENSITIVITY:END -->'


def first_hunk_summary(patch):
    minus, plus, f = None, None, None
    for line in open(patch, errors='replace'):
        if line.startswith('+++ '):
            f = line.split('include/osmium/')[-1].split()[0] if 'include/osmium/' in line else line[4:].strip()
        elif line.startswith('-') and not line.startswith('---') and minus is None and line[1:].strip():
            minus = line[1:].strip()
        elif line.startswith('+') and not line.startswith('+++') and plus is None and line[1:].strip():
            plus = line[1:].strip()
    return f, minus, plus


NEEDS = json.load(open(os.path.join(V, 'tools', 'seed_needs.json')))


def main():
    rows = []
    res = {}
    p = os.path.join(V, 'mutants', 'RESULTS.tsv')
    if os.path.exists(p):
        for line in open(p):
            parts = line.rstrip('\n').split('\t')
            if len(parts) >= 2:
                res[parts[0]] = (parts[1], parts[2] if len(parts) > 2 else '')
    out = []
    out.append('### 12.1 Mutants written with knowledge of the checks (`mutants/*.patch`)\n')
    out.append('`-rN` = reverse of a `fix:` commit (the original defect). Each was applied to a scratch worktree and the quick tier of its '
               'property\'s check was run against it (`tools/run_all_mutants.sh`, results in `mutants/RESULTS.tsv`); rc=1 means at least one violation key '
               'that is not a known finding.\n')
    out.append('| mutant | file | change (first hunk) | quick check | first key |')
    out.append('|---|---|---|---|---|')
    caught = missed = 0
    for patch in sorted(glob.glob(os.path.join(V, 'mutants', '*.patch')), key=lambda x: [int(t) if t.isdigit() else t for t in re.split(r'(\d+)', os.path.basename(x))]):
        name = os.path.basename(patch)
        f, minus, plus = first_hunk_summary(patch)
        rc, keys = res.get(name, ('not run', ''))
        if rc == '1':
            caught += 1
        elif rc in ('0', '2'):
            missed += 1
        chg = ('`%s` -> `%s`' % ((minus or '')[:60], (plus or '')[:60])).replace('|', '\\|')
        out.append('| %s | %s | %s | %s | %s |' % (name[:-6], f or '', chg, {'1': 'caught', '0': 'MISSED', 'NA': 'does not apply'}.get(rc, rc), (keys.split('|')[0][:90]).replace('|', '\\|')))
    out.append('\n%d caught, %d missed of %d run.\n' % (caught, missed, caught + missed))
    out.append('### 12.2 Seeded changes written by independent sub-agents (`seeded/<ID>-<k>/`)\n')
    out.append('Each agent received only the text of one property and its own scratch worktree (nothing from /verif). A change was kept only after '
               '`tools/verify_seed.sh` confirmed in a fresh scratch worktree: the patch applies, the 159 repo tests pass with it, the demonstration passes '
               'on the unchanged tree and fails with the change. "first run" is the quick check as it was when the seed was first tried; where that was a '
               'miss the check was strengthened (what was added is in the last column) and re-run ("final").\n')
    metas = [json.load(open(mj)) for mj in sorted(glob.glob(os.path.join(V, 'seeded', '*', 'meta.json')))]
    n_missed = sum(1 for m in metas if m['note'].startswith('missed'))
    n_final = sum(1 for m in metas if ((m.get('final_check') or {}).get('rc', m['what_i_ran']['check_quick_exit_code_when_first_run']) == 1))
    out.append('%d seeded changes in five rounds (round 1: two per property; rounds 2-5 asked for changes that need concurrency, multi-step API sequences, state carried '
               'between calls/blocks/pieces, rarely used paths or buffer-boundary sizes, and named the ideas already used): %d were missed by the check as it was when '
               'the seed was first tried, %d are caught by the checks as committed.\n' % (len(metas), n_missed, n_final))
    out.append('| seed | needs in order to manifest (from the author) | first run | final | note |')
    out.append('|---|---|---|---|---|')
    for mj in sorted(glob.glob(os.path.join(V, 'seeded', '*', 'meta.json'))):
        m = json.load(open(mj))
        desc = m['description']
        needs = NEEDS.get(m['id'], '')
        first = m['what_i_ran']['check_quick_exit_code_when_first_run']
        note = m['note']
        missed_first = note.startswith('missed')
        final = m.get('final_check') or {}
        out.append('| %s | %s | %s | %s | %s |' % (m['id'], needs.replace('|', '\\|'), 'missed' if missed_first else 'caught',
                                                  'caught' if (final.get('rc', first) == 1) else 'MISSED', note.replace('|', '\\|')[:480]))
    text = '\n'.join(out) + '\n'
    dp = os.path.join(V, 'DESIGN.md')
    s = open(dp).read()
    if BEGIN in s:
        s = s[:s.index(BEGIN) + len(BEGIN)] + '\n' + text + s[s.index(END):]
    else:
        s += '\n## 12. Which checks catch which changes\n\n' + BEGIN + '\n' + text + END + '\n'
    open(dp, 'w').write(s)
    print('section 12 regenerated: %d mutants (%d caught, %d missed)' % (caught + missed, caught, missed))


if __name__ == '__main__':
    main()
