"""vlib - build cache, sharded runner, watchdog, known-findings matcher and
evidence writer shared by all /verif checks.

Exit codes of a check: 0 held (or only known findings), 1 violation not listed
in known_findings.txt (prints `VIOLATION property=<id> replay=<path>`),
2 harness / infrastructure failure.
"""
import array
import concurrent.futures as cf
import hashlib
import json
import os
import re
import shutil
import signal
import subprocess
import sys
import time

VERIF = os.path.dirname(os.path.dirname(os.path.abspath(__file__)))
REPO = os.environ.get('VERIF_REPO', '/repo')
CACHE = os.environ.get('VERIF_CACHE', os.path.join(VERIF, '.cache'))
NCPU = int(os.environ.get('VERIF_JOBS', os.cpu_count() or 8))
GUARD = 'OSMIUM_VERIF'

UBSAN_FATAL = 'bounds,null,object-size,vptr,return,unreachable'
VARIANTS = {
    # gcc ASan+UBSan, NDEBUG as the shipped tests
    'asan': dict(cxx='g++', flags=['-O1', '-g', '-fno-omit-frame-pointer', '-fsanitize=address,undefined',
                                   '-fno-sanitize-recover=' + UBSAN_FATAL, '-DNDEBUG']),
    # same with library assertions enabled
    'asan-dbg': dict(cxx='g++', flags=['-O1', '-g', '-fno-omit-frame-pointer', '-fsanitize=address,undefined',
                                       '-fno-sanitize-recover=' + UBSAN_FATAL]),
    'tsan': dict(cxx='g++', flags=['-O1', '-g', '-fno-omit-frame-pointer', '-fsanitize=thread', '-DNDEBUG']),
    'fast': dict(cxx='g++', flags=['-O2', '-DNDEBUG']),
    'fuzz': dict(cxx='clang++-14', flags=['-O1', '-g', '-fno-omit-frame-pointer',
                                          '-fsanitize=fuzzer,address,undefined', '-fno-sanitize=object-size',
                                          '-fno-sanitize-recover=bounds,null,vptr,return,unreachable', '-DNDEBUG']),
    'fuzz-dbg': dict(cxx='clang++-14', flags=['-O1', '-g', '-fno-omit-frame-pointer',
                                              '-fsanitize=fuzzer,address,undefined', '-fno-sanitize=object-size',
                                              '-fno-sanitize-recover=bounds,null,vptr,return,unreachable']),
}
DEFAULT_LIBS = ['-lz', '-lbz2', '-lexpat', '-llz4', '-pthread']

SAN_ENV = {
    'ASAN_OPTIONS': 'abort_on_error=1:detect_leaks=0:detect_stack_use_after_return=1:quarantine_size_mb=8:'
                    'allocator_may_return_null=1:handle_abort=0',
    'UBSAN_OPTIONS': 'print_stacktrace=1',
    'TSAN_OPTIONS': 'halt_on_error=1:second_deadlock_stack=1:exitcode=66:ignore_noninstrumented_modules=1:suppressions=' + os.path.join(VERIF, 'lib', 'tsan.supp'),
}


class HarnessError(Exception):
    pass


def log(msg):
    sys.stderr.write(msg + '\n')
    sys.stderr.flush()


# ---------------------------------------------------------------- build cache

_tree_hash = None


def tree_hash():
    """sha256 over every file under REPO/include (path + content)."""
    global _tree_hash
    if _tree_hash is None:
        h = hashlib.sha256()
        root = os.path.join(REPO, 'include')
        for d, dirs, files in sorted(os.walk(root)):
            dirs.sort()
            for f in sorted(files):
                p = os.path.join(d, f)
                h.update(os.path.relpath(p, root).encode())
                with open(p, 'rb') as fh:
                    h.update(fh.read())
        _tree_hash = h.hexdigest()
    return _tree_hash


def _common_hash(srcp):
    """hash of the harness/common headers the source includes (transitively)"""
    root = os.path.join(VERIF, 'harness', 'common')
    seen, todo = set(), [srcp]
    h = hashlib.sha256()
    while todo:
        p = todo.pop()
        try:
            with open(p, 'rb') as fh:
                data = fh.read()
        except OSError:
            continue
        if p != srcp:
            h.update(os.path.basename(p).encode())
            h.update(data)
        for m in re.finditer(rb'#\s*include\s+"([^"]+)"', data):
            q = os.path.join(root, m.group(1).decode())
            if q not in seen and os.path.exists(q):
                seen.add(q)
                todo.append(q)
    return h.hexdigest()


def build(src, variant='asan', defines=(), libs=None, extra_flags=(), name=None):
    """Compile harness `src` (path relative to /verif) against REPO/include
    with hooks on. Returns the path of the binary (cached by content)."""
    v = VARIANTS[variant]
    srcp = os.path.join(VERIF, src)
    libs = DEFAULT_LIBS if libs is None else libs
    defs = ['-D' + GUARD, '-DOSMIUM_WITH_LZ4'] + ['-D' + d for d in defines]
    cmd_core = [v['cxx'], '-std=c++17'] + v['flags'] + list(extra_flags) + defs + \
               ['-I' + os.path.join(REPO, 'include'), '-I' + os.path.join(VERIF, 'harness', 'common'),
                '-Wno-deprecated-declarations']
    h = hashlib.sha256()
    h.update(tree_hash().encode())
    h.update(_common_hash(srcp).encode())
    with open(srcp, 'rb') as fh:
        h.update(fh.read())
    h.update(' '.join(cmd_core + libs).encode())
    key = h.hexdigest()[:24]
    base = name or os.path.splitext(os.path.basename(src))[0]
    outdir = os.path.join(CACHE, 'build', key)
    out = os.path.join(outdir, base + '.' + variant)
    if os.path.exists(out):
        return out
    os.makedirs(outdir, exist_ok=True)
    tmp = out + '.tmp%d' % os.getpid()
    cmd = cmd_core + [srcp, '-o', tmp] + libs
    t0 = time.time()
    p = subprocess.run(cmd, stdout=subprocess.PIPE, stderr=subprocess.STDOUT, text=True)
    if p.returncode != 0:
        raise HarnessError('build failed: %s\n%s' % (' '.join(cmd), p.stdout[-6000:]))
    os.rename(tmp, out)
    log('[build] %s (%s) %.1fs' % (base, variant, time.time() - t0))
    return out


def build_many(specs):
    """specs: list of dicts of build() kwargs. Returns list of binaries."""
    with cf.ThreadPoolExecutor(max_workers=max(1, min(len(specs), NCPU))) as ex:
        futs = [ex.submit(build, **s) for s in specs]
        return [f.result() for f in futs]


def prune_cache(keep_days=3):
    """Remove build dirs not belonging to the current tree (best effort)."""
    root = os.path.join(CACHE, 'build')
    if not os.path.isdir(root):
        return
    now = time.time()
    for d in os.listdir(root):
        p = os.path.join(root, d)
        try:
            if now - os.path.getmtime(p) > keep_days * 86400:
                shutil.rmtree(p, ignore_errors=True)
        except OSError:
            pass


# ---------------------------------------------------------------- running

def scratch_dir(tag):
    d = os.path.join(CACHE, 'scratch', '%s-%d' % (tag, os.getpid()))
    shutil.rmtree(d, ignore_errors=True)
    os.makedirs(d)
    return d


SAN_SUMMARY_RE = re.compile(r'SUMMARY: (\w+Sanitizer): (.*)')
FRAME_RE = re.compile(r'#\d+ 0x[0-9a-f]+ in (.+?) (/\S+?):(\d+)')
TSAN_FRAME_RE = re.compile(r'#\d+ (\S.*?) (/\S+?):(\d+) \(')


def sanitizer_key(stderr_text):
    """Stable short description of a sanitizer report: kind + first frame in
    libosmium (function name without template args / line numbers)."""
    kind = None
    m = SAN_SUMMARY_RE.search(stderr_text)
    if m:
        kind = m.group(1) + ':' + m.group(2).split(' ')[0]
    m2 = re.search(r'ERROR: AddressSanitizer: ([\w-]+)', stderr_text)
    if m2:
        kind = 'asan:' + m2.group(1)
    m3 = re.search(r'WARNING: ThreadSanitizer: ([\w ]+?) \(', stderr_text)
    if m3:
        kind = 'tsan:' + m3.group(1).strip().replace(' ', '-')
    m4 = re.search(r'runtime error: (.*)', stderr_text)
    if kind is None and m4:
        kind = 'ubsan:' + re.sub(r'0x[0-9a-f]+|\d+', 'N', m4.group(1))[:60]
    m5 = re.search(r"Assertion `(.*?)' failed", stderr_text)
    if m5:
        kind = 'assert:' + m5.group(1)[:80]
    frame = None
    # only the first stack of the report itself (stderr may hold earlier, informational UBSan output)
    body = stderr_text
    for marker in ('ERROR: AddressSanitizer', 'WARNING: ThreadSanitizer'):
        i = body.find(marker)
        if i >= 0:
            body = body[i:]
            j = body.find('\n\n')
            if j > 0:
                body = body[:j]
            break
    frames = [(fm.group(1), fm.group(2)) for fm in FRAME_RE.finditer(body)]
    if not frames:
        frames = [(fm.group(1), fm.group(2)) for fm in TSAN_FRAME_RE.finditer(body)]
    for fn, path in frames:
        if '/include/osmium/' in path:
            fn = re.sub(r'<.*>', '<>', fn)
            fn = re.sub(r'\(.*', '', fn)
            frame = fn + '@' + os.path.basename(path)
            break
    if frame is None:
        for fn, path in frames:
            if fn.startswith('trv::'):
                frame = re.sub(r'\(.*', '', fn) + ' (traversal of a delivered object left its item)'
                if 'traverse_tags' in body:
                    frame = 'trv::traverse_tags (traversal of a delivered object left its item)'
                break
    return (kind or 'crash') + (' in ' + frame if frame else '')


def _report_excerpt(stderr_text, n=6000):
    """the sanitizer report from its first line on (not the tail of stderr)"""
    for marker in ('WARNING: ThreadSanitizer', 'ERROR: AddressSanitizer', 'runtime error:', 'Assertion `'):
        i = stderr_text.find(marker)
        if i >= 0:
            return stderr_text[max(0, i - 200):i + n]
    return stderr_text[-3500:]


class ShardResult:
    def __init__(self):
        self.violations = []   # dicts: key, detail, case, desc, binary, args
        self.evaluations = 0
        self.counters = {}
        self.sets = {}
        self.samples = []
        self.info = []
        self.hashes = set()
        self.distinct_overflow = 0
        self.crashes = 0
        self.inconclusive = []
        self.harness_errors = []
        self.max_counters = set()

    def merge_stats(self, st, max_keys=()):
        self.evaluations += st.get('evaluations', 0)
        for k, v in st.get('counters', {}).items():
            if k.startswith('max_') or k in max_keys:
                self.counters[k] = max(self.counters.get(k, 0), v)
            else:
                self.counters[k] = self.counters.get(k, 0) + v
        for k, v in st.get('sets', {}).items():
            self.sets.setdefault(k, set()).update(v)
        for s in st.get('samples', []):
            if len(self.samples) < 8:
                self.samples.append(s)
        for s in st.get('info', []):
            if s not in self.info and len(self.info) < 40:
                self.info.append(s)
        self.distinct_overflow += st.get('distinct_overflow', 0)


def _read_out(path, res, binary, base_args):
    """Parse one JSONL result file. Returns (crash_record or None, got_stats)."""
    crash = None
    got_stats = False
    if os.path.exists(path):
        with open(path, 'r', errors='replace') as fh:
            for line in fh:
                line = line.strip()
                if not line:
                    continue
                try:
                    o = json.loads(line)
                except ValueError:
                    continue
                t = o.get('t')
                if t == 'v':
                    res.violations.append(dict(key=o['key'], detail=o.get('detail', ''), case=o.get('case'),
                                               desc=o.get('desc', ''), binary=binary, args=base_args))
                elif t == 'crash':
                    crash = o
                elif t == 'stats':
                    got_stats = True
                    res.merge_stats(o)
                    if o.get('counters', {}).get('shards_stopped_after_hang'):
                        res.stopped_after_hang = True
    hp = path + '.hashes'
    if os.path.exists(hp):
        a = array.array('Q')
        with open(hp, 'rb') as fh:
            data = fh.read()
        a.frombytes(data[:len(data) // 8 * 8])
        res.hashes.update(a)
        os.unlink(hp)
    return crash, got_stats


def _cpu_ticks(pid):
    try:
        total = 0
        for t in os.listdir('/proc/%d/task' % pid):
            with open('/proc/%d/task/%s/stat' % (pid, t)) as fh:
                f = fh.read().rsplit(')', 1)[1].split()
            total += int(f[11]) + int(f[12])
        return total
    except (OSError, IndexError, ValueError):
        return None


def _gdb_stacks(pid):
    try:
        p = subprocess.run(['gdb', '-batch', '-p', str(pid), '-ex', 'thread apply all bt 12'],
                           stdout=subprocess.PIPE, stderr=subprocess.DEVNULL, text=True, timeout=60)
        return p.stdout[-6000:]
    except Exception as e:  # noqa
        return 'gdb failed: %s' % e


def run_proc(cmd, env=None, timeout=600, stall_s=90, progress_path=None, cwd=None, stdin_data=None):
    """Run one process under the hang oracle of DESIGN 1.6.
    Returns dict(rc, stderr, verdict) with verdict in ok|deadlock|livelock|timeout.
    deadlock: no CPU ticks in any thread and no progress for `stall_s` seconds.
    livelock: CPU burning but the case index did not change for 4*stall_s.
    timeout : overall wall-clock cap -> *inconclusive*, never a violation by itself."""
    e = dict(os.environ)
    e.update(SAN_ENV)
    if env:
        e.update(env)
    errp = (progress_path or os.path.join(CACHE, 'scratch', 'p%d_%d' % (os.getpid(), id(cmd)))) + '.stderr'
    os.makedirs(os.path.dirname(errp), exist_ok=True)
    with open(errp, 'wb') as errf:
        p = subprocess.Popen(cmd, stdout=subprocess.DEVNULL, stderr=errf, env=e, cwd=cwd,
                             stdin=subprocess.PIPE if stdin_data is not None else subprocess.DEVNULL)
        if stdin_data is not None:
            try:
                p.stdin.write(stdin_data)
                p.stdin.close()
            except OSError:
                pass
        t0 = time.time()
        last_ticks, last_case, last_change, last_case_change = None, None, t0, t0
        verdict = 'ok'
        stacks = ''
        while True:
            try:
                p.wait(timeout=2)
                break
            except subprocess.TimeoutExpired:
                pass
            now = time.time()
            ticks = _cpu_ticks(p.pid)
            case = None
            if progress_path and os.path.exists(progress_path):
                try:
                    with open(progress_path, 'rb') as fh:
                        case = fh.read(16)
                except OSError:
                    pass
            if ticks != last_ticks:
                last_ticks, last_change = ticks, now
            if case != last_case:
                last_case, last_case_change, last_change = case, now, now
            if now - last_change > stall_s:
                verdict = 'deadlock'
            elif progress_path and now - last_case_change > 4 * stall_s:
                verdict = 'livelock'
            elif now - t0 > timeout:
                verdict = 'timeout'
            if verdict != 'ok':
                stacks = _gdb_stacks(p.pid)
                p.kill()
                p.wait()
                break
    with open(errp, 'r', errors='replace') as fh:
        fh.seek(0, 2)
        size = fh.tell()
        fh.seek(max(0, size - 60000))
        stderr = fh.read()
    os.unlink(errp)
    return dict(rc=p.returncode, stderr=stderr, verdict=verdict, stacks=stacks, wall=time.time() - t0)


def run_sharded(binary, total, seed, tier, args=(), env=None, shards=None, timeout=1800, stall_s=90,
                max_restarts=40, tag='run', first=0):
    """Run cases [first, first+total) of `binary` split over `shards`
    processes. A crashed shard is restarted behind the crashed case; the crash
    becomes a violation keyed by the sanitizer report."""
    shards = shards or NCPU
    shards = max(1, min(shards, total))
    sd = scratch_dir(tag)
    res = ShardResult()
    base_args = ['--seed', str(seed), '--tier', tier] + [str(a) for a in args]

    def one(si):
        lo = first + total * si // shards
        hi = first + total * (si + 1) // shards
        local = ShardResult()
        restarts = 0
        attempt = 0
        hangs = 0
        while lo < hi:
            attempt += 1
            outp = os.path.join(sd, 's%d_%d.jsonl' % (si, attempt))
            progp = os.path.join(sd, 's%d_%d.prog' % (si, attempt))
            cmd = [binary] + base_args + ['--from', str(lo), '--to', str(hi), '--out', outp, '--progress', progp]
            r = run_proc(cmd, env=env, timeout=timeout, stall_s=stall_s, progress_path=progp)
            crash, got_stats = _read_out(outp, local, binary, base_args)
            cur = None
            try:
                with open(progp, 'rb') as fh:
                    cur = int.from_bytes(fh.read(8), 'little')
            except OSError:
                pass
            if r['verdict'] == 'ok' and r['rc'] == 0 and got_stats:
                break
            if getattr(local, 'stopped_after_hang', False):
                # the harness reported a hang and stopped itself (exit status is
                # meaningless with stuck threads around): do not restart this shard
                break
            # abnormal end
            case = crash['case'] if crash else (cur if cur is not None and cur != 2 ** 64 - 1 else lo)
            desc = crash.get('desc', '') if crash else ''
            if r['verdict'] in ('deadlock', 'livelock'):
                local.violations.append(dict(key='hang(%s)' % r['verdict'], detail=r['stacks'][-3000:], case=case,
                                             desc=desc, binary=binary, args=base_args))
                hangs += 1
                if hangs >= 2:
                    # a tree on which every case hangs must not cost stall-time x cases
                    local.counters['cases_skipped_after_hangs'] = local.counters.get('cases_skipped_after_hangs', 0) + max(0, hi - case - 1)
                    break
            elif r['verdict'] == 'timeout':
                local.inconclusive.append(dict(case=case, why='wall-clock cap %ds' % timeout))
            else:
                key = sanitizer_key(r['stderr'])
                if key == 'crash':
                    key = 'crash rc=%s %s' % (r['rc'], crash.get('why', '') if crash else '')
                local.violations.append(dict(key=key, detail=_report_excerpt(r['stderr']), case=case, desc=desc,
                                             binary=binary, args=base_args))
                local.crashes += 1
            restarts += 1
            if restarts > max_restarts:
                local.harness_errors.append('shard %d: more than %d restarts' % (si, max_restarts))
                break
            lo = case + 1
        return local

    with cf.ThreadPoolExecutor(max_workers=shards) as ex:
        for local in ex.map(one, range(shards)):
            res.violations += local.violations
            res.merge_stats(dict(evaluations=local.evaluations, counters=local.counters,
                                 sets={k: list(v) for k, v in local.sets.items()},
                                 samples=local.samples, info=local.info,
                                 distinct_overflow=local.distinct_overflow))
            res.hashes |= local.hashes
            res.crashes += local.crashes
            res.inconclusive += local.inconclusive
            res.harness_errors += local.harness_errors
    shutil.rmtree(sd, ignore_errors=True)
    return res


# ---------------------------------------------------------------- known findings

def load_known():
    """known_findings.txt lines:
         known: property=<ID> key=<exact key> :: free text
         fixed: property=<ID> <commit> <what failed>      (suppresses nothing)
    """
    known = {}
    p = os.path.join(VERIF, 'known_findings.txt')
    if os.path.exists(p):
        for line in open(p):
            line = line.strip()
            m = re.match(r'known:\s+property=(\w+)\s+key=(.*?)\s+::\s*(.*)$', line)
            if m:
                known.setdefault(m.group(1), {})[m.group(2)] = m.group(3)
    return known


# ---------------------------------------------------------------- the check context

class Check:
    def __init__(self, pid, tier, seed):
        self.pid = pid
        self.tier = tier
        self.seed = seed
        self.t0 = time.time()
        self.res = ShardResult()
        self.coverage_extra = {}
        self.assumptions = []
        self.parts = []

    def thorough(self):
        return self.tier == 'thorough'

    def absorb(self, r, part=None):
        """merge a ShardResult of one part of the check"""
        if part:
            for v in r.violations:
                v['part'] = part
            self.parts.append(dict(part=part, evaluations=r.evaluations, distinct=len(r.hashes),
                                   violations=len(r.violations), crashes=r.crashes,
                                   inconclusive=len(r.inconclusive)))
        self.res.violations += r.violations
        self.res.merge_stats(dict(evaluations=r.evaluations, counters=r.counters,
                                  sets={k: list(v) for k, v in r.sets.items()}, samples=r.samples, info=r.info,
                                  distinct_overflow=r.distinct_overflow))
        self.res.hashes |= r.hashes
        self.res.crashes += r.crashes
        self.res.inconclusive += r.inconclusive
        self.res.harness_errors += r.harness_errors

    def violation(self, key, detail='', replay_info=None):
        self.res.violations.append(dict(key=key, detail=detail, case=None, desc='', binary=None, args=[],
                                        replay_info=replay_info))

    def _write_replay(self, v):
        d = os.path.join(CACHE, 'replay')
        os.makedirs(d, exist_ok=True)
        h = hashlib.sha256((v['key'] + str(v.get('case')) + str(self.seed)).encode()).hexdigest()[:12]
        p = os.path.join(d, '%s-%s.json' % (self.pid, h))
        with open(p, 'w') as fh:
            json.dump(dict(property=self.pid, key=v['key'], detail=v.get('detail', ''), case=v.get('case'),
                           desc=v.get('desc', ''), seed=self.seed, tier=self.tier, part=v.get('part'),
                           binary=v.get('binary'), args=v.get('args'), replay_info=v.get('replay_info'),
                           tree_hash=tree_hash()), fh, indent=1)
        return p

    def finish(self, level, rule, min_distinct=2, required_counters=(), extra=None):
        """Write evidence, print verdict lines, return exit code."""
        res = self.res
        known = load_known().get(self.pid, {})
        unlisted, listed = {}, {}
        for v in res.violations:
            (listed if v['key'] in known else unlisted).setdefault(v['key'], []).append(v)
        for k in sorted(listed):
            print('KNOWN-FINDING: property=%s %s :: %s (%d occurrence(s) this run)' % (self.pid, k, known[k], len(listed[k])))
        rc = 0
        for k in sorted(unlisted):
            p = self._write_replay(unlisted[k][0])
            print('VIOLATION property=%s replay=%s' % (self.pid, p))
            print('  key: %s' % k)
            d = (unlisted[k][0].get('desc') or '') + ' | ' + (unlisted[k][0].get('detail') or '')
            print('  first witness: ' + d[:1500].replace('\n', '\n    '))
            rc = 1
        distinct = len(res.hashes) + int(res.counters.get('distinct_by_construction', 0))
        cov = dict(evaluations=int(res.evaluations), distinct_nontrivial=int(distinct), rule=rule,
                   samples=res.samples[:8], counters=res.counters,
                   coverage_sets={k: sorted(v)[:400] for k, v in res.sets.items()},
                   coverage_set_sizes={k: len(v) for k, v in res.sets.items()},
                   parts=self.parts, info=res.info, crashes=res.crashes,
                   inconclusive=len(res.inconclusive), inconclusive_cases=res.inconclusive[:10],
                   known_findings_matched=sorted(listed), unlisted_violation_keys=sorted(unlisted),
                   tree_hash=tree_hash(), repo=REPO)
        cov.update(self.coverage_extra)
        if extra:
            cov.update(extra)
        missing = [c for c in required_counters if not res.counters.get(c)]
        infra = list(res.harness_errors)
        if res.evaluations < 1 or distinct < min_distinct:
            infra.append('coverage floor not met: evaluations=%d distinct=%d (<%d)' % (res.evaluations, distinct, min_distinct))
        if missing:
            infra.append('required coverage counters are zero: %s' % ', '.join(missing))
        if not cov['samples']:
            cov['samples'] = ['(no sample recorded)']
        ev = dict(property_id=self.pid, tier=self.tier, seed=int(self.seed), level=level, coverage=cov,
                  assumptions=self.assumptions, wall_s=round(time.time() - self.t0, 2),
                  violations=len(unlisted))
        evdir = os.environ.get('VERIF_EVIDENCE_DIR', os.path.join(VERIF, 'evidence'))
        os.makedirs(evdir, exist_ok=True)
        with open(os.path.join(evdir, self.pid + '.json'), 'w') as fh:
            json.dump(ev, fh, indent=1, sort_keys=True)
            fh.write('\n')
        print('%s %s seed=%s: evaluations=%d distinct_nontrivial=%d violations(unlisted)=%d known=%d '
              'inconclusive=%d wall=%.1fs' % (self.pid, self.tier, self.seed, res.evaluations, distinct,
                                              len(unlisted), len(listed), len(res.inconclusive),
                                              time.time() - self.t0))
        if rc == 0 and infra:
            for m in infra:
                print('HARNESS-ERROR: ' + m)
            return 2
        return rc
