#!/usr/bin/env python3
"""Generate the C09 corpus: gzip/bzip2 files (multi-stream, truncated,
corrupted) together with the reference outcome computed by Python's gzip/bz2
modules at generation time.

usage: c09_corpus.py <outdir> <seed> <quick|thorough>

Writes <outdir>/payload_<k>.bin, <outdir>/f<i>.<gz|bz2> and <outdir>/cases.tsv
with one line per case:
   <file> <kind> <payload file> <expected length or -1> <class>
expected length >= 0: the reference decompressor yields payload[0:len] and a
   conforming decompressor must yield exactly that without error.
expected length == -1: the reference reports an error (truncated / corrupt);
   the library must not accept it as a *shorter* payload (the harness applies
   the rule: no exception AND output is a proper prefix of the payload =>
   violation).
class: stable description of how the file was built (used in violation keys).
"""
import bz2
import gzip
import os
import random
import sys
import zlib

outdir, seed, tier = sys.argv[1], int(sys.argv[2]), sys.argv[3]
rng = random.Random(seed)
os.makedirs(outdir, exist_ok=True)
thorough = tier == 'thorough'

cases = []
nfile = 0


def comp(kind, data, level=None):
    if kind == 'gz':
        return gzip.compress(data, compresslevel=level if level is not None else rng.choice([1, 6, 9]), mtime=0)
    return bz2.compress(data, level if level is not None else rng.choice([1, 9]))


def reference(kind, blob):
    """(ok, payload) as Python's reference multi-stream decompressors see it"""
    try:
        if kind == 'gz':
            return True, gzip.decompress(blob)
        return True, bz2.decompress(blob)
    except (OSError, EOFError, ValueError, zlib.error):
        return False, b''


def emit(kind, blob, payload_name, payload, cls, expect_ok=None, status='intact'):
    """write one case; the expectation comes from the reference decompressor"""
    global nfile
    ok, ref = reference(kind, blob)
    if ok:
        if payload[:len(ref)] != ref:
            # reference yields something that is not a prefix of the payload
            # (possible for corrupted input whose checksum still matches - practically never)
            return
        explen = len(ref)
    else:
        explen = -1
    if expect_ok is True and explen != len(payload):
        raise SystemExit('generator self-check failed: %s reference gave %d of %d' % (cls, explen, len(payload)))
    name = 'f%05d.%s' % (nfile, kind if kind == 'gz' else 'bz2')
    nfile += 1
    with open(os.path.join(outdir, name), 'wb') as fh:
        fh.write(blob)
    cases.append('%s\t%s\t%s\t%d\t%s\t%s' % (name, 'gzip' if kind == 'gz' else 'bzip2', payload_name, explen, cls, status))


GZ_BLIND = 'gz truncated inside a stream where the partial stream inflates to a positive multiple of 16384 bytes (the output buffer of zlib gzread)'


def partial_inflate_len(piece):
    """number of bytes the truncated gzip member `piece` inflates to (-1: not even a header)"""
    try:
        o = zlib.decompressobj(wbits=31)
        return len(o.decompress(piece))
    except zlib.error:
        return -1


def zlib_blind_spot(piece):
    n = partial_inflate_len(piece)
    return n > 0 and n % 16384 == 0


def make_payload(k, n, entropy):
    if entropy == 'high':
        data = random.Random(seed * 1000 + k).randbytes(n)
    else:
        r = random.Random(seed * 1000 + k)
        lines = []
        size = 0
        i = 0
        while size < n:
            line = ('n%d v%d dV c%d t2020-01-01T00:00:00Z i%d uuser%d Tkey=value%d x%d.%d y%d.%d\n' % (
                i, r.randrange(9), r.randrange(10 ** 6), r.randrange(1000), r.randrange(50), r.randrange(100),
                r.randrange(180), r.randrange(10 ** 7), r.randrange(90), r.randrange(10 ** 7))).encode()
            lines.append(line)
            size += len(line)
            i += 1
        data = b''.join(lines)[:n]
    name = 'payload_%d.bin' % k
    with open(os.path.join(outdir, name), 'wb') as fh:
        fh.write(data)
    return name, data


sizes = [0, 1, 100, 10239, 10240, 10241, 30000, 2 ** 20 - 1, 2 ** 20, 2 ** 20 + 1]
if thorough:
    sizes += [3 * 2 ** 20 + 17, 2 * 2 ** 20, 65536, 5000, 4999]
payloads = []
k = 0
for n in sizes:
    for entropy in (('high', 'low') if n >= 100 else ('high',)):
        payloads.append(make_payload(k, n, entropy) + (entropy,))
        k += 1


def split_points(n, nstreams):
    """cut [0,n) into nstreams pieces; allows empty and tiny pieces"""
    pts = []
    for _ in range(nstreams - 1):
        c = rng.random()
        if c < 0.15:
            pts.append(0)
        elif c < 0.3:
            pts.append(n)
        elif c < 0.45:
            pts.append(max(0, n - rng.randrange(1, 4)))
        else:
            pts.append(rng.randrange(0, n + 1))
    pts = [0] + sorted(pts) + [n]
    return [(pts[i], pts[i + 1]) for i in range(len(pts) - 1)]


for kind in ('gz', 'bz2'):
    # ---- complete files: 1..6 streams
    for (pname, pdata, entropy) in payloads:
        n = len(pdata)
        variants = 6 if n < 2 ** 20 - 1 or thorough else 3
        for v in range(variants):
            nstreams = 1 + (v % 6)
            parts = split_points(n, nstreams)
            blob = b''.join(comp(kind, pdata[a:b]) for a, b in parts)
            lens = [b - a for a, b in parts]
            cls = '%s %d stream(s)%s%s' % (kind, nstreams, ' incl. empty stream' if 0 in lens and nstreams > 1 else '',
                                             ' tiny last stream' if nstreams > 1 and 0 < lens[-1] < 4 else '')
            emit(kind, blob, pname, pdata, cls, expect_ok=True)
    # ---- stream boundary alignment: compressed length of the first stream(s) = r mod 5000
    # (libbz2 reads the file in 5000-byte pieces) and mod 4096/8192
    # The payload is the compressible one: its compressed size moves by about 0.2-0.3 bytes per
    # input byte, so a scan over neighbouring prefix lengths meets every compressed size several
    # times (with incompressible data each size is met about once: a third of the searches fail).
    hp = [p for p in payloads if p[2] == 'low' and len(p[1]) >= 2 ** 20 - 1][0]

    def find_piece(start, target_c, modulus, want):
        """(n, blob): blob = compressed hp[start:start+n] with len(blob) = want mod modulus, about
        target_c bytes long: bisection on the (roughly monotone) compressed size, then a scan"""
        limit = len(hp[1]) - start - 6000
        lo, hi = 1, limit
        while lo < hi:
            mid = (lo + hi) // 2
            if len(comp(kind, hp[1][start:start + mid], 9)) < target_c:
                lo = mid + 1
            else:
                hi = mid
        for delta in range(0, 1200):
            for n in (lo + delta, lo - delta):
                if n <= 0 or n > limit:
                    continue
                c1 = comp(kind, hp[1][start:start + n], 9)
                if len(c1) % modulus == want:
                    return n, c1
        return None

    for modulus, residues in ((5000, (0, 1, 2, 3, 4997, 4998, 4999)), (4096, (0, 1, 4095)), (100, (0, 1, 99))):
        for r in residues:
            nfound = 0
            for k in ((1, 2, 3, 4, 5, 6, 7, 8) if modulus >= 4096 else (30, 31, 32, 33)):
                if nfound == (2 if modulus >= 4096 else 1):
                    break
                found = find_piece(0, modulus * k + r, modulus, r)
                if not found:
                    print('note: no %s first stream with compressed length = %d mod %d near %d bytes' % (kind, r, modulus, modulus * k + r), file=sys.stderr)
                    continue
                nfound += 1
                cand, c1 = found
                for tail in (1, 300):
                    end = min(len(hp[1]), cand + tail)
                    blob = c1 + comp(kind, hp[1][cand:end], 9)
                    emit(kind, blob, hp[0], hp[1][:end], '%s 2 streams, first compressed length = %d mod %d, second stream %s' % (kind, r, modulus, 'tiny' if tail == 1 else 'small'), expect_ok=None)
                # three streams with the boundary in the middle
                end = min(len(hp[1]), cand + 5000)
                blob = c1 + comp(kind, hp[1][cand:cand + 10], 9) + comp(kind, hp[1][cand + 10:end], 9)
                emit(kind, blob, hp[0], hp[1][:end], '%s 3 streams, first compressed length = %d mod %d' % (kind, r, modulus))
    # ---- total compressed size an exact multiple of the decompressors' read sizes (libbz2 reads 5000 bytes,
    # the hook build reads 4096/100): the last full read leaves no EOF condition behind
    for modulus in (5000, 4096, 100):
        for nstreams in (1, 2):
            found = None
            for k in (2, 3, 4, 5, 6, 7):
                if nstreams == 1:
                    found = find_piece(0, modulus * k, modulus, 0)
                else:
                    first = comp(kind, hp[1][:7000], 9)
                    want = (-len(first)) % modulus
                    found = find_piece(7000, modulus * k + want, modulus, want)
                    if found:
                        found = (7000 + found[0], first + found[1])
                if found:
                    break
            if found:
                emit(kind, found[1], hp[0], hp[1][:found[0]], '%s %d stream(s), total compressed size = 0 mod %d' % (kind, nstreams, modulus), expect_ok=None)
            else:
                print('note: no %s file of %d stream(s) with total compressed size = 0 mod %d' % (kind, nstreams, modulus), file=sys.stderr)
    # ---- deliberate witnesses of the zlib gzread blind spot (recorded finding): truncate where the cut stream has
    # produced exactly 16384 bytes
    if kind == 'gz':
        big = [p for p in payloads if p[2] == 'high' and len(p[1]) >= 30000][0]
        for nstreams in (1, 2):
            first = comp(kind, big[1][:5000], 9) if nstreams == 2 else b''
            start = 5000 if nstreams == 2 else 0
            second = comp(kind, big[1][start:start + 25000], 9)
            lo, hi = 1, len(second) - 1
            cutpos = None
            while lo <= hi:
                mid = (lo + hi) // 2
                n = partial_inflate_len(second[:mid])
                if n < 16384:
                    lo = mid + 1
                else:
                    hi = mid - 1
                    if n == 16384:
                        cutpos = mid
            if cutpos is not None:
                emit(kind, first + second[:cutpos], big[0], big[1][:start + 25000], GZ_BLIND, status='damaged')
    # ---- damaged files
    small = [p for p in payloads if 100 <= len(p[1]) <= 30000]
    for (pname, pdata, entropy) in small:
        if len(pdata) > 10241 and not thorough and entropy == 'high':
            continue
        for nstreams in (1, 2, 3):
            parts = split_points(len(pdata), nstreams)
            pieces = [comp(kind, pdata[a:b], 9) for a, b in parts]
            blob = b''.join(pieces)
            bounds = []
            o = 0
            for pc in pieces:
                o += len(pc)
                bounds.append(o)
            # truncations
            if len(blob) <= 4096 and (thorough or len(blob) <= 400):
                cuts = range(0, len(blob))
            else:
                cuts = set(rng.randrange(0, len(blob)) for _ in range(600 if thorough else 60))
                for bnd in bounds:
                    for d in (-2, -1, 0, 1, 2):
                        if 0 <= bnd + d < len(blob):
                            cuts.add(bnd + d)
                cuts = sorted(cuts)
            magic = 2 if kind == 'gz' else 3
            starts = [0] + bounds[:-1]
            for c in cuts:
                if c == 0:
                    continue  # an empty file is not a compressed file at all
                if c in bounds:
                    # a complete valid file consisting of the leading streams
                    emit(kind, blob[:c], pname, pdata, '%s truncated at a stream boundary (%d stream(s))' % (kind, nstreams), status='intact')
                    continue
                last = max(b for b in [0] + bounds if b <= c)
                if last > 0 and c - last < magic:
                    # fewer bytes than the magic number of the next stream are left: the
                    # compression libraries treat this as ignorable trailing garbage
                    emit(kind, blob[:c], pname, pdata, '%s truncated within the magic bytes of a following stream' % kind, status='notjudged')
                elif kind == 'gz' and zlib_blind_spot(blob[last:c]):
                    emit(kind, blob[:c], pname, pdata, GZ_BLIND, status='damaged')
                else:
                    emit(kind, blob[:c], pname, pdata, '%s truncated inside a stream (%d stream(s))' % (kind, nstreams), status='damaged')
            # single byte corruption
            if len(blob) <= 4096 or thorough:
                if len(blob) <= 4096 and (thorough or len(blob) <= 400):
                    offs = range(0, len(blob))
                else:
                    offs = sorted(set(rng.randrange(0, len(blob)) for _ in range(500 if thorough else 80)) | set(x + d for x in starts for d in range(0, 12) if x + d < len(blob)) | set(range(max(0, len(blob) - 10), len(blob))))
                for off in offs:
                    b = bytearray(blob)
                    b[off] ^= (0x01 if off % 2 else 0x80)
                    st = max(x for x in starts if x <= off)
                    if st > 0 and off - st < (4 if kind == 'bz2' else 2):
                        emit(kind, bytes(b), pname, pdata, '%s magic bytes of a following stream corrupted (indistinguishable from trailing garbage)' % kind, status='notjudged')
                        continue
                    region = 'header' if off - st < 10 else 'body'
                    emit(kind, bytes(b), pname, pdata, '%s single byte corrupted in the %s of stream %s (%d stream(s))' % (kind, region, 'one' if st == 0 else 'two or later', nstreams), status='damaged')

with open(os.path.join(outdir, 'cases.tsv'), 'w') as fh:
    fh.write('\n'.join(cases) + '\n')
print('%d cases, %d payloads' % (len(cases), len(payloads)))
