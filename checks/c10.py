"""C10 - assembled areas are valid multipolygons that cover exactly the input's region."""
import vlib

SRC = 'harness/c10_area.cpp'


def builds(tier):
    return [dict(src=SRC, variant='asan')]


def run(chk):
    asan = vlib.build(SRC, 'asan')
    T = chk.thorough()
    n = 300000 if T else 40000
    chk.absorb(vlib.run_sharded(asan, n, chk.seed, chk.tier, [], tag='c10'), 'arrangements x variants through area::Assembler (asan)')
    chk.assumptions = [
        'ground truth = brute-force classification of the input segment multiset reduced mod 2 with exact __int128 predicates '
        '(even vertex degrees, no proper crossing, no collinear overlap); constructed-valid arrangements are re-checked by it',
        'T-junctions (a segment end in the interior of another segment, no node there) are never constructed on purpose and are not judged',
        'valid arrangements with more than 100 touching points and inputs whose segments cancel completely mod 2 are not judged',
        'ring orientation: outer rings have positive, inner rings negative shoelace sum (the orientation the library produces; '
        'not documented in the sources) - judged on rings that do not touch themselves',
        'rings closed = first and last location equal (node ids may differ when several nodes share a location)',
        'ring sets are compared across variants only for arrangements without touching points (unique decomposition); with touching '
        'points every variant is checked on its own (validity, nesting parity, segment conservation)',
        'coordinates within +-2^29',
        'budget: three of four dense arrangements with 14..23 touching points are dropped (one assembler call can take seconds of CPU there: '
        'exhaustive search just below the recursion limit of 20 in join_connected_rings); diagonal chains of any length are kept']
    return chk.finish('exploration',
                      'random constructive arrangements (cell complexes on jittered/sheared integer lattices with 1-4 XOR-ed pieces: nested '
                      'frames, checkerboards, necklaces, diagonal chains up to 100 touching points, holes, blobs; nested star-shaped and orthogonal polygons '
                      'up to 96 vertices per ring, up to 420 segments), 40% with an injected defect (crossing triangle, removed segment, '
                      'collinear overlap); each cut into ways in base + 3 (quick) / + 8 (thorough) variants (member order, way direction, '
                      're-cutting incl. one way per segment and one closed way, roles, node ids, config, way vs relation interface). '
                      'distinct = hash of the reduced segment set + defect kind',
                      required_counters=['arrangements_valid', 'arrangements_invalid', 'valid_assembled_and_checked',
                                         'invalid_rejected_and_reported_crossing', 'invalid_rejected_and_reported_open',
                                         'invalid_rejected_and_reported_overlap', 'arrangements_with_touching_points',
                                         'arrangements_with_duplicate_segments', 'arrangements_with_triple_segments',
                                         'areas_with_inner_rings', 'areas_with_several_outer_rings', 'runs_way_interface',
                                         'runs_relation_interface', 'runs_simple_case', 'runs_touching_rings_case',
                                         'runs_really_complex_case', 'ring_sets_compared', 'metamorphic_pairs',
                                         'outer_rings_checked', 'inner_rings_checked', 'runs_with_same_location_nodes_reported'],
                      extra=dict(exhaustive=False))
