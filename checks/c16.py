"""C16 - object orderings are strict weak orders; CheckOrder agrees."""
import vlib

SRC = 'harness/c16_order.cpp'


def builds(tier):
    return [dict(src=SRC, variant='asan')] + ([dict(src=SRC, variant='fast')] if tier == 'thorough' else [])


def run(chk):
    asan = vlib.build(SRC, 'asan')
    if chk.thorough():
        fast = vlib.build(SRC, 'fast')
        chk.absorb(vlib.run_sharded(fast, 648, chk.seed, chk.tier, ['--mode', 'axioms'], tag='c16a'), 'axioms-all-triples(fast)')
        chk.absorb(vlib.run_sharded(asan, 648, chk.seed, 'quick', ['--mode', 'axioms'], tag='c16a2'), 'axioms-sampled(asan)')
    else:
        chk.absorb(vlib.run_sharded(asan, 648, chk.seed, chk.tier, ['--mode', 'axioms'], tag='c16a'), 'axioms(asan)')
    chk.absorb(vlib.run_sharded(asan, 27 * 27, chk.seed, chk.tier, ['--mode', 'checkorder'], tag='c16b'), 'checkorder-exhaustive-len<=4')
    n = 40000 if chk.thorough() else 3000
    chk.absorb(vlib.run_sharded(asan, n, chk.seed, chk.tier, ['--mode', 'sort'], tag='c16c'), 'sort-then-checkorder')
    chk.assumptions = ['reference order written from the documentation in object_comparisons.hpp: type, then id (0, negative by |id|, positive by |id|), version, timestamp',
                       'timestamp-using comparators judged only on objects whose timestamps are all set, or all unset (the property\'s domain)']
    return chk.finish('exploration',
                      'grid of 648 objects (3 types x 9 boundary ids x 4 versions x 3 timestamps x visibility): every ordered pair under 4 comparators against the documented order, triples for transitivity/incomparability (all 648^3 in thorough, 1500 random per first element and comparator in quick); every (type,id) sequence of length<=4 over 27 elements through CheckOrder; random collections sorted via ObjectPointerCollection. distinct = enumerated pairs/triples/sequences (distinct by construction) + hashed random collections',
                      required_counters=['pairs', 'triples', 'checkorder_sequences', 'sorted_streams_accepted', 'unique_checked'],
                      extra=dict(exhaustive=chk.thorough()))
