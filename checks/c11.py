"""C11 - relation managers complete each relation exactly once with all its members."""
import vlib

SRC = 'harness/c11_relations.cpp'


def builds(tier):
    return [dict(src=SRC, variant='asan')]


def run(chk):
    asan = vlib.build(SRC, 'asan')
    T = chk.thorough()
    chk.absorb(vlib.run_sharded(asan, 320000 if T else 24000, chk.seed, chk.tier, ['--mode', 'generic'], tag='c11a'),
               'random histories through RelationsManager<TestRM,N,W,R,CheckOrder> (8 type-switch combinations + 3 without order check)')
    chk.absorb(vlib.run_sharded(asan, 80000 if T else 8000, chk.seed, chk.tier, ['--mode', 'mp'], tag='c11b'),
               'random histories through MultipolygonManager<SpyAssembler> (spy delegates to the real Assembler)')
    chk.absorb(vlib.run_sharded(asan, 128 if T else 16, chk.seed, chk.tier, ['--mode', 'gc'], tag='c11c', timeout=3000),
               'large histories (tens of thousands of removals) sized so that ItemStash garbage collection runs mid-stream')
    chk.absorb(vlib.run_sharded(asan, 40000 if T else 4000, chk.seed, chk.tier, ['--mode', 'cbuf'], tag='c11d'),
               'CallbackBuffer with initial/max sizes {64,128,1 KiB,4 KiB,1 MiB}x{0,64,100,1 KiB,5000,800 KiB} driven like the managers drive it')
    chk.assumptions = [
        'oracle: set-based model of the same history (relation -> members wanted by the test manager\'s own seeded predicates; per object the '
        'number of wanted references of not yet completed relations; arrival positions in the sorted stream); nothing of the library\'s '
        'databases is consulted',
        'inputs respect the documented preconditions: ids unique per type, no id 0 (0 is the documented marker for unwanted members), stream '
        'sorted nodes/ways/relations, negative ids before positive ids, both by absolute value; pass 2 sees the same objects as pass 1',
        'released/unknown/not-yet-arrived ids must look up as nullptr (documentation of get_member_*() and MembersDatabase::get(): "Returns '
        'nullptr if there is no object with that id in the database"); a returned pointer is never dereferenced unless it is 8-byte aligned',
        'not judged: relations of interest without any wanted member (whether they are listed as incomplete or ever completed), objects of a '
        'type the manager was instantiated without, the relative order of several completions triggered by the same object, areas of closed '
        'ways that are untagged / area=no / not accepted by the filter',
        'the output CallbackBuffer of a manager cannot be configured through the public API: mid-stream flushes in the managers are reached '
        'by writing more than 800 KiB of output objects; tiny thresholds are exercised on CallbackBuffer itself (part 4)',
        'MultipolygonManager: interest as documented (type=multipolygon|boundary, at least one way member, tags accepted by the filter); '
        'geometry is trivially valid (one disjoint closed square per way), so one outer ring per distinct member way is demanded',
    ]
    req = ['histories', 'complete_relation_calls', 'completions_at_predicted_position', 'members_verified_byte_identical',
           'shared_or_duplicate_members_verified', 'unwanted_members_checked', 'relations_with_missing_member', 'incomplete_as_predicted',
           'relations_rejected_by_new_relation', 'not_in_any_relation_calls', 'objects_no_relation_wants', 'objects_wanted',
           'lookups_released', 'lookups_still_needed', 'lookups_not_yet_arrived', 'lookups_unknown_id',
           'output_objects_delivered', 'callbacks_beyond_max_size', 'histories_with_callback', 'histories_without_callback',
           'mp_relation_areas_checked', 'mp_way_areas_checked', 'mp_open_or_short_ways_checked', 'mp_ring_counts_checked',
           'cbuf_histories', 'cbuf_threshold_flushes', 'cbuf_objects_delivered',
           'gc_events', 'histories_with_gc', 'completions_after_gc', 'members_verified_after_gc', 'lookups_released_after_gc']
    if T:
        req += ['histories_with_30k_removals_and_gc']
    managers = chk.res.sets.get('manager', set())
    if len(managers) < 13:
        chk.res.harness_errors.append('only %d of 13 manager instantiations were exercised' % len(managers))
    return chk.finish('exploration',
                      'one case = one history: a generated data file (overlapping / duplicate / missing / self / nested member references of '
                      'the three types, negative and 2^31..2^63-1 ids, unrelated objects, absent objects) fed in two passes (pass 1: apply or '
                      'relation() in file or shuffled order; pass 2: whole buffer, chunks with flush, or item by item) to a manager whose '
                      'new_relation()/new_member() answer by seeded hashes (per relation, per member position, per member object, by type, by '
                      'role, by tag); every callback of the manager is judged online against the model, members are fetched inside '
                      'complete_relation() and memcmp\'ed with the input objects, availability of random/unknown/released ids is probed inside '
                      'complete_relation(), in after_*() and after the run; output objects are traced to the callback/read(). '
                      'evaluations = histories; distinct = hash of the canonical form of the history (type switches, predicates, all ids, '
                      'presence flags, member lists with roles, tags)',
                      min_distinct=1000,
                      required_counters=req,
                      extra=dict(exhaustive=False))
