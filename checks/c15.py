"""C15 - id sets, relation maps and the item stash match their set/map models."""
import vlib

SRC = 'harness/c15_containers.cpp'

DENSE = ['dense_histories_%s_cb%d' % (t, cb) for t in ('uint32_t', 'uint64_t') for cb in (3, 4, 8, 22)]

REQUIRED = DENSE + [
    # IdSetDense: every operation of the quantifier, every universe
    'dense_set', 'dense_check_and_set_new', 'dense_check_and_set_present', 'dense_unset_present', 'dense_unset_absent',
    'dense_base_calls', 'dense_iterations', 'dense_iterated_ids', 'dense_copy_construct', 'dense_copy_assign',
    'dense_self_assign', 'dense_swap', 'dense_move', 'dense_clear', 'dense_random_get',
    'dense_histories_universe_low', 'dense_histories_universe_mid', 'dense_histories_universe_top',
    'dense_histories_universe_heavy', 'dense_histories_ids_above_2^32', 'dense_histories_top_chunk_used',
    'dense_iterations_top_chunk_used',
    # IdSetSmall, nwr_array
    'small_histories_uint32_t', 'small_histories_uint64_t', 'small_set', 'small_sort_unique', 'small_merge_sorted',
    'small_copy', 'small_clear', 'small_sorted_checks', 'nwr_histories',
    # relation maps
    'relmap_build_member_to_parent', 'relmap_build_parent_to_member', 'relmap_build_indexes',
    'relmap_histories_only_32', 'relmap_histories_only_64', 'relmap_histories_mixed_32_and_64', 'relmap_histories_empty',
    'relmap_histories_with_duplicate_pairs', 'relmap_add_members_calls', 'relmap_lookups_present_key',
    'relmap_lookups_absent_key', 'relmap_lookups_multi_value', 'relmap_lookups_64bit_key_in_32bit_index',
    'relmap_lookups_64bit_key_in_64bit_index', 'max_relmap_first_64bit_position',
    # item stash
    'stash_histories_short', 'stash_histories_autogc', 'stash_histories_reclaim', 'stash_adds', 'stash_removes',
    'stash_clears', 'stash_manual_gc_with_removed_items', 'stash_auto_gc', 'stash_histories_with_auto_gc',
    'stash_full_verifications', 'stash_full_verifications_after_auto_gc', 'stash_full_verifications_after_manual_gc',
    'stash_items_verified', 'stash_reclaim_judged_adds', 'stash_buffer_growth_events', 'hook_gc_events',
]


def builds(tier):
    return [dict(src=SRC, variant='asan')]


def run(chk):
    asan = vlib.build(SRC, 'asan')
    T = chk.thorough()
    chk.absorb(vlib.run_sharded(asan, 30000 if T else 2200, chk.seed, chk.tier, ['--mode', 'idset'], tag='c15a'),
               'id-set-histories(asan)')
    # chunk-pointer vectors of 256-512 MB: few cases, four processes at most
    chk.absorb(vlib.run_sharded(asan, 16 if T else 4, chk.seed, chk.tier, ['--mode', 'idset_heavy'], tag='c15h', shards=4),
               'id-set-histories-top-of-range-with-tiny-chunks(asan)')
    chk.absorb(vlib.run_sharded(asan, 100000 if T else 3000, chk.seed, chk.tier, ['--mode', 'relmap'], tag='c15b'),
               'relations-map-histories(asan)')
    chk.absorb(vlib.run_sharded(asan, 30000 if T else 1500, chk.seed, chk.tier, ['--mode', 'stash', '--profile', 'short'], tag='c15c'),
               'item-stash-short-histories(asan)')
    chk.absorb(vlib.run_sharded(asan, 3000 if T else 192, chk.seed, chk.tier, ['--mode', 'stash', '--profile', 'autogc'], tag='c15d'),
               'item-stash-automatic-collection(asan)')
    chk.absorb(vlib.run_sharded(asan, 3000 if T else 192, chk.seed, chk.tier, ['--mode', 'stash', '--profile', 'reclaim'], tag='c15e'),
               'item-stash-space-reclaim(asan)')
    chk.assumptions = [
        'models: std::set<uint64_t> per id set object, std::set<(member,parent)> + number of add() calls per relations stash, vector of (handle, bytes) per item stash',
        'largest id given to IdSetDense::set/unset is bounded by the memory of the chunk-pointer vector: uint32_t full range (chunk_bits 3/4 only in the heavy part), uint64_t < 2^40 (chunk_bits 22), < 2^32+2^13 (8), < 2^32+4 chunks (3/4, heavy part) - get() is probed over the whole range of T',
        'IdSetSmall: size(), iteration and get_binary_search() are judged only where their documented precondition holds (after sort_unique()/merge_sorted() or ids set in strictly ascending order); moved-from sets are not inspected',
        'for_each result order is not judged (compared as sorted lists, duplicates count); RelationsMapStash::size() is compared with the number of add() calls',
        'ItemStash: when add_item() collects by itself is not judged (observed through the gc_event hook); content = byte_size() bytes of the item; "space reclaimed" is judged as: the buffer must not grow (used_memory() jump larger than 8 bytes per issued handle) while live bytes + bytes added since the last collection stay below a level that already fitted - capacity is documented never to shrink',
    ]
    return chk.finish('exploration',
                      'random operation histories replayed step by step against reference models: IdSetDense<T,chunk_bits> (T uint32_t/uint64_t x chunk_bits 3/4/8/22, three set objects per history with set/check_and_set/unset/get/size/empty/iteration/copy/assign/move/swap/clear, id universes around every chunk border, around far borders, at the top of the id range and across 2^32), IdSetSmall<T>, nwr_array; RelationsMapStash add/add_members with the first 64-bit pair at every position, then each of the three builders and lookups of every recorded key, its +-2^32 aliases and absent keys; ItemStash add/remove/get/garbage_collect/clear histories incl. histories of 20k-90k additions in which add_item() collects by itself. distinct = hashes of the operation sequences',
                      required_counters=REQUIRED,
                      extra=dict(exhaustive=False))
