"""C05 - Reader delivers each selected object exactly once and in file order."""
import vlib

SRC = 'harness/c05_reader_order.cpp'
FLAGS = ['-Wl,--wrap=close']
DEFS = ['OSMIUM_VERIF_PARSER_BUFFER_SIZE=4096', 'OSMIUM_VERIF_PBF_BUFFER_SIZE=1024']


def builds(tier):
    return [dict(src=SRC, variant='tsan', defines=DEFS, extra_flags=FLAGS), dict(src=SRC, variant='asan', defines=DEFS, extra_flags=FLAGS)]


def run(chk):
    tsan, asan = vlib.build_many(builds(chk.tier))
    T = chk.thorough()
    n = 20000 if T else 1500
    chk.absorb(vlib.run_sharded(tsan, n, chk.seed, chk.tier, [], tag='c05t', stall_s=240, timeout=7200), 'reader configurations x schedules (tsan)')
    chk.absorb(vlib.run_sharded(asan, n, chk.seed + 1, chk.tier, [], tag='c05a', stall_s=240, timeout=7200), 'reader configurations x schedules (asan)')
    chk.assumptions = ['oracle = the generated data set filtered by the entity mask (unique (type,id,version) triples make exactly-once and order an O(n) comparison)',
                       'read_meta::no: non-metadata must be identical, each metadata field either real or default (formats may ignore the switch)',
                       'schedule clause decided on the interleavings actually produced (signatures counted), not on all interleavings']
    return chk.finish('exploration',
                      'seeded multi-block files in PBF dense/plain, XML, OPL and o5m (3..80 type runs, parser buffers of 4 KiB / PBF decoder buffers of 1 KiB so nested buffers occur) x pool size {1,2,3,4,8,16,32} x work queue {1,2,3,10} x OSMIUM_MAX_INPUT/OSMDATA_QUEUE_SIZE {2,3,20} x PBF parsing in pool threads on/off x buffers_type x 16 entity masks x read_meta x file/memory input x consumer speed x seeded perturbation (yield/sleep at queue and pool hook points), in a TSan and an ASan build; every 6th case runs two Readers that are alive at the same time (second opened while the first is partly read, drained one after the other or in two threads, shared or separate pools) and each must deliver exactly its own file; close(2) is interposed and a close on a descriptor that is not open counts as a violation; every 5th single-Reader case consumes through InputIterator<Reader, const OSMEntity> (*it++, retained copy, or pre-increment style). distinct = (configuration, interleaving signature)',
                      required_counters=['readers_run', 'objects_in_order', 'buffers_delivered', 'hook_events', 'read_meta_no_runs', 'masked_runs', 'single_type_buffer_runs', 'runs_with_more_than_20_buffers', 'reader_pairs_run', 'runs_through_input_iterator'])
