"""C13 - coordinate, timestamp and number text conversions are exact and strict."""
import vlib

SRC = 'harness/c13_numbers.cpp'


def builds(tier):
    return [dict(src=SRC, variant='asan')] + ([dict(src=SRC, variant='fast')] if tier == 'thorough' else [])


def run(chk):
    asan = vlib.build(SRC, 'asan')
    T = chk.thorough()
    if T:
        fast = vlib.build(SRC, 'fast')
        chk.absorb(vlib.run_sharded(fast, 65536, chk.seed, chk.tier, ['--mode', 'coord_rt', '--stride', 1], tag='c13a'), 'coord-roundtrip-all-2^32(fast)')
        chk.absorb(vlib.run_sharded(fast, 65536, chk.seed, chk.tier, ['--mode', 'ts_rt', '--stride', 1], tag='c13b'), 'timestamp-roundtrip-all-2^32(fast)')
        chk.absorb(vlib.run_sharded(fast, 17 * 17, chk.seed, chk.tier, ['--mode', 'coord_enum', '--maxlen', 7], tag='c13c'), 'coord-strings-exhaustive-len<=7(fast)')
    chk.absorb(vlib.run_sharded(asan, 65536, chk.seed, chk.tier, ['--mode', 'coord_rt', '--stride', 4099], tag='c13a2'), 'coord-roundtrip-strided(asan)')
    chk.absorb(vlib.run_sharded(asan, 65536, chk.seed, chk.tier, ['--mode', 'ts_rt', '--stride', 4099], tag='c13b2'), 'timestamp-roundtrip-strided(asan)')
    # boundary blocks completely (first/last blocks, around 0, +-90, +-180 degrees, INT32 limits)
    for first in (0, 32767, 65535, (900000000 >> 16), ((2 ** 32 - 900000000) >> 16), (1800000000 >> 16), ((2 ** 32 - 1800000000) >> 16)):
        chk.absorb(vlib.run_sharded(asan, 2 if first < 65535 else 1, chk.seed, chk.tier, ['--mode', 'coord_rt', '--stride', 1], tag='c13a3', first=first, shards=2), None)
        chk.absorb(vlib.run_sharded(asan, 2 if first < 65535 else 1, chk.seed, chk.tier, ['--mode', 'ts_rt', '--stride', 1], tag='c13b3', first=first, shards=2), None)
    chk.absorb(vlib.run_sharded(asan, 17 * 17, chk.seed, chk.tier, ['--mode', 'coord_enum', '--maxlen', 6 if T else 5], tag='c13c2'), 'coord-strings-exhaustive(asan)')
    chk.absorb(vlib.run_sharded(asan, 210000 if T else 200000 + 2000, chk.seed, chk.tier, ['--mode', 'coord_gram'], tag='c13d'), 'coord-strings-grammar+every-exponent(asan)')
    chk.absorb(vlib.run_sharded(asan, 30000 if T else 3000, chk.seed, chk.tier, ['--mode', 'ts_str'], tag='c13e'), 'timestamp-strings(asan)')
    chk.absorb(vlib.run_sharded(asan, 6000 if T else 600, chk.seed, chk.tier, ['--mode', 'ints'], tag='c13f'), 'integer-attribute-parsers(asan)')
    chk.assumptions = [
        'coordinate reference: exact decimal arithmetic on digit strings in the harness (floor(|v|*1e7) and remainder class); ties accept either neighbour',
        'must-accept class is conservative: no "+", <=10 integer digits, <=20 fraction digits, <=5 exponent digits, every admissible rounding inside int32',
        'timestamps: proleptic Gregorian reference; 29 Feb in non-leap years and instants outside the uint32 window are not judged',
        'ids: domain (INT64_MIN, INT64_MAX]; version/uid/changeset: [0, 2^32-1] with the documented "-1" -> 0']
    return chk.finish('exploration',
                      'round trips parse(format(x)) for int32 coordinates and uint32 timestamps (all 2^32 in thorough, random-offset stride 4099 + complete boundary blocks in quick); every string over the 17-symbol alphabet {0-9 . - + e E space x} up to length 5 (quick) / 7 (thorough) through set_lon/set_lat and the *_partial variants against an exact decimal reference; every exponent -99999..99999 with 11 mantissas; grammar-directed long strings; timestamp field sweeps and corruptions; integer parsers at every type boundary with prefixes/suffixes. distinct = enumerated values/strings (distinct by construction) + hashes of random cases',
                      required_counters=['coord_roundtrips', 'ts_roundtrips', 'coord_enum_strings', 'coord_accepted', 'coord_rejected', 'coord_ties', 'ts_must_accept', 'ts_strict_must_accept', 'ts_strict_must_reject', 'ts_must_reject', 'int_accepted', 'int_rejected', 'int_roundtrips'],
                      extra=dict(exhaustive=T))
