"""C14 - text-format string escaping is injective and exactly undone by the parsers."""
import vlib

SRC = 'harness/c14_escape.cpp'
K = 22                      # size of the structural alphabet in the harness
CP_BLOCKS = 0x110000 // 256


def builds(tier):
    return [dict(src=SRC, variant='asan')] + ([dict(src=SRC, variant='fast')] if tier == 'thorough' else [])


def run(chk):
    T = chk.thorough()
    if T:
        asan, fast = vlib.build_many([dict(src=SRC, variant='asan'), dict(src=SRC, variant='fast')])
    else:
        asan = vlib.build(SRC, 'asan')
    # every scalar value U+0001..U+10FFFF alone and in four contexts (exhaustive in both tiers)
    chk.absorb(vlib.run_sharded(asan, CP_BLOCKS, chk.seed, chk.tier, ['--mode', 'cp'], tag='c14a'), 'every-scalar-value(asan)')
    # every sequence of length <= 4 over the structural alphabet (exhaustive in both tiers)
    chk.absorb(vlib.run_sharded(asan, K * K + 1, chk.seed, chk.tier, ['--mode', 'seq'], tag='c14b'), 'alphabet-sequences-len<=4(asan)')
    # pairwise distinct escaped forms on the two exhaustive sets
    chk.absorb(vlib.run_sharded(asan, 2, chk.seed, chk.tier, ['--mode', 'inj'], tag='c14c', shards=2), 'injectivity-on-exhaustive-sets(asan)')
    # random long strings (+ truncated tails, hostile bytes) in exact-size heap blocks
    chk.absorb(vlib.run_sharded(asan, 1000000 if T else 40000, chk.seed, chk.tier, ['--mode', 'rand'], tag='c14d'), 'random-long-strings(asan)')
    # every string site of the real OPL / XML output blocks
    chk.absorb(vlib.run_sharded(asan, 60000 if T else 3000, chk.seed, chk.tier, ['--mode', 'writer'], tag='c14e'), 'output-blocks-all-string-sites(asan)')
    # byte strings of length <= 4: memory safety and the cut-off clause
    if T:
        chk.absorb(vlib.run_sharded(fast, 65536, chk.seed, chk.tier, ['--mode', 'bytes', '--stride', 1, '--fastthrow', 1], tag='c14f', timeout=3600), 'byte-strings-all-2^32(fast+guard-page)')
        chk.absorb(vlib.run_sharded(asan, 65536, chk.seed, chk.tier, ['--mode', 'bytes', '--stride', 61], tag='c14g', timeout=7200), 'byte-strings-strided(asan)')
    else:
        chk.absorb(vlib.run_sharded(asan, 65536, chk.seed, chk.tier, ['--mode', 'bytes', '--stride', 509], tag='c14g'), 'byte-strings-strided(asan)')
    # complete blocks at the borders of every lead-byte / second-byte class (incl. all strings of length <= 1), under asan
    chk.absorb(vlib.run_sharded(asan, 54, chk.seed, chk.tier, ['--mode', 'bytesb'], tag='c14h'), 'byte-strings-complete-boundary-blocks(asan)')
    chk.assumptions = [
        'OPL domain: strings of Unicode scalar values U+0001..U+10FFFF (no surrogates); XML domain: strings of XML 1.0 Chars (U+9, U+A, U+D, U+20..U+D7FF, U+E000..U+FFFD, U+10000..U+10FFFF) - other strings are not judged for XML',
        'OPL structural characters: space , = @ CR LF, and % unless it delimits %<1-8 hex digits>%; XML: < > " \' only as references, & only as start of a well-formed reference, CR LF TAB only as character references',
        'cut-off clause: demanded of append_utf8_encoded_string and append_debug_encoded_string (the functions that decode sequences) exactly when the string is well-formed UTF-8 followed by a proper prefix of a well-formed multi-byte sequence (Unicode table 3-7); strings with other defects (overlong forms, stray continuation bytes, surrogates, bad lead bytes) are judged for memory safety only; the byte-transparent append_xml_encoded_string is judged for memory safety only',
        'memory-error detector: ASan with the input in a malloc block of exactly strlen+1 bytes; in the fast (unsanitized) enumeration of all 2^32 byte strings the input ends directly before a PROT_NONE page, and "exception raised" is observed by intercepting __cxa_throw (no unwinding; self-tested at start) - the asan runs use real try/catch',
        'XML parser = expat (the parser the XML reader of libosmium uses), document <a v="ESC">ESC</a>']
    return chk.finish('exploration',
                      'every Unicode scalar value alone and in the contexts a<cp>b, <cp>0, %<cp>, <cp><cp> through append_utf8_encoded_string -> opl_parse_string and (XML Chars) append_xml_encoded_string -> expat attribute + element text; every sequence of length <= 4 over a 22-symbol structural alphabet; pairwise distinctness of the escaped forms of both exhaustive sets; random strings up to 20000 code points from boundary-heavy classes; random strings at every string site of node/way/relation/changeset through OPLOutputBlock -> opl_parse_line and XMLOutputBlock -> expat; every byte string of length <= 4 (all 2^32 in thorough, random-offset stride in quick, complete boundary blocks) for over-reads and the cut-off exception. distinct = enumerated strings (distinct by construction) + hashes of random cases',
                      required_counters=['cp_scalar_values', 'cp_opl_roundtrips', 'cp_xml_roundtrips', 'cp_opl_escaped', 'cp_opl_passthrough',
                                         'seq_strings', 'inj_opl_strings', 'inj_xml_strings', 'rand_opl_strings', 'rand_xml_strings',
                                         'rand_cutoff_strings', 'rand_hostile_strings', 'writer_opl_blocks', 'writer_xml_blocks', 'writer_xml_blocks_through_the_xml_reader',
                                         'bytes_strings', 'bytes_wellformed_roundtrips', 'bytes_cutoff_exception_demanded',
                                         'bytes_other_invalid_not_judged', 'bytes_opl_exceptions_observed', 'bytes_strings_exact_malloc_block', 'bytes_complete_boundary_blocks'] + (['bytes_strings_guard_page', 'bytes_strings_with_throw_interception'] if T else []),
                      extra=dict(exhaustive=True if T else False,
                                 exhaustive_parts=['every-scalar-value', 'alphabet-sequences-len<=4', 'injectivity-on-exhaustive-sets'] + (['byte-strings-all-2^32'] if T else [])))
