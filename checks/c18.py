"""C18 - Web-Mercator projection and tile numbers are accurate, in range and monotone."""
import vlib

SRC = 'harness/c18_mercator.cpp'
LAT_BLOCKS = 1717    # ceil(1800000001 / 2^20) fixed-point latitudes in [-90, 90]
LON_BLOCKS = 3434    # ceil(3600000001 / 2^20) fixed-point longitudes in [-180, 180]
LAT_NB = 11 * 8      # centres x chunks (harness: lat_centres(), NB_CHUNKS)
LON_NB = 9 * 8
BOUND = 2 * 31 * 8   # axis x zoom x 8


def builds(tier):
    return [dict(src=SRC, variant='asan')] + ([dict(src=SRC, variant='fast')] if tier == 'thorough' else [])


def run(chk):
    asan = vlib.build(SRC, 'asan')
    T = chk.thorough()
    if T:
        fast = vlib.build(SRC, 'fast')
        # every fixed-point latitude; Tile(zoom, Coordinates) at every zoom on every value, Tile(zoom, Location)
        # at every zoom on every 16th value and at two zooms on the others, MercatorProjection functor
        # round trip on every 4th value (--sparse)
        chk.absorb(vlib.run_sharded(fast, LAT_BLOCKS, chk.seed, chk.tier, ['--mode', 'lat', '--stride', 1, '--refevery', 64, '--sparse', 1],
                                    tag='c18a'), 'every-latitude-1.8e9(fast)')
        chk.absorb(vlib.run_sharded(fast, LON_BLOCKS, chk.seed, chk.tier, ['--mode', 'lon', '--stride', 16, '--refevery', 4],
                                    tag='c18b'), 'longitude-grid-stride16(fast)')
    stride = 251 if T else 1009
    chk.absorb(vlib.run_sharded(asan, LAT_BLOCKS, chk.seed, chk.tier, ['--mode', 'lat', '--stride', stride, '--refevery', 1], tag='c18c'),
               'latitude-strided(asan)')
    chk.absorb(vlib.run_sharded(asan, LON_BLOCKS, chk.seed, chk.tier, ['--mode', 'lon', '--stride', stride, '--refevery', 1], tag='c18d'),
               'longitude-strided(asan)')
    chk.absorb(vlib.run_sharded(asan, LAT_NB, chk.seed, chk.tier, ['--mode', 'latnb'], tag='c18e'), 'latitude-neighbourhoods(asan)')
    chk.absorb(vlib.run_sharded(asan, LON_NB, chk.seed, chk.tier, ['--mode', 'lonnb'], tag='c18f'), 'longitude-neighbourhoods(asan)')
    chk.absorb(vlib.run_sharded(asan, BOUND, chk.seed, chk.tier, ['--mode', 'bound', '--reps', 240 if T else 24], tag='c18g'),
               'tile-boundary-windows(asan)')
    chk.absorb(vlib.run_sharded(asan, 40000 if T else 4000, chk.seed, chk.tier, ['--mode', 'pairs'], tag='c18h'), 'location-pairs(asan)')
    chk.assumptions = [
        'tile clauses (range, never decreasing east/south, nesting) are judged for every valid Location including +-180 and +-90 and zoom 0..Tile::max_zoom',
        'round trip and strict monotonicity are judged for every latitude in [-90, 90] and every longitude in [-180, 180] (as the property states them; at the south pole '
        'y = -inf, which round-trips and is strictly below every finite y); agreement with the canonical long-double formulas is judged on the documented domain of '
        'lonlat_to_mercator (|lat| <= MERCATOR_MAX_LAT = 85.0511288) only',
        'fast formula vs. tangent formula (1 cm, 1/4 step) is judged for every latitude in [-90, 90]; identical results (also identical infinities) count as within; '
        'local step = larger of the two differences of lat_to_y_with_tan to the neighbouring fixed-point latitudes',
        'reference for "canonical": R*ln(tan(pi/4+lat/2)) and R*lon in long double, tolerance 0.1 mm; which tile a location falls into is not part of the '
        'statement, a comparison with the exact tile near boundaries is informational only',
    ]
    return chk.finish('exploration',
                      'fixed-point latitudes in blocks of 2^20 (thorough: every one of the 1 800 000 001 values under -O2 plus stride 251 under ASan; quick: random-offset '
                      'stride 1009) each with both neighbours, complete +-10^4 neighbourhoods of 0, +-78, +-85.05, +-MERCATOR_MAX_LAT, +-89.99, +-90 degrees; longitudes the '
                      'same way (thorough: stride 16) with neighbourhoods of 0, +-45, +-90, +-135, +-180; windows of 8 consecutive values across exact tile boundaries of '
                      'every zoom on both axes; random location pairs (east / south / south-east, boundary-heavy). Every point is evaluated at zoom 0..30. '
                      'distinct = enumerated coordinate values (distinct by construction) + hashes of random windows and pairs',
                      required_counters=['lat_values', 'lon_values', 'location_pairs', 'boundary_windows', 'roundtrip_judged', 'fast_vs_tan_in_fast_range',
                                         'fast_vs_tan_in_tan_range', 'canonical_y_reference_checked', 'canonical_x_reference_checked', 'y_strict_pairs_judged',
                                         'x_strict_pairs_judged', 'tile_range_checks', 'tile_nesting_checks', 'tile_south_pairs', 'tile_east_pairs',
                                         'points_at_south_pole', 'points_at_north_pole', 'points_at_lon_plus_180', 'points_at_lon_minus_180',
                                         'tile_points_location_ctor_every_zoom'],
                      extra=dict(exhaustive=T))
