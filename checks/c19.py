"""C19 - thread-safe queue is FIFO and loss-free; the pool runs every task exactly once."""
import vlib

SRC = 'harness/c19_queue_pool.cpp'


def builds(tier):
    return [dict(src=SRC, variant='tsan'), dict(src=SRC, variant='asan')]


def run(chk):
    tsan, asan = vlib.build_many(builds(chk.tier))
    T = chk.thorough()
    k = 20 if T else 1
    # histories are many and short; each shard runs its cases sequentially so that
    # the per-process hook counters belong to one history at a time
    for variant, binary, share in (('tsan', tsan, 1.0), ('asan', asan, 0.5)):
        chk.absorb(vlib.run_sharded(binary, int(800 * k * share), chk.seed, chk.tier, ['--mode', 'fifo'], tag='c19f' + variant, stall_s=150), 'queue fifo/loss/bound (%s)' % variant)
        chk.absorb(vlib.run_sharded(binary, int(100 * k * share), chk.seed, chk.tier, ['--mode', 'blocking'], tag='c19b' + variant, stall_s=150), 'queue blocking at bound (%s)' % variant)
        chk.absorb(vlib.run_sharded(binary, int(300 * k * share), chk.seed, chk.tier, ['--mode', 'shutdown'], tag='c19s' + variant, stall_s=150), 'queue shutdown wakes consumers (%s)' % variant)
        chk.absorb(vlib.run_sharded(binary, int(500 * k * share), chk.seed, chk.tier, ['--mode', 'pool'], tag='c19p' + variant, stall_s=150), 'pool exactly-once (%s)' % variant)
    chk.absorb(vlib.run_sharded(asan, 1, chk.seed, chk.tier, ['--mode', 'config'], tag='c19c'), None)
    chk.assumptions = ['"never hangs" is decided as bounded progress: a 60 s in-harness watchdog per phase plus the driver\'s no-CPU-progress oracle',
                       'the blocking clause can only miss a late erroneous return (30 ms grace), never report one falsely',
                       'TSan build: logical clock is relaxed so that it adds no happens-before edges']
    return chk.finish('exploration',
                      'seeded histories: 1..8 producers x 1..8 consumers x bound {0,1,2,3,10} x 1..20000 elements (wait_and_pop and try_pop consumers), blocking and shutdown scenarios, pools of 1..32 workers x queue sizes x 1..900 tasks (values, exceptions, slow/fast) x destroy-with-pending-work; each under seeded perturbation (yield/sleep at the OSMIUM_VERIF sched points) in a TSan and an ASan build. distinct = (configuration, interleaving signature = order hash of all sched-point events)',
                      required_counters=['queue_histories', 'elements_transferred', 'runs_reaching_bound', 'blocked_push_observed', 'shutdown_wakeups', 'pool_histories', 'tasks_run', 'task_exceptions_delivered', 'pools_destroyed_with_pending_work', 'hook_events'])
