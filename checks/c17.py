"""C17 - geometry exports (WKB/EWKB/hex, WKT, GeoJSON) encode exactly the object's coordinates."""
import re

import vlib

SRC = 'harness/c17_geom.cpp'
D2S_CASES = 864      # 18 precisions x (16 sign/digit classes + 4 zero/sub-one classes + 28 special values); harness --mode sizes
SMALL_CASES = 9331   # node lists of length 0..5 over 6 symbols
SMALL_CASES_T = 55987  # ... of length 0..6
AREA_ENUM = 126      # ring structures O(O|I){0..5} x 2 projections

CELL_RE = re.compile(r'cell=(\d+/\d+/\d)')
# gcc links libubsan with its own copy of the sanitizer runtime: without abort_on_error in UBSAN_OPTIONS a fatal
# UBSan report (-fno-sanitize-recover=bounds) ends the process with _exit and the harness cannot record which input
# was being processed.
ENV = {'UBSAN_OPTIONS': 'print_stacktrace=1:abort_on_error=1'}


def builds(tier):
    return [dict(src=SRC, variant='asan')]


def run(chk):
    asan = vlib.build(SRC, 'asan')
    T = chk.thorough()
    TO = 14400 if T else 1800   # wall-clock cap per shard (only ever 'inconclusive'); generous because the machine is shared

    # Part 1: double2string alone, one (precision, text length, all-zero) cell per case. A cell in which the
    # formatter *crashes* (sanitizer report, attributed by the runner) is reported here; the geometry parts then do
    # not call the text factories for objects that have a coordinate in such a cell (they would die thousands of
    # times on the same defect) - they still run every WKB flavour and all other text cells. Nothing is skipped
    # when this part finds no crash.
    r = vlib.run_sharded(asan, D2S_CASES, chk.seed, chk.tier, ['--mode', 'd2s'], tag='c17a', max_restarts=200, env=ENV)
    cells = set()
    for v in r.violations:
        if v['key'].startswith('double2string:'):
            continue   # wrong text, found by the oracle: no crash, nothing to skip
        m = CELL_RE.search(v.get('desc') or '')
        if m:
            cells.add(m.group(1))
        else:
            r.harness_errors.append('crash in part d2s without a cell description (case %s)' % v.get('case'))
    chk.absorb(r, 'double2string-cells(asan)')
    skip = ['--skipcells', ','.join(sorted(cells))] if cells else []
    chk.coverage_extra['double2string_cells_that_crashed'] = sorted(cells)

    chk.absorb(vlib.run_sharded(asan, SMALL_CASES_T if T else SMALL_CASES, chk.seed, chk.tier, ['--mode', 'small'] + skip, tag='c17b', env=ENV, timeout=TO),
               'node-lists-exhaustive-len<=%d(asan)' % (6 if T else 5))
    chk.absorb(vlib.run_sharded(asan, 1500000 if T else 40000, chk.seed, chk.tier, ['--mode', 'line'] + skip, tag='c17c', env=ENV, timeout=TO),
               'random-node-lists(asan)')
    chk.absorb(vlib.run_sharded(asan, 400000 if T else AREA_ENUM + 12000, chk.seed, chk.tier, ['--mode', 'area'] + skip, tag='c17d', env=ENV, timeout=TO),
               'areas(asan)')
    chk.assumptions = [
        'decoders written from the format definitions: OGC SFS 1.1 WKB (both byte orders), PostGIS EWKB SRID flag (SRID must be the EPSG code of the '
        'projection), hex = two hex digits per byte, WKT/EWKT grammar, RFC 8259 JSON + RFC 7946 geometry objects; count fields must be consumed exactly',
        'identity projection: WKB doubles must round to the fixed-point coordinate and be within 1 ulp of x*1e-7; textual numbers must be the correctly '
        'rounded decimal (requested precision; either neighbour on exact ties; trailing zeros free) of the encoded double or of the exact rational x*1e-7',
        'Mercator: WKB doubles within 1e-9 (relative) of R*asinh(tan(lat)) / R*lon in long double; textual numbers must be the correctly rounded decimal of '
        'the very double found in the WKB encoding of the same object (all encodings agree); latitudes limited to the documented +-85.0511288',
        'rejection is judged for: linestring < 2 points, polygon < 4 points (after duplicate removal iff unique), any undefined / half-undefined / '
        'out-of-range location at any list position, areas without rings; either geometry_error or invalid_location is accepted',
        'not judged: rejection of area rings with < 4 points or no points, whether create_multipolygon removes consecutive duplicates (both sequences '
        'accepted), closedness of polygon rings, zero stripping of double2string (value only), latitudes beyond the Mercator limit',
        'text requests for objects with a coordinate in a (precision, length) cell in which double2string crashed in part 1 are not executed (counted)',
    ]
    return chk.finish('exploration',
                      'double2string: 18 precisions x 48 value classes (sign x 1..8 integer digits up to 20037508.35, values rounding to zero, (0,1), special values; '
                      'random values, exact ties, integers with trailing zeros); every node list of length <= 5 (thorough: <= 6) over {A, B=A+1unit, C, undefined, out-of-range, '
                      'half-undefined} x {unique,all} x {forward,backward} x {linestring,polygon} x {identity p=7, Mercator p=3/EWKT}; random node lists '
                      '(0..40 nodes, 2% up to 400; duplicate runs at start/middle/end, revisited and neighbouring locations, bad locations first/middle/last) '
                      'as linestring/polygon/points, 1..3 requests on one factory set; 63 enumerated ring structures x 2 projections and random areas '
                      '(1..5 outer x 0..4 inner); every request through WKB, WKB-hex, EWKB, EWKB-hex, WKT or EWKT, GeoJSON; precision 0..17 uniformly. '
                      'distinct = enumerated cases (distinct by construction) + hashes of the random request sequences',
                      required_counters=['d2s_values', 'd2s_exact_ties', 'd2s_negative_values', 'enumerated_small_sequences', 'enumerated_ring_structures',
                                         'requests_point', 'requests_linestring', 'requests_polygon', 'requests_multipolygon',
                                         'requests_that_must_be_rejected', 'rejected_too_few_points', 'rejected_undefined_or_invalid_location',
                                         'rejected_area_without_rings', 'bad_location_first', 'bad_location_middle', 'bad_location_last',
                                         'lists_with_duplicate_run_at_start', 'lists_with_duplicate_run_in_middle', 'lists_with_duplicate_run_at_end',
                                         'empty_node_lists', 'wkb_decoded', 'wkb_hex_decoded', 'ewkb_decoded', 'ewkb_hex_decoded', 'wkt_decoded', 'ewkt_decoded',
                                         'geojson_decoded', 'wkb_coordinates_checked', 'mercator_coordinates_checked', 'encodings_compared_bitwise',
                                         'text_numbers_checked', 'text_numbers_at_exact_ties', 'areas_with_several_polygons_and_holes',
                                         'calls_linestring_unique_backward', 'calls_linestring_all_backward', 'calls_polygon_unique_backward',
                                         'calls_polygon_unique_forward', 'cases_mercator', 'cases_identity'],
                      extra=dict(exhaustive=False))
