"""C06 - parse result is independent of how the input byte stream is chunked."""
import subprocess

import vlib

SRC = 'harness/c06_chunking.cpp'
SRC_FD = 'harness/c06_fd.cpp'


def builds(tier):
    b = [dict(src=SRC, variant='asan')]
    import os
    if os.path.exists(os.path.join(vlib.VERIF, SRC_FD)):
        for n in (1, 7, 4096):
            b.append(dict(src=SRC_FD, variant='asan', defines=['OSMIUM_VERIF_INPUT_BUFFER_SIZE=%d' % n], name='c06_fd_buf%d' % n, extra_flags=['-Wl,--wrap=read']))
    return b


def run(chk):
    bins = vlib.build_many(builds(chk.tier))
    asan = bins[0]
    p = subprocess.run([asan, '--mode', 'count', '--seed', str(chk.seed), '--tier', chk.tier], stdout=subprocess.PIPE, text=True,
                       env=dict(__import__('os').environ, **vlib.SAN_ENV))
    try:
        nfiles, exh_total, nsmall = [int(x) for x in p.stdout.split()]
    except ValueError:
        raise vlib.HarnessError('c06 count failed: %r' % p.stdout)
    T = chk.thorough()
    chk.absorb(vlib.run_sharded(asan, exh_total, chk.seed, chk.tier, ['--mode', 'exh', '--pair-limit', 256 if T else 90], tag='c06e'), 'every single cut and cut pair of files <= 256 bytes')
    chk.absorb(vlib.run_sharded(asan, nfiles * 12, chk.seed, chk.tier, ['--mode', 'fixed'], tag='c06f'), 'fixed piece sizes')
    chk.absorb(vlib.run_sharded(asan, 30000 if T else 2500, chk.seed, chk.tier, ['--mode', 'random'], tag='c06r'), 'random cut sequences')
    for b, n in zip(bins[1:], (1, 7, 4096)):
        chk.absorb(vlib.run_sharded(b, 1200 if T else 150, chk.seed, chk.tier, ['--mode', 'fd'], tag='c06fd%d' % n), 'real fd decompressors, input_buffer_size=%d + short read()s' % n)
    chk.coverage_extra['seed_files'] = nfiles
    chk.coverage_extra['small_files_exhaustively_cut'] = nsmall
    chk.assumptions = ['oracle = result of the one-piece run of the same bytes (header, objects, or error type and message)',
                       'seed files are produced by the library Writer from seeded data sets (XML, osc, PBF plain/dense/locations-on-ways, OPL) plus the o5m fixtures, each also truncated at 4 positions']
    req = ['reader_runs', 'pieces_delivered', 'exhaustive_cut_pairs', 'fixed_size_runs', 'random_plan_runs', 'one_piece_runs_ok', 'one_piece_runs_error']
    if len(bins) > 1:
        req += ['fd_runs', 'short_reads', 'multi_member_files_with_empty_members', 'multi_member_buffer_runs']
    return chk.finish('exploration',
                      'piece-delivering Decompressor registered through CompressionFactory: for files <= 256 bytes every single cut and every pair of cuts (exhaustive), fixed piece sizes {1,2,3,5,7,8,9,10,11,4095,4096,4097} on every file, seeded random cut sequences; plus the real plain/gzip/bzip2 fd decompressors with input_buffer_size 1/7/4096 (hook H3) and read(2) wrapped to return short counts (covers PBF read_exactly). distinct = enumerated cut plans (by construction) + hashes of random plans',
                      required_counters=req, extra=dict(exhaustive_for_small_files=True))
