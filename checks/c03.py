"""C03 - malformed or hostile input never causes memory errors, aborts or hangs."""
import concurrent.futures as cf
import glob
import os
import re
import shutil
import subprocess

import vlib

SWEEP = 'harness/c03_sweep.cpp'
FUZZ = 'harness/c03_fuzz.cpp'
# hook H4: tiny parser / PBF decoder buffers, so that the buffer grows (and moves) at almost every builder call of the parsers
SMALL = ['OSMIUM_VERIF_PARSER_BUFFER_SIZE=1024', 'OSMIUM_VERIF_PBF_BUFFER_SIZE=256']
# fuzz targets: (format string given to osmium::io::File, dictionary)
TARGETS = [('osm', 'osm.dict'), ('osc', 'osm.dict'), ('pbf', 'pbf.dict'), ('opl', 'opl.dict'), ('o5m', 'o5m.dict'), ('o5c', 'o5m.dict'),
           ('osm.gz', None), ('opl.bz2', None), ('o5m.gz', None), ('pbf.gz', None)]


def _fuzz_spec(fmt, dbg):
    return dict(src=FUZZ, variant='fuzz-dbg' if dbg else 'fuzz', defines=['C03_FORMAT="%s"' % fmt], name='c03_fuzz_' + fmt.replace('.', '_'))


def builds(tier):
    b = [dict(src=SWEEP, variant='asan'), dict(src=SWEEP, variant='asan-dbg')]
    b.append(dict(src=SWEEP, variant='asan', defines=SMALL, name='c03_sweep_smallbuf'))
    b += [_fuzz_spec(fmt, False) for fmt, _ in TARGETS]
    b += [_fuzz_spec(fmt, True) for fmt, _ in TARGETS[:6]]
    return b


def _run_fuzz_job(binary, corpus_src, workdir, seed, runs, dict_path, max_len):
    corpus = os.path.join(workdir, 'corpus')
    arts = os.path.join(workdir, 'artifacts')
    os.makedirs(corpus)
    os.makedirs(arts)
    for f in glob.glob(os.path.join(corpus_src, '*')):
        shutil.copy(f, corpus)
    cmd = [binary, '-runs=%d' % runs, '-seed=%d' % seed, '-max_len=%d' % max_len, '-timeout=60', '-rss_limit_mb=3000', '-print_final_stats=1',
           '-artifact_prefix=' + arts + '/', corpus]
    if dict_path:
        cmd.append('-dict=' + dict_path)
    env = dict(os.environ)
    env['ASAN_OPTIONS'] = 'abort_on_error=1:detect_leaks=0:quarantine_size_mb=8:allocator_may_return_null=1'
    env['UBSAN_OPTIONS'] = 'print_stacktrace=1'
    executed = 0
    restarts = 0
    found = []
    # libFuzzer stops at the first crash: restart with the remaining budget (crashing input stays in artifacts/)
    while executed < runs and restarts < 6:
        cmd[1] = '-runs=%d' % (runs - executed)
        cmd[2] = '-seed=%d' % (seed + restarts)
        try:
            p = subprocess.run(cmd, stdout=subprocess.PIPE, stderr=subprocess.STDOUT, text=True, errors='replace', timeout=3600, env=env)
            out = p.stdout
        except subprocess.TimeoutExpired as e:
            out = (e.stdout or b'').decode(errors='replace') if isinstance(e.stdout, bytes) else (e.stdout or '')
        m = re.search(r'stat::number_of_executed_units:\s+(\d+)', out)
        n = int(m.group(1)) if m else 0
        if n == 0:
            mm = re.findall(r'#(\d+)\s', out)
            n = int(mm[-1]) if mm else 0
        executed += max(n, 1)
        restarts += 1
        if not glob.glob(os.path.join(arts, '*')) or p.returncode == 0:
            break
    cov = re.findall(r'cov: (\d+)', out)
    for a in sorted(glob.glob(os.path.join(arts, '*'))):
        found.append(a)
    return dict(executed=executed, artifacts=found, cov=int(cov[-1]) if cov else 0, corpus_size=len(os.listdir(corpus)))


def _triage(binary, artifact, fmt):
    """re-run one artifact in its own process: (verdict, key, detail)"""
    env = dict(os.environ)
    env['ASAN_OPTIONS'] = 'abort_on_error=1:detect_leaks=0:allocator_may_return_null=1'
    env['UBSAN_OPTIONS'] = 'print_stacktrace=1'
    try:
        p = subprocess.run([binary, '-timeout=120', artifact], stdout=subprocess.PIPE, stderr=subprocess.STDOUT, text=True, errors='replace', timeout=400, env=env)
    except subprocess.TimeoutExpired:
        return 'violated', 'hang: reading does not terminate: ' + fmt, 'artifact ' + artifact
    out = p.stdout
    if p.returncode == 0:
        return 'inconclusive', '', 'artifact did not reproduce'
    if 'C03-STRUCTURE-VIOLATION' in out:
        m = re.search(r'C03-STRUCTURE-VIOLATION: (.*)', out)
        return 'violated', m.group(1) + ': ' + fmt, out[-2000:]
    if 'ALARM: working on the last Unit' in out or 'ERROR: libFuzzer: timeout' in out:
        return 'violated', 'hang: reading does not terminate: ' + fmt, out[-2000:]
    if 'terminate called after throwing' in out:
        m = re.search(r"terminate called after throwing an instance of '([^']+)'", out)
        return 'violated', 'exception not derived from std::exception (terminate): %s: %s' % (m.group(1) if m else '?', fmt), out[-2000:]
    key = vlib.sanitizer_key(out)
    if 'out-of-memory' in out or 'libFuzzer: out-of-memory' in out:
        return 'inconclusive', '', 'rss limit'
    return 'violated', key + ' [' + fmt + ']', vlib._report_excerpt(out)


def run(chk):
    T = chk.thorough()
    specs = builds(chk.tier)
    bins = vlib.build_many(specs)
    asan, asan_dbg, asan_small = bins[0], bins[1], bins[2]
    fuzz_bins = dict(zip([fmt for fmt, _ in TARGETS], bins[3:3 + len(TARGETS)]))
    fuzz_dbg_bins = dict(zip([fmt for fmt, _ in TARGETS[:6]], bins[3 + len(TARGETS):]))
    env = dict(os.environ, **vlib.SAN_ENV)
    p = subprocess.run([asan, '--mode', 'count', '--seed', str(chk.seed), '--tier', chk.tier], stdout=subprocess.PIPE, stderr=subprocess.DEVNULL, text=True, env=env)
    try:
        nprefix, nsubst, nevil, nseeds, ngrow = [int(x) for x in p.stdout.split()]
    except ValueError:
        raise vlib.HarnessError('c03 count failed: %r' % p.stdout)
    # ---- deterministic sweeps and crafted inputs, both build modes
    for variant, binary in (('NDEBUG', asan), ('assertions on', asan_dbg)):
        chk.absorb(vlib.run_sharded(binary, nevil, chk.seed, chk.tier, ['--mode', 'evil'], tag='c03e', stall_s=300), 'crafted slot mutations (%s)' % variant)
        chk.absorb(vlib.run_sharded(binary, nprefix, chk.seed, chk.tier, ['--mode', 'prefix'], tag='c03p', stall_s=300), 'every prefix of every seed (%s)' % variant)
        chk.absorb(vlib.run_sharded(binary, nsubst if T else max(1, nsubst // 3), chk.seed, chk.tier, ['--mode', 'subst'], tag='c03s', stall_s=300),
                   'single-byte substitutions (%s)' % variant)
        chk.absorb(vlib.run_sharded(binary, 400000 if T else 12000, chk.seed, chk.tier, ['--mode', 'smart'], tag='c03m', stall_s=300, timeout=7200),
                   'seeded structure-aware mutations (%s)' % variant)
    # ---- the same inputs with tiny parser buffers (growth/move at almost every builder call)
    chk.absorb(vlib.run_sharded(asan_small, nevil, chk.seed, chk.tier, ['--mode', 'evil'], tag='c03es', stall_s=300), 'crafted slot mutations (tiny parser buffers)')
    chk.absorb(vlib.run_sharded(asan_small, nprefix, chk.seed, chk.tier, ['--mode', 'prefix'], tag='c03ps', stall_s=300), 'every prefix (tiny parser buffers)')
    chk.absorb(vlib.run_sharded(asan_small, 200000 if T else 8000, chk.seed + 5, chk.tier, ['--mode', 'smart'], tag='c03ms', stall_s=300, timeout=7200),
               'seeded structure-aware mutations (tiny parser buffers)')
    # ---- valid inputs whose objects sweep across the capacity of the decoders' buffers; o5m reference table fill
    for variant, binary in (('NDEBUG', asan), ('assertions on', asan_dbg), ('tiny parser buffers', asan_small)):
        chk.absorb(vlib.run_sharded(binary, ngrow, chk.seed, chk.tier, ['--mode', 'grow'], tag='c03g', stall_s=300), 'buffer-growth sweep and o5m table fill (%s)' % variant)
    # ---- coverage-guided fuzzing (clang libFuzzer + ASan + UBSan), artifacts re-run one per process
    d = vlib.scratch_dir('c03fuzz')
    executed = 0
    art_total = 0
    try:
        seeds_dir = os.path.join(d, 'seeds')
        os.makedirs(seeds_dir)
        subprocess.run([asan, '--mode', 'dump', '--dir', seeds_dir, '--seed', str(chk.seed), '--tier', chk.tier], env=env, check=False, stderr=subprocess.DEVNULL)
        jobs = []
        runs_per_job = 400000 if T else 12000
        copies = 2 if T else 1
        with cf.ThreadPoolExecutor(max_workers=vlib.NCPU) as ex:
            k = 0
            for fmt, dic in TARGETS:
                for dbg in (False, True):
                    if dbg and fmt not in fuzz_dbg_bins:
                        continue
                    binary = fuzz_dbg_bins[fmt] if dbg else fuzz_bins[fmt]
                    for c in range(copies):
                        wd = os.path.join(d, 'job%d' % k)
                        os.makedirs(wd)
                        src = os.path.join(seeds_dir, fmt)
                        if not os.path.isdir(src):
                            os.makedirs(src)
                            open(os.path.join(src, 'empty'), 'wb').write(b'x')
                        jobs.append((fmt, dbg, binary, ex.submit(_run_fuzz_job, binary, src, wd, chk.seed + k, runs_per_job,
                                                                 os.path.join(vlib.VERIF, 'fuzz', dic) if dic else None, 16384 if T else 4096)))
                        k += 1
            seen_keys = set()
            for fmt, dbg, binary, fut in jobs:
                r = fut.result()
                executed += r['executed']
                mode = fmt + (' (assertions on)' if dbg else '')
                chk.res.sets.setdefault('fuzz_target', set()).add('%s: %d execs, cov %d, corpus %d' % (mode, r['executed'], r['cov'], r['corpus_size']))
                for a in r['artifacts']:
                    art_total += 1
                    verdict, key, detail = _triage(binary, a, mode)
                    if verdict == 'violated':
                        if key not in seen_keys:
                            seen_keys.add(key)
                            # keep the witness bytes in the replay info (artifacts live in scratch)
                            try:
                                data = open(a, 'rb').read()
                            except OSError:
                                data = b''
                            chk.violation(key, detail, replay_info=dict(format=fmt, assertions=dbg, input_hex=data[:20000].hex()))
                    else:
                        chk.res.inconclusive.append(dict(case=os.path.basename(a), why=detail))
    finally:
        shutil.rmtree(d, ignore_errors=True)
    chk.res.counters['fuzz_executions'] = executed
    chk.res.counters['fuzz_artifacts_triaged'] = art_total
    chk.res.evaluations += executed
    chk.assumptions = ['"never loops forever" is decided as bounded progress: libFuzzer -timeout=60 artifacts must reproduce alone with -timeout=120, and the driver stall oracle for the sweeps',
                       'arithmetic UBSan reports (signed overflow, shift, float cast) are recoverable and informational; bounds/null/vptr/unreachable/return and every ASan report are fatal',
                       'a clean run means no report on the executions made, not memory safety']
    return chk.finish('exploration',
                      'deterministic sweeps in both build modes (NDEBUG / assertions on): every prefix of %d seed files (XML, osc, PBF raw/zlib/plain/history/locations-on-ways, OPL, o5m/o5c, gzip and bzip2 wrappers), single-byte substitutions {00,7f,80,ff,b+1,b-1} at every offset, %d crafted slot mutations (string lengths 0..70000 and embedded NULs in every PBF string slot, mismatching array lengths, hostile framing, structurally odd XML incl. every order of child elements, OPL escapes, o5m references/lengths) each also gzip-wrapped, valid inputs whose second object is swept in element steps across the capacity of the decoder buffers (1 KiB/4 KiB/64 KiB) and ends in a long string, o5m inputs filling the 15000-entry reference table up to and past the wrap-around, seeded structure-aware mutations (PBF re-framed after mutating the uncompressed blob, payload mutated then re-compressed, compressed bytes mutated); plus coverage-guided libFuzzer (ASan+UBSan) through the real Reader for 10 format/wrapper targets; every delivered buffer is traversed on exact-fit copies. distinct = enumerated inputs (by construction) + hashes of mutated inputs; fuzz executions are counted in evaluations only' % (nseeds, nevil),
                      required_counters=['crafted_inputs', 'prefix_inputs', 'substitution_inputs', 'mutated_inputs', 'inputs_accepted', 'inputs_rejected_with_std_exception', 'items_traversed', 'strings_traversed', 'fuzz_executions', 'buffer_growth_sweep_inputs', 'o5m_reference_table_fill_inputs'])
