"""C20 - handler dispatch and diff iteration visit each object once with the right context."""
import subprocess
import time

import vlib

SRC = 'harness/c20_dispatch.cpp'
# -g1: line tables only. With full -g the ~1500 instantiated handler lists cost minutes of compile time.
FLAGS = ['-g1']
APPLY_PARTS = [(1, 'apply(Buffer&)'), (2, 'apply(const sources)'), (5, 'apply(non-const iterator ranges)'),
               (3, 'apply(InputIterator sources)'), (6, 'apply_item loops')]


def spec(part, smallbuf=False):
    d = ['C20_PART=%d' % part]
    name = 'c20_p%d' % part
    if smallbuf:
        d.append('OSMIUM_VERIF_PARSER_BUFFER_SIZE=4096')   # hook H4: parser buffers of 4 KiB
        name += '_buf4k'
    return dict(src=SRC, variant='asan', defines=d, name=name, extra_flags=FLAGS)


def builds(tier):
    return [spec(p) for p, _ in APPLY_PARTS] + [spec(4, True), spec(4)]


def _timed(chk, label, result, t0):
    vlib.log('[c20] %-55s %6.1fs  evaluations=%d' % (label, time.time() - t0, result.evaluations))
    chk.absorb(result, label)


def run(chk):
    vlib.build_many(builds(chk.tier))
    T = chk.thorough()
    nseq = sum(13 ** l for l in range(6))          # all item sequences of length 0..5 over 13 item kinds
    eff = ['--full_len', 4, '--div1', 4, '--mask_len', 3] if T else ['--full_len', 3, '--div1', 16, '--div2', 128, '--mask_len', 2]
    for part, label in APPLY_PARTS:
        b = vlib.build(**spec(part))
        t0 = time.time()
        _timed(chk, label, vlib.run_sharded(b, nseq, chk.seed, chk.tier, ['--mode', 'apply'] + eff, tag='c20a%d' % part), t0)
    b6 = vlib.build(**spec(6))
    nrd = 2 * sum(4 ** l for l in range(6))       # sequences over {node, way, relation, changeset} x buffers_type
    t0 = time.time()
    _timed(chk, 'apply(Reader)', vlib.run_sharded(b6, nrd, chk.seed, chk.tier, ['--mode', 'reader', '--rdiv', 1 if T else 8], tag='c20r'), t0)
    b4s = vlib.build(**spec(4, True))
    b4 = vlib.build(**spec(4))
    p = subprocess.run([b4s, '--mode', 'diff', '--print-total', '1'], stdout=subprocess.PIPE, text=True)
    if p.returncode != 0 or not p.stdout.strip().isdigit():
        raise vlib.HarnessError('c20: cannot determine the number of diff histories')
    ndiff = int(p.stdout.strip())
    t0 = time.time()
    _timed(chk, 'DiffIterator/apply_diff(buffer, multi-buffer source)',
           vlib.run_sharded(b4s, ndiff, chk.seed, chk.tier, ['--mode', 'diff', '--ddiv', 1 if T else 4], tag='c20d'), t0)
    t0 = time.time()
    _timed(chk, 'diff through Reader (4 KiB parser buffers)',
           vlib.run_sharded(b4s, ndiff, chk.seed, chk.tier, ['--mode', 'diff_reader', '--rddiv', 2 if T else 16], tag='c20e'), t0)
    t0 = time.time()
    _timed(chk, 'diff through Reader (default parser buffers)',
           vlib.run_sharded(b4, ndiff, chk.seed, chk.tier, ['--mode', 'diff_reader', '--rddiv', 16 if T else 128], tag='c20f'), t0)
    chk.assumptions = [
        'model: for every item the source yields, in order, for every handler in argument order: osm_object (node/way/relation/area only) '
        'then exactly the callback of the item type; one flush per handler after the last item (Handler class documentation + property statement)',
        'not judged: whether items flagged removed are yielded (both alternatives accepted; the dispatch rules must hold either way)',
        'not judged: whether DynamicHandler and ChainHandler forward osm_object/sub-item callbacks to the wrapped handlers '
        '(node/way/relation/area/changeset/flush forwarding is judged)',
        'not judged (counted as info): functors with a non-const call operator and functors taking const Item& are never called by wrapper_handler',
        'a functor sees an object iff its parameter type can bind to it: base classes OSMObject/OSMEntity accept every derived type, '
        'a non-const reference parameter accepts nothing from a const source',
        'apply_diff(Buffer&, ...) and apply_diff(const Buffer&, ...) cannot be instantiated (OSMEntity iterators fail DiffIterator\'s '
        'static_assert); diff entry points are driven with OSMObject-typed iterators',
        'diff histories are sorted by (type, id, version) with positive ids; node/way/relation only']
    return chk.finish(
        'exploration',
        'apply: every sequence of length 0..5 over 13 top-level item kinds (node way relation area changeset, removed node, removed '
        'changeset, tag_list way_node_list relation_member_list outer_ring inner_ring changeset_discussion) x 24 sources (Buffer, const '
        'Buffer, typed iterator ranges, ItemIteratorRange, InputIterator over a multi-buffer source with every split, apply_item loops) x '
        'handler lists of length 1..4 over 30 handler kinds (every kind alone, all lists of length 2-3 and every 3rd/4th of length 4 over '
        'the core kinds for Buffer/const Buffer, pairs and rotations elsewhere); complete product for sequences up to length 3 (quick) / 4 '
        '(thorough), rotating 1/16 and 1/128 (quick) or 1/4 (thorough) of the lists for longer sequences; every split of a sequence into source buffers up to length 2 (quick) / 3 (thorough), seeded splits beyond; all sequences <= 5 over {n,w,r,c} '
        'through a real Reader. diff: all sorted histories of 0..5 objects x 1..4 versions x 4 adjacency classes x 2 version schemes through '
        'DiffIterator (3 dereference styles, const/non-const/typed iterators), apply_diff with 1..4 handlers, a source cutting the history '
        'into buffers in 9 patterns, and a real Reader with 4 KiB parser buffers. distinct = enumerated (sequence, source, handler list, '
        'split) runs, distinct by construction',
        required_counters=['apply_runs', 'callbacks_checked', 'lists_len1', 'lists_len2', 'lists_len3', 'lists_len4', 'sequences_len5',
                           'sequences_with_removed_items', 'sequences_with_top_level_non_entity_items', 'max_mock_buffers',
                           'reader_sequences', 'runs[Reader]', 'runs[Buffer]', 'runs[const Buffer]',
                           'runs[apply_item(const OSMObject&) loop + apply_flush]', 'runs[InputIteratorRange<source, OSMObject>]',
                           'diff_runs', 'diff_histories', 'diff_histories_5_objects', 'diff_handler_lists_len4',
                           'diff_mock_multi_buffer_runs', 'diff_reader_histories',
                           'diff_reader_same_object_neighbours_in_different_buffers'],
        extra=dict(exhaustive=False))
