"""C04 - buffers and builders keep objects intact across growth, commit, rollback, purge."""
import vlib

SRC = 'harness/c04_buffer.cpp'
PARTS = 4   # case = history * 4 + part (no / yes / internal / CallbackBuffer)


def builds(tier):
    return [dict(src=SRC, variant='asan'), dict(src=SRC, variant='asan-dbg')]


def run(chk):
    asan, dbg = vlib.build_many(builds(chk.tier))
    T = chk.thorough()
    n_asan = 24000 if T else 2000
    n_dbg = 12000 if T else 1000
    # a sanitizer crash ends one part of one history; the shard continues behind it. The wall-clock cap per
    # shard process is generous: work is bounded by case counts, and a killed process loses its statistics.
    chk.absorb(vlib.run_sharded(asan, n_asan * PARTS, chk.seed, chk.tier, tag='c04a', max_restarts=1000000, timeout=6 * 3600),
               'histories x capacity sweep x {no,yes,internal,CallbackBuffer} (asan, NDEBUG)')
    # other histories (case range behind the first one) with the library assertions on
    chk.absorb(vlib.run_sharded(dbg, n_dbg * PARTS, chk.seed, chk.tier, tag='c04b', first=n_asan * PARTS,
                                max_restarts=1000000, timeout=6 * 3600),
               'histories x capacity sweep x {no,yes,internal,CallbackBuffer} (asan-dbg, assertions on)')
    chk.assumptions = [
        'reference = the same history in a 1 MiB non-growing zero-filled external buffer; every committed item of the reference is '
        'validated by an explicit-bounds walker written from the documented layout and compared field by field through the public '
        'accessors (on exact-fit heap copies) with what was passed to the builders; all other executions are compared byte by byte '
        'with the concatenation of the model items\' reference bytes',
        'masked bytes: the 2 never-initialised tail padding bytes of each RelationMember and ChangesetComment struct',
        'histories respect the documented preconditions: one top-level builder, one sub-builder at a time, LIFO destruction, '
        'set_user before sub-builders, add_comment/add_comment_text paired, no buffer operation while a builder is open, '
        'purge_removed only without uncommitted data and only on buffers whose top-level items are all OSM entities',
        'auto_grow=internal: nested buffers are taken out (get_last_nested, oldest first) before clear/purge_removed/set_removed; '
        'not judged: exact capacity after automatic growth, state of a moved-from buffer',
        'auto_grow=no: buffer_is_full is demanded exactly when written() + bytes the call reserves in the reference run > capacity; '
        'after it the builders are destroyed, rollback() is called and the committed bytes must be unchanged',
    ]
    sites = chk.res.sets.get('growth_at', set())
    return chk.finish('exploration',
                      'random histories of builder/buffer operations (Node/Way/Relation/Area/Changeset builders, TagList/WayNodeList/'
                      'RelationMemberList (with full members)/ChangesetDiscussion/Outer-/InnerRing sub-builders, standalone list builders, '
                      'Builder::add_item, attr.hpp add_*(), commit/rollback/clear/add_buffer/push_back/Buffer::add_item/swap/move/'
                      'set_removed/purge_removed/grow, CallbackBuffer flush/possibly_flush/read) each replayed with EVERY initial capacity '
                      '64,72,...,peak+8 in each of auto_grow no (internal+external memory)/yes/internal and through a CallbackBuffer, so '
                      'that a reallocation (or buffer_is_full) is forced at every individual reserve_space call. evaluations = executions '
                      '(history x mode x capacity) + reference runs; distinct = hash of the op list + object contents of each history',
                      min_distinct=100,
                      required_counters=['histories', 'add_buffer_sources_with_uncommitted_tail', 'executions_no', 'executions_yes', 'executions_internal',
                                         'executions_callback_buffer', 'buffer_is_full_as_predicted', 'growth_events',
                                         'nested_buffers_drained', 'purge_ops', 'purge_moves_checked', 'purge_items_removed',
                                         'swap_ops', 'move_ops', 'clear_ops', 'add_buffer_ops', 'push_back_ops',
                                         'buffer_add_item_ops', 'set_removed_ops', 'cb_deliveries', 'cb_no_delivery',
                                         'items_walked_and_compared', 'image_comparisons', 'ops_add_member_full',
                                         'ops_add_comment', 'ops_attr_objects', 'ops_builder_add_item',
                                         'ops_initialize_from_object', 'grow_ops', 'grow_external_refused', 'ops_rollback',
                                         'ops_set_user', 'ops_add_tag', 'ops_add_node_ref'],
                      extra=dict(distinct_growth_sites=len(sites), variants=['asan', 'asan-dbg']))
