"""C02 - readers decode every spec-conformant file, however it was encoded."""
import subprocess

import vlib

SRC = 'harness/c02_decode.cpp'
# second binary: the Reader's file input arrives in 8-byte pieces (hook H3), so that short
# files / short final datasets also meet the parsers' refill paths; its parsers also start with
# tiny output buffers (hook H4), so that every decoder's buffer has to grow in the middle of objects
PIECES = ['OSMIUM_VERIF_INPUT_BUFFER_SIZE=8', 'OSMIUM_VERIF_PARSER_BUFFER_SIZE=4096', 'OSMIUM_VERIF_PBF_BUFFER_SIZE=1024']


def builds(tier):
    return [dict(src=SRC, variant='asan'), dict(src=SRC, variant='asan', defines=PIECES, name='c02_decode_pieces')]


def _hdrlen_count(binary, tier):
    p = subprocess.run([binary, '--mode', 'hdrlen_count', '--tier', tier], stdout=subprocess.PIPE, text=True, timeout=120)
    try:
        return int(p.stdout.strip())
    except ValueError:
        raise vlib.HarnessError('c02: cannot determine the number of BlobHeader lengths: %r' % p.stdout)


def run(chk):
    asan, pieces = vlib.build_many(builds(chk.tier))
    T = chk.thorough()

    def part(binary, mode, total, name, tag, extra=(), **kw):
        chk.absorb(vlib.run_sharded(binary, total, chk.seed, chk.tier, ['--mode', mode] + list(extra), tag=tag, **kw), name)

    part(asan, 'pbf', 30000 if T else 900, 'PBF: random data sets x random encodings', 'c02a', timeout=3600)
    part(asan, 'pbf_hdrlen', _hdrlen_count(asan, chk.tier), 'PBF: BlobHeader length sweep (indexdata padding)', 'c02b', timeout=3600)
    part(asan, 'pbf_big', 42 if T else 3, 'PBF: blocks of several MiB up to the 32 MiB limit', 'c02c', timeout=3600, stall_s=300, shards=6)
    part(asan, 'o5m', 25000 if T else 700, 'o5m/o5c: random data sets x random encodings', 'c02d', timeout=3600)
    part(asan, 'o5m_tiny', 10000 if T else 500, 'o5m/o5c: files of a few bytes, short final datasets', 'c02e', timeout=3600)
    part(asan, 'o5m_wrap', 64 if T else 6, 'o5m: more than 15000 table entries (wrap-around)', 'c02f', timeout=3600, stall_s=300)
    part(asan, 'xml', 15000 if T else 500, 'XML: random data sets x random lexical choices', 'c02g', timeout=3600)
    part(asan, 'opl', 15000 if T else 500, 'OPL: random data sets x random lexical choices', 'c02h', timeout=3600)
    part(asan, 'cross', 5000 if T else 300, 'cross-format agreement of the four readers (4 files per case)', 'c02i', timeout=3600)
    via = ['--via', 'file']
    part(pieces, 'o5m_tiny', 2000 if T else 300, 'o5m/o5c tiny files read from disk in 8-byte pieces', 'c02j', extra=via, timeout=3600)
    part(pieces, 'o5m', 1000 if T else 100, 'o5m/o5c read from disk in 8-byte pieces', 'c02k', extra=via, timeout=3600)
    part(pieces, 'pbf', 2000 if T else 300, 'PBF read from disk (fd path of the PBF parser), decoder buffers of 1 KiB', 'c02l', extra=via, timeout=3600)
    part(pieces, 'xml', 500 if T else 60, 'XML read from disk in 8-byte pieces', 'c02m', extra=via, timeout=3600)
    part(pieces, 'opl', 500 if T else 60, 'OPL read from disk in 8-byte pieces', 'c02n', extra=via, timeout=3600)
    chk.assumptions = [
        'the harness encoders (harness/c02_enc_*.hpp) implement the published format descriptions correctly; every PBF file is cross-checked by the independent framing parser of pb.hpp before it is judged',
        'domain restrictions and the clauses that are not judged are listed under coverage.info',
        'points where the o5m description is ambiguous (pairs of 244..256 characters, timestamp 0 with a non-zero delta, uid 0 with a user name) are not generated']
    return chk.finish(
        'exploration',
        'seeded random data sets (boundary-heavy ids, versions, timestamps, locations, UTF-8 strings, 0..1700 objects, optionally interleaved types) encoded by independent '
        'spec-derived encoders under random free choices - PBF: plain/dense, raw/zlib/lz4, granularity {1,10,100,1000,10000}, lat/lon offsets, date granularity {1,500,1000,2000,60000}, '
        'absent Info fields, HistoricalInformation, LocationsOnWays, unknown fields of wire types 0/1/2/5 in all 13 message types, permuted field order, empty groups/blocks, '
        'string-table layout, indexdata, every BlobHeader length class up to 65535 (thorough: every length 11..65535), blocks up to 32 MiB - 64; o5m/o5c: inline vs table references, '
        '>15000 table entries, resets, 32-bit coordinate wrap, extra/unknown datasets, deletes, end marker, files of 7..24 bytes, final datasets of 1..12 bytes; XML: attribute order, '
        'quotes, entities/character references, whitespace/CRLF/comments, osmChange sections, bounds, changesets with discussions; OPL: field order, absent fields, escapes, CRLF, '
        'comment/blank lines - read with the real Reader from memory (and from disk in 8-byte pieces) and compared field by field with the data set; the same data set in all four '
        'formats for pairwise reader agreement. distinct = hash of the file bytes',
        required_counters=['files_pbf', 'files_o5m', 'files_xml', 'files_xml(osmChange)', 'files_opl', 'files_decoded', 'objects_compared', 'header_boxes_compared',
                           'pbf_files_with_dense_nodes', 'pbf_files_with_plain_nodes', 'pbf_files_with_historical_information', 'pbf_files_with_locations_on_ways',
                           'pbf_files_with_absent_info_fields', 'pbf_files_with_nondefault_granularity', 'pbf_files_with_latlon_offset',
                           'pbf_files_with_nondefault_date_granularity', 'pbf_unknown_fields', 'pbf_files_with_permuted_fields', 'pbf_empty_groups',
                           'pbf_blocks_without_groups', 'pbf_blob_header_lengths_swept', 'pbf_blob_headers_high_length_byte_ge_0x80',
                           'pbf_blob_headers_low_length_byte_ge_0x80', 'pbf_blocks_of_exact_requested_size',
                           'o5m_resets', 'o5m_table_references', 'o5m_inline_strings', 'o5m_extra_datasets', 'o5m_wrapped_coordinate_deltas', 'o5c_deletes',
                           'o5m_files_with_table_wrap_around', 'o5m_references_to_table_entry_15000', 'o5m_files_without_end_marker', 'o5m_files_ending_in_dataset_of_1_to_12_bytes',
                           'o5m_files_of_at_most_24_bytes', 'xml_char_refs', 'xml_entities', 'xml_comments', 'xml_change_sections', 'xml_changeset_files',
                           'opl_escapes', 'opl_ways_with_located_and_unlocated_node_refs', 'opl_redundant_escapes', 'opl_raw_utf8_characters', 'opl_comment_lines', 'opl_blank_lines',
                           'reader_pairs_compared', 'cross_tiny_data_sets'])
