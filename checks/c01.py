"""C01 - write-then-read round trip is lossless for every format and writer option."""
import vlib

SRC = 'harness/c01_roundtrip.cpp'


def builds(tier):
    return [dict(src=SRC, variant='asan')]


def run(chk):
    asan = vlib.build(SRC, 'asan')
    T = chk.thorough()
    chk.absorb(vlib.run_sharded(asan, 100000 if T else 900, chk.seed, chk.tier, ['--mode', 'random'], tag='c01r', timeout=3600), 'random (D, options) pairs')
    chk.absorb(vlib.run_sharded(asan, 60 if T else 20, chk.seed, chk.tier, ['--mode', 'special'], tag='c01s', timeout=3600, stall_s=300), 'boundary packs (8000 entities / 32 MiB)')
    chk.assumptions = ['the projection (what each format/option carries) and the PBF framing parser in the harness are the trusted reference',
                       'domain restrictions listed under coverage.info']
    return chk.finish('exploration',
                      'seeded random data sets (boundary-heavy ids, versions, timestamps, locations, UTF-8 strings up to 1024 bytes, 0..3000 objects) x random option vectors over format {osm,osc,osh,pbf,osh.pbf,opl} x dense x blob compression x 32 metadata subsets x locations_on_ways x file compression x reader pool {1,2,4} x file/memory input x buffer/item feeding; boundary packs around 8000 entities per block and a >32 MiB string table; written with Writer, read with Reader, compared field by field with the projection; PBF bytes checked by an independent framing parser. distinct = hash of (options, data set)',
                      required_counters=['files_written', 'files_read_back', 'objects_compared', 'pbf_framing_checked', 'boundary_packs', 'header_boxes_compared'])
