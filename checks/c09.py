"""C09 - compressed input is decompressed completely and truncation is detected."""
import bz2
import glob
import gzip
import os
import random
import shutil
import subprocess
import sys

import vlib

SRC = 'harness/c09_compress.cpp'
BUFS = [None, 4096, 100]


def _spec(buf):
    if buf is None:
        return dict(src=SRC, variant='asan')
    return dict(src=SRC, variant='asan', defines=['OSMIUM_VERIF_INPUT_BUFFER_SIZE=%d' % buf], name='c09_compress_buf%d' % buf)


def builds(tier):
    return [_spec(b) for b in BUFS]


def _reader_corpus(d, seed, thorough):
    rng = random.Random(seed + 7)
    lines = []
    n = 0
    for kind in ('gz', 'bz2'):
        for nodes, streams, cut in ((1000, 1, 'line'), (1000, 3, 'line'), (1000, 4, 'mid-line'), (30000, 2, 'line'), (30000, 5, 'mid-line')) + (((200000, 6, 'mid-line'),) if thorough else ()):
            text = ''.join('n%d v1 dV c1 t2020-01-01T00:00:00Z i1 uu T x1.%d y2\n' % (i, i % 9) for i in range(nodes)).encode()
            pts = sorted(rng.randrange(0, len(text)) for _ in range(streams - 1))
            if cut == 'line':
                pts = [text.index(b'\n', p) + 1 if p < len(text) - 1 else len(text) for p in pts]
            pts = [0] + pts + [len(text)]
            comp = (lambda b: gzip.compress(b, mtime=0)) if kind == 'gz' else bz2.compress
            blob = b''.join(comp(text[pts[i]:pts[i + 1]]) for i in range(len(pts) - 1))
            name = 'opl_%d.opl.%s' % (n, kind)
            n += 1
            with open(os.path.join(d, name), 'wb') as fh:
                fh.write(blob)
            lines.append('%s %d %d stream(s) cut at %s' % (name, nodes, streams, cut))
    with open(os.path.join(d, 'reader_cases.tsv'), 'w') as fh:
        fh.write('\n'.join(lines) + '\n')
    return len(lines)


def run(chk):
    bins = vlib.build_many(builds(chk.tier))
    d = vlib.scratch_dir('c09corpus')
    try:
        p = subprocess.run([sys.executable, os.path.join(vlib.VERIF, 'gen', 'c09_corpus.py'), d, str(chk.seed), chk.tier],
                           stdout=subprocess.PIPE, stderr=subprocess.STDOUT, text=True)
        if p.returncode != 0:
            raise vlib.HarnessError('corpus generation failed: ' + p.stdout[-2000:])
        ncases = sum(1 for _ in open(os.path.join(d, 'cases.tsv')))
        # the alignment classes the description claims must really be in the corpus (the search for
        # a first stream of the right compressed length can fail; that must not go unnoticed)
        classes = set(l.rstrip('\n').split('\t')[4] for l in open(os.path.join(d, 'cases.tsv')))
        for need in ('bz2 2 streams, first compressed length = 4998 mod 5000, second stream tiny', 'bz2 2 streams, first compressed length = 4999 mod 5000, second stream tiny',
                     'bz2 2 streams, first compressed length = 1 mod 5000, second stream tiny', 'bz2 3 streams, first compressed length = 4999 mod 5000',
                     'gz 2 streams, first compressed length = 4999 mod 5000, second stream tiny', 'gz 2 streams, first compressed length = 0 mod 4096, second stream tiny',
                     'bz2 1 stream(s), total compressed size = 0 mod 5000', 'gz 1 stream(s), total compressed size = 0 mod 4096'):
            if need not in classes:
                raise vlib.HarnessError('c09 corpus lacks the class %r: %s' % (need, p.stdout[-500:]))
        nreader = _reader_corpus(d, chk.seed, chk.thorough())
        for buf, binary in zip(BUFS, bins):
            tag = 'default' if buf is None else str(buf)
            chk.absorb(vlib.run_sharded(binary, ncases, chk.seed, chk.tier, ['--mode', 'corpus', '--corpus', d], tag='c09c' + tag),
                       'corpus fd+buffer, input_buffer_size=%s' % tag)
            chk.absorb(vlib.run_sharded(binary, nreader, chk.seed, chk.tier, ['--mode', 'reader', '--corpus', d], tag='c09r' + tag),
                       'multi-stream OPL through Reader, input_buffer_size=%s' % tag)
        rt = os.path.join(d, 'rt')
        os.makedirs(rt)
        nrt = 200 if chk.thorough() else 40
        chk.absorb(vlib.run_sharded(bins[0], nrt, chk.seed, chk.tier, ['--mode', 'roundtrip', '--outdir', rt], tag='c09rt'), 'library compressor round trip')
        # Python re-reads what the library's compressors wrote
        npy = 0
        for f in sorted(glob.glob(os.path.join(rt, 'rt*.gz')) + glob.glob(os.path.join(rt, 'rt*.bz2'))):
            if not os.path.exists(f + '.raw'):
                continue   # the harness reported a violation for this file and did not finish it
            raw = open(f + '.raw', 'rb').read()
            blob = open(f, 'rb').read()
            try:
                got = gzip.decompress(blob) if f.endswith('.gz') else bz2.decompress(blob)
                if got != raw:
                    chk.violation('%s file written by the library differs when read by the reference decompressor' % ('gzip' if f.endswith('.gz') else 'bzip2'), os.path.basename(f))
            except Exception as e:  # noqa
                chk.violation('%s file written by the library is rejected by the reference decompressor' % ('gzip' if f.endswith('.gz') else 'bzip2'), '%s: %s' % (os.path.basename(f), e))
            npy += 1
        chk.res.counters['library_files_verified_by_python'] = npy
        chk.coverage_extra['corpus_cases'] = ncases
    finally:
        shutil.rmtree(d, ignore_errors=True)
    chk.assumptions = ["Python's gzip and bz2 modules are the reference decompressors (multi-member / multi-stream aware)",
                       'damaged input: violation only if the library returns without error a proper prefix of the payload that the reference does not accept; other divergences are counted, not judged']
    return chk.finish('fault_enumeration',
                      'Python-generated corpus: payload sizes {0,1,100,10239,10240,10241,30000,2^20-1,2^20,2^20+1,(thorough: 3*2^20+17 ...)} high and low entropy x 1..6 concatenated streams (empty and tiny streams, first-stream compressed length = 0,1,2,3,-2,-1 mod 5000 and 0,1,-1 mod 4096/100 as far as a first stream of that size is found - the classes 1,-2,-1 mod 5000 for bzip2 and -1 mod 5000, 0 mod 4096 for gzip are required to be present) x {gzip,bzip2}; every truncation length and every single-byte corruption of files <= 4 KiB, sampled ones incl. stream boundaries +-2 for larger files; each file through the fd and the buffer decompressor under three input buffer sizes (default, 4096, 100; hook H3); library compressor output re-read by the library and by Python; multi-stream OPL through the Reader. distinct = hash of file bytes',
                      required_counters=['files_with_reference_payload', 'damaged_files', 'damaged_files_rejected', 'library_roundtrips', 'library_roundtrips_with_zero_length_writes', 'reader_files', 'library_files_verified_by_python'])
