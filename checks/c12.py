"""C12 - all id->value index implementations behave as one mathematical map."""
import concurrent.futures as cf

import vlib

SRC = 'harness/c12_index.cpp'
H5 = ['OSMIUM_VERIF_MIN_DENSE_ENTRIES=4096']   # hook H5: FlexMem switches to dense from 4096 entries on


def builds(tier):
    return [dict(src=SRC, variant='asan'),
            dict(src=SRC, variant='asan', defines=H5, name='c12_index_h5')]


def run(chk):
    asan, h5 = vlib.build_many(builds(chk.tier))
    T = chk.thorough()
    # wall-clock cap per shard process: only a safety net (an idle machine needs ~4 min per thorough shard);
    # generous, because a killed shard loses the case it was running (reported as inconclusive)
    cap = 7200 if T else 1800
    with cf.ThreadPoolExecutor(max_workers=2) as bg:
        # the long histories run beside the other parts, each case in its own process
        ng = 24 if T else 8
        growth = bg.submit(vlib.run_sharded, asan, ng, chk.seed, chk.tier, ['--mode', 'maps', '--profile', 'growth'],
                           shards=8, tag='c12g', timeout=cap, stall_s=150)
        big = bg.submit(vlib.run_sharded, asan, 6, chk.seed, chk.tier, ['--mode', 'flexbig'],
                        shards=6, tag='c12b', timeout=cap, stall_s=150) if T else None
        chk.absorb(vlib.run_sharded(asan, 6400 if T else 560, chk.seed, chk.tier, ['--mode', 'maps', '--profile', 'std'], tag='c12a', timeout=cap),
                   'histories x 8 map types + dumps/reloads (asan)')
        chk.absorb(vlib.run_sharded(h5, 1200 if T else 144, chk.seed, chk.tier, ['--mode', 'maps', '--profile', 'flex'], tag='c12f', timeout=cap),
                   'FlexMem sparse->dense switch at 4096 (hook H5, asan)')
        chk.absorb(vlib.run_sharded(asan, 16000 if T else 1600, chk.seed, chk.tier, ['--mode', 'nlfw', '--profile', 'std'], tag='c12n', timeout=cap),
                   'NodeLocationsForWays, all type pairs (asan)')
        chk.absorb(vlib.run_sharded(h5, 1600 if T else 160, chk.seed, chk.tier, ['--mode', 'nlfw', '--profile', 'flex'], tag='c12m', timeout=cap),
                   'NodeLocationsForWays with a FlexMem that switches (hook H5, asan)')
        chk.absorb(growth.result(), 'histories of > 1 Mi / > 2 Mi entries: mmap_vector growth (asan)')
        if big is not None:
            chk.absorb(big.result(), 'FlexMem across the real 0xffffff threshold, > 2^24 entries (asan)')
    chk.assumptions = [
        'oracle: std::map<uint64, (int32,int32)> fed with the same history; for the > 2^24-entry cases a bitmap of inserted ids plus a value function of the id',
        'ids are distinct, values never equal the empty value Location{}; sort() is called once after the last insertion and before the first lookup',
        'dense types only get histories whose largest id is < 2^23 (2^25 in a few thorough cases): a dense array for 2^40 would need terabytes; such ids go to the five sparse types',
        'dump formats: array = 8-byte (x,y) record at index id, empty value = no entry; list = 16-byte (id,x,y) records sorted by id; dumps are parsed raw and reloaded through dense_file_array / sparse_file_array',
        'not judged: size(), used_memory(), anything after clear(), dump_as_* of types that answer "can\'t dump", node locations of a way for which way() threw not_found',
        'NodeLocationsForWays: node locations have both coordinates defined; a way is only judged against nodes that arrived before it; missing refs must yield not_found, or stay undefined under ignore_errors()',
        'get() on absent ids is limited to 300 per map and stage (the special boundary ids first) because exceptions are slow under ASan; get_noexcept() runs on every probe',
    ]
    req = ['maps_compared_with_model', 'lookups_inserted_ids', 'lookups_absent_ids', 'get_calls', 'get_noexcept_calls',
           'dump_list_raw_checked', 'dump_array_raw_checked', 'dump_list_reloaded', 'dump_array_reloaded',
           'reload_via_fd_constructor', 'reload_via_factory_filename', 'reloaded_then_extended', 'backing_file_reopened',
           'reserve_calls', 'empty_histories', 'histories_with_huge_ids', 'dense_histories_beyond_1Mi_ids',
           'flex_switched_during_history', 'flex_insertions_after_switch', 'flex_dense_at_end', 'flex_sparse_at_end',
           'histories_over_1Mi_entries', 'histories_over_2Mi_entries',
           'nlfw_ways_checked', 'nlfw_refs_with_stored_node', 'nlfw_refs_missing_ignored', 'nlfw_ways_not_found_as_required',
           'nlfw_two_phase_streams', 'nlfw_ignore_errors_streams', 'nlfw_get_node_location', 'nlfw_flex_dense_at_end']
    if T:
        req += ['flexbig_switched', 'flexbig_stayed_sparse']
    for dim, need in (('nlfw_pos_type', 8), ('nlfw_neg_type', 8), ('nlfw_order', 9), ('dump_as_array_from', 6), ('dump_as_list_from', 4), ('order', 6)):
        have = len(chk.res.sets.get(dim, ()))
        if have < need:
            chk.res.harness_errors.append('coverage dimension %s: %d of %d values seen' % (dim, have, need))
    return chk.finish('exploration',
                      'random insertion histories (distinct ids from tiny, 2^16-block, 1 Mi, 1310720-window, large dense, 2^32 and 2^63 universes, boundary-heavy; '
                      'ascending/descending/shuffled/interleaved/block-shuffled/nearly-sorted) applied to every registered map type created through MapFactory, '
                      'then sort(), then get()/get_noexcept() on inserted ids, their neighbours, block/growth/window boundaries and never-inserted ids against std::map; '
                      'dump_as_list/dump_as_array parsed raw and reloaded through the file-based types, backing files reopened; FlexMem switch with H5=4096 '
                      '(and across 0xffffff in the thorough tier); histories of > 1 Mi and > 2 Mi entries; NodeLocationsForWays<Map,Map> over all type pairs with 9 node orders. '
                      'distinct = hash of (profile, id/value sequence) resp. (types, order, stream)',
                      required_counters=req, extra=dict(exhaustive=False))
