"""C07 - Reader pipeline always terminates and reports the first error to the caller."""
import vlib

SRC = 'harness/c07_reader_faults.cpp'
FLAGS = ['-Wl,--wrap=read', '-Wl,--wrap=close']


def builds(tier):
    return [dict(src=SRC, variant='asan', extra_flags=FLAGS), dict(src=SRC, variant='tsan', extra_flags=FLAGS)]


def run(chk):
    asan, tsan = vlib.build_many(builds(chk.tier))
    T = chk.thorough()
    n = 30000 if T else 1000
    chk.absorb(vlib.run_sharded(asan, n, chk.seed, chk.tier, [], tag='c07a', stall_s=240, timeout=7200), 'stop/fault scenarios (asan)')
    chk.absorb(vlib.run_sharded(tsan, n // 2, chk.seed + 1, chk.tier, [], tag='c07t', stall_s=240, timeout=7200), 'stop/fault scenarios (tsan)')
    chk.assumptions = ['"never deadlocks" is decided as bounded progress: every scenario runs in a runner thread under a 120 s watchdog, plus the driver\'s no-CPU-progress oracle',
                       'a decompressor close failure is only required to be reported when the consumer reads to the end',
                       'read(2) calls are observed through -Wl,--wrap=read (all library syscalls are inlined into the harness TU)']
    return chk.finish('fault_enumeration',
                      'formats {PBF zlib, PBF raw, XML, OPL, o5m} x scenarios {consumer stops after k in {0,1,2,3,5,8,all} reads with/without header() via close()/destructor; j-th Decompressor::read() throws for every j; Decompressor::close() throws; n-th PBF block corrupt (zlib data / protobuf), XML/OPL/o5m corrupt in the middle, header corrupt, input truncated} x pool {1,4} x input/osmdata queue sizes {2,3,20} x PBF pool parsing on/off x mock decompressor / memory / real file x seeded perturbation. distinct = (scenario configuration, interleaving signature)',
                      required_counters=['scenario_stop', 'scenario_decomp-read', 'scenario_decomp-close', 'scenario_corrupt', 'early_stops', 'readers_asked_for_no_entity_type', 'faults_reported', 'api_events', 'reads_on_reader_fd_logged', 'hook_events'])
