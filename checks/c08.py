"""C08 - Writer produces the complete file or throws; OS write errors are never lost."""
import concurrent.futures as cf
import json
import os
import re
import shutil
import subprocess

import vlib

SRC = 'harness/c08_writer_faults.cpp'
SRC_MOCK = 'harness/c08_mock.cpp'
NCFG = 16
CFG_NAMES = ['osm', 'osm fsync', 'osm.gz', 'osm.bz2', 'osm.gz fsync', 'osm.bz2 fsync', 'pbf', 'pbf fsync', 'pbf.gz', 'pbf.bz2 fsync',
             'opl', 'opl fsync', 'opl.gz', 'opl.bz2', 'opl.gz fsync', 'opl.bz2 fsync']


def builds(tier):
    return [dict(src=SRC, variant='asan'), dict(src=SRC_MOCK, variant='asan'), dict(src=SRC_MOCK, variant='tsan')]


def _strace_one(binary, d, seed, cfg, syscall, errno_name, when, idx):
    path = os.path.join(d, 'st%d.out' % idx)
    log = os.path.join(d, 'st%d.log' % idx)
    inject = '%s:error=%s' % (syscall, errno_name) + (':when=%d' % when if when else '')
    cmd = ['strace', '-f', '-o', log, '-P', path, '-e', 'trace=%s' % syscall, '-e', 'inject=' + inject,
           binary, '--mode', 'one', '--cfg', str(cfg), '--path', path, '--seed', str(seed), '--flush', str(idx % 2)]
    env = dict(os.environ)
    env.update(vlib.SAN_ENV)
    try:
        p = subprocess.run(cmd, stdout=subprocess.PIPE, stderr=subprocess.PIPE, text=True, timeout=300, env=env)
        out, rc, timed_out = p.stdout, p.returncode, False
    except subprocess.TimeoutExpired:
        out, rc, timed_out = '', None, True
    injected = False
    try:
        with open(log, errors='replace') as fh:
            injected = '(INJECTED)' in fh.read()
    except OSError:
        pass
    for f in (path, log):
        try:
            os.unlink(f)
        except OSError:
            pass
    return dict(cfg=cfg, syscall=syscall, errno=errno_name, when=when, out=out, rc=rc, injected=injected, timed_out=timed_out)


def run(chk):
    main, mock_asan, mock_tsan = vlib.build_many(builds(chk.tier))
    T = chk.thorough()
    # ---- (a) RLIMIT_FSIZE at byte offsets
    per_cfg = 6000 if T else 400
    chk.absorb(vlib.run_sharded(main, NCFG * per_cfg, chk.seed, chk.tier, ['--mode', 'rlimit', '--dense', 2500 if T else 48], tag='c08r', stall_s=240, timeout=7200),
               'RLIMIT_FSIZE (EFBIG) at byte offsets in a forked child')
    # ---- (b) mock compressor / encoder faults
    chk.absorb(vlib.run_sharded(mock_asan, 6000 if T else 1000, chk.seed, chk.tier, [], tag='c08ma', stall_s=240), 'mock compressor and encoder faults (asan)')
    chk.absorb(vlib.run_sharded(mock_tsan, 6000 if T else 1000, chk.seed + 1, chk.tier, [], tag='c08mt', stall_s=240), 'mock compressor and encoder faults (tsan)')
    # ---- (c) strace fault injection on the n-th write / fsync / close of the output file
    d = vlib.scratch_dir('c08strace')
    jobs = []
    idx = 0
    for cfg in range(NCFG):
        fs = 'fsync' in CFG_NAMES[cfg]
        whens = range(1, 9 if T else 4)
        for when in whens:
            for err in (('ENOSPC', 'EIO') if T else (('ENOSPC',) if when % 2 else ('EIO',))):
                jobs.append((cfg, 'write', err, when))
        jobs.append((cfg, 'close', 'EIO', 0))
        if fs:
            jobs.append((cfg, 'fsync', 'EIO', 0))
    fired = inconclusive = reported = 0
    samples = []
    try:
        with cf.ThreadPoolExecutor(max_workers=vlib.NCPU) as ex:
            futs = []
            for (cfg, sc, err, when) in jobs:
                futs.append(ex.submit(_strace_one, main, d, chk.seed, cfg, sc, err, when, idx))
                idx += 1
            for f in futs:
                r = f.result()
                name = CFG_NAMES[r['cfg']]
                what = '%s fails with %s' % (r['syscall'], r['errno']) + (' (call %d)' % r['when'] if r['when'] else '')
                if r['timed_out']:
                    chk.violation('hang: Writer did not finish after an injected %s error: %s' % (r['syscall'], name), what)
                    continue
                if not r['injected']:
                    inconclusive += 1            # the n-th call does not exist for this output: nothing fired
                    continue
                fired += 1
                lines = [ln for ln in r['out'].splitlines() if ln.startswith('{')]
                if len(lines) < 2:
                    chk.violation('Writer process died after an injected %s error: %s' % (r['syscall'], name), '%s rc=%s' % (what, r['rc']))
                    continue
                o = json.loads(lines[0])
                if o['close_returned']:
                    chk.violation('%s error lost: close() returned normally: %s' % (r['syscall'], name), '%s | %s' % (what, lines[0]))
                else:
                    reported += 1
                    if o['after_checked'] and not o['after_io_error']:
                        chk.violation('Writer in error state accepted further data: %s' % name, '%s | %s' % (what, lines[0]))
                if len(samples) < 3:
                    samples.append('%s: %s -> %s' % (name, what, lines[0][:150]))
    finally:
        shutil.rmtree(d, ignore_errors=True)
    chk.res.counters['strace_faults_fired'] = fired
    chk.res.counters['strace_faults_reported'] = reported
    chk.res.counters['strace_runs_without_injection(inconclusive)'] = inconclusive
    chk.res.evaluations += fired
    chk.res.samples += samples
    chk.assumptions = ['a fault counts only if it demonstrably fired: RLIMIT offset below the size of the complete output, "(INJECTED)" in the strace log, the mock\'s own call counter',
                       'strace runs in which the n-th call does not exist are inconclusive, never "held"',
                       '"threads always finish" is decided as bounded progress (watchdogs) plus /proc/self/task back at the baseline']
    return chk.finish('fault_enumeration',
                      '16 configurations (xml/pbf/opl x none/gzip/bzip2 x fsync) x RLIMIT_FSIZE at byte offsets (the first and last 48/400 offsets of the output densely, seeded offsets in between, plus control runs at/after the full size) x flush in the middle x pool size, in a forked child; strace -e inject on the n-th write (ENOSPC/EIO), on fsync and on close of the output file; throwing mock Compressor (constructor, k-th write, close) and an unencodable OPL string (failure in a pool worker) under seeded perturbation in ASan and TSan builds. distinct = (configuration, offset/fault, interleaving signature)',
                      required_counters=['write_faults_fired', 'control_runs_without_fault', 'mock_faults_fired', 'mock_control_runs', 'strace_faults_fired', 'strace_faults_reported'])
