// C08 (mock part) - throwing Compressor registered through CompressionFactory
// (under file_compression::bzip2, whose real implementation is not included in
// this TU) and an unencodable string (encoder failure in a pool worker), with
// seeded schedule perturbation at the queue/pool hook points.

#include "../c08_common.hpp"

#include <osmium/io/compression.hpp>

#include <chrono>

using namespace c08;

namespace {

std::string g_dir;

// ------------------------------------------------------------------ mock compressor / encoder faults

struct MockPlan { int fail_ctor = 0; long fail_write = -1; bool fail_close = false; int slow_us = 0; };
MockPlan g_mock;
std::atomic<long> g_mock_writes{0};
struct InjectedFault : public std::runtime_error { using std::runtime_error::runtime_error; };

class MockCompressor final : public osmium::io::Compressor {
    int m_fd;
public:
    MockCompressor(int fd, osmium::io::fsync sync) : Compressor(sync), m_fd(fd) {
        if (g_mock.fail_ctor) { ::close(fd); throw InjectedFault{"injected compressor constructor fault"}; }
    }
    ~MockCompressor() noexcept override { try { if (m_fd >= 0) ::close(m_fd); } catch (...) {} }
    void write(const std::string& data) override {
        const long n = ++g_mock_writes;
        if (g_mock.slow_us) std::this_thread::sleep_for(std::chrono::microseconds(g_mock.slow_us));   // slow output: the queue fills up
        if (g_mock.fail_write > 0 && n == g_mock.fail_write) throw InjectedFault{"injected compressor write fault"};
        ssize_t w = ::write(m_fd, data.data(), data.size()); (void)w;
    }
    void close() override {
        if (m_fd >= 0) { ::close(m_fd); m_fd = -1; }
        if (g_mock.fail_close) throw InjectedFault{"injected compressor close fault"};
    }
};

void case_mock(uint64_t idx, vh::Rng& rng) {
    // register the mock under a compression value unused by real files in this scenario: reuse bzip2
    static bool reg = osmium::io::CompressionFactory::instance().register_compression(
        osmium::io::file_compression::bzip2,
        [](int fd, osmium::io::fsync s) -> osmium::io::Compressor* { return new MockCompressor{fd, s}; },
        [](int) -> osmium::io::Decompressor* { return nullptr; },
        [](const char*, size_t) -> osmium::io::Decompressor* { return nullptr; });
    (void)reg;
    const int kind = static_cast<int>(idx % 5);   // 0 ctor, 1 write k, 2 close, 3 encoder failure, 4 control
    static const char* KN[] = {"compressor constructor throws", "compressor write throws", "compressor close throws", "encoder fails in a pool worker (invalid UTF-8 in OPL)", "control (no fault)"};
    const char* fmts[] = {"osm", "pbf", "opl"};
    Cfg c{kind == 3 ? "opl" : fmts[rng.below(3)], kind == 3 ? 0 : 2, rng.coin()};
    g_mock = MockPlan{};
    g_mock_writes = 0;
    std::vector<mdl::Obj> D = make_data(rng, c, 30 + rng.below(100));
    if (kind == 0) g_mock.fail_ctor = 1;
    if (kind == 1) g_mock.fail_write = 1 + static_cast<long>(rng.below(rng.coin() ? 6 : 30));
    if (rng.coin()) g_mock.slow_us = 2000;
    buffers_per_file() = rng.coin() ? 5 : 40;
    if (kind == 2) g_mock.fail_close = true;
    if (kind == 3) D[rng.below(D.size())].tags.push_back(mdl::Tag{"k", std::string("bad\xff\xfe", 5)});
    ::setenv("OSMIUM_MAX_OUTPUT_QUEUE_SIZE", rng.coin() ? "2" : "20", 1);
    vhk::reset(rng.next() | 1, rng.pick(std::vector<uint32_t>{0, 100, 500}), 200);
    const std::string path = g_dir + "/mock";
    ::unlink(path.c_str());
    vh::set_case_desc("mock %s %s", KN[kind], cfg_name(c).c_str());
    const int threads_before = thread_count();
    std::atomic<bool> done{false};
    Outcome o;
    std::thread runner{[&] { o = run_writer(path, c, D, rng.coin() ? 1 : 4, rng.coin(), rng.coin() ? 0 : 1 + rng.below(5)); done = true; }};
    {   // bounded progress: fires only after 60 s without any queue/pool hook event or mock write
        auto last_change = std::chrono::steady_clock::now();
        auto events = [] { return vhk::hs().events.load() + vhk::hs().pushes.load() + vhk::hs().pops.load() + static_cast<uint64_t>(g_mock_writes.load()); };
        uint64_t last_events = events();
        while (!done) {
            const uint64_t ev = events();
            const auto now = std::chrono::steady_clock::now();
            if (ev != last_events) { last_events = ev; last_change = now; }
            else if (now - last_change > std::chrono::seconds(60)) break;
            std::this_thread::sleep_for(std::chrono::milliseconds(1));
            vh::heartbeat();
        }
    }
    if (!done) {
        vh::violation(std::string("hang: Writer call or destructor did not return: ") + KN[kind], cfg_name(c));
        runner.detach();
        vh::abort_shard_after_hang(vh::st().range_to - vh::st().current_case.load() - 1);
    }
    runner.join();
    for (int i = 0; i < 5000 && thread_count() > threads_before; ++i) std::this_thread::sleep_for(std::chrono::milliseconds(1));
    if (thread_count() != threads_before) vh::violation(std::string("Writer threads not finished after destruction: ") + KN[kind], cfg_name(c));
    const std::string detail = cfg_name(c) + " | " + outcome_json(o);
    if (o.foreign) vh::violation("Writer: exception not derived from std::exception", detail);
    const bool fault = kind != 4 && !(kind == 1 && g_mock_writes.load() < g_mock.fail_write);
    if (fault) {
        vh::count("mock_faults_fired");
        if (o.close_returned) vh::violation(std::string("failure lost: close() returned normally: ") + KN[kind], detail);
        else {
            if (kind <= 2 && o.error.find("injected compressor") == std::string::npos) vh::violation(std::string("reported error is not the injected one: ") + KN[kind], detail);
            if (o.after_error_checked && !o.after_error_write_threw_io_error) vh::violation(std::string("Writer in error state accepted further data: ") + KN[kind], detail);
            vh::count(std::string("mock_fault_reported_by_") + o.threw_at);
        }
    } else {
        if (!o.close_returned) vh::violation(std::string("Writer failed without a fault: ") + KN[kind], detail);
        vh::count("mock_control_runs");
    }
    ::unlink(path.c_str());
    vh::evaluated();
    vh::distinct(vh::hash_u64(vhk::signature(), vh::hash_str(detail)));
    vh::cover("mock_fault", KN[kind]);
    if (idx % 100 < 5) vh::sample_str(std::string(KN[kind]) + " | " + detail);
}

} // namespace

int main(int argc, char** argv) {
    vh::parse_args(argc, argv);
    { std::thread warm{[] {}}; warm.join(); }
    const char* cache = std::getenv("VERIF_CACHE");
    const std::string base = cache ? cache : "/verif/.cache";
    ::mkdir((base + "/scratch").c_str(), 0755);
    g_dir = base + "/scratch/c08m-" + std::to_string(::getpid());
    ::mkdir(g_dir.c_str(), 0755);
    const int rc = vh::run_cases(argc, argv, 500, case_mock);
    ::rmdir(g_dir.c_str());
    return rc;
}
