// C12 - all id->value index implementations behave as one mathematical map.
//
// Oracle: std::map<uint64_t, Val> (Val = two int32; never the empty value).
// Every registered map type is created through MapFactory (file based ones on
// a file under the scratch directory), receives the same insertion history
// (distinct ids), then sort(), then get()/get_noexcept() on a probe set are
// compared with the model.
//
//   --mode maps --profile std     random histories from tiny / 2^16-block /
//                                 1 Mi / 1310720-window / large-dense / 2^32 /
//                                 huge universes; all 8 types (5 sparse ones
//                                 for ids that a dense array cannot hold);
//                                 dump_as_list / dump_as_array parsed raw and
//                                 reloaded through sparse_file_array /
//                                 dense_file_array (factory with file name, or
//                                 constructor with fd); reopen of the backing
//                                 file of the file based types; clear().
//   --mode maps --profile flex    histories that cross FlexMem's sparse->dense
//                                 switch (binary built with hook H5 = 4096)
//   --mode maps --profile growth  > 1 Mi / > 2 Mi entries: mmap_vector growth
//   --mode flexbig                crosses the real 0xffffff threshold of
//                                 FlexMem (thorough tier; arithmetic model)
//   --mode nlfw [--profile flex]  NodeLocationsForWays<Map, Map> with real
//                                 positive and negative indexes, node streams
//                                 in many orders, ways with present and
//                                 missing refs, with and without ignore_errors
//
// Not judged (the property leaves it open): size(), used_memory() (documented
// as approximate), anything after clear(), dump_as_* of types that answer
// "can't dump", locations on a way for which way() threw not_found.

#include "vh.hpp"

#include <osmium/index/map/all.hpp>
#include <osmium/index/node_locations_map.hpp>

#include <osmium/builder/osm_object_builder.hpp>
#include <osmium/handler/node_locations_for_ways.hpp>
#include <osmium/memory/buffer.hpp>
#include <osmium/osm/location.hpp>
#include <osmium/visitor.hpp>

#include <algorithm>
#include <dirent.h>
#include <limits>
#include <memory>
#include <sys/resource.h>
#include <unordered_set>

namespace {

using Id = osmium::unsigned_object_id_type;
using Loc = osmium::Location;
using MapT = osmium::index::map::Map<Id, Loc>;
using Factory = osmium::index::MapFactory<Id, Loc>;
using FlexT = osmium::index::map::FlexMem<Id, Loc>;
using DenseFileT = osmium::index::map::DenseFileArray<Id, Loc>;
using SparseFileT = osmium::index::map::SparseFileArray<Id, Loc>;

// location.hpp documents: undefined_coordinate = int32 max; Location{} is the
// empty value of all maps (index.hpp: empty_value<T>() = T{}).
constexpr int32_t UNDEF = 2147483647;

struct Val {
    int32_t x, y;
    bool operator==(const Val& o) const { return x == o.x && y == o.y; }
    bool operator!=(const Val& o) const { return !(*this == o); }
};
using Model = std::map<uint64_t, Val>;

const std::vector<std::string> ALL_TYPES = {"dense_file_array", "dense_mem_array", "dense_mmap_array", "flex_mem",
                                            "sparse_file_array", "sparse_mem_array", "sparse_mem_map", "sparse_mmap_array"};
const std::vector<std::string> SPARSE_TYPES = {"flex_mem", "sparse_file_array", "sparse_mem_array", "sparse_mem_map", "sparse_mmap_array"};

bool is_dense_type(const std::string& t) { return t.rfind("dense_", 0) == 0; }
bool is_file_type(const std::string& t) { return t.find("_file_") != std::string::npos; }

std::string sval(const Val& v) { return vh::fmt("(%d,%d)", v.x, v.y); }
std::string sloc(const Loc& l) { return vh::fmt("(%d,%d)", l.x(), l.y()); }

// ------------------------------------------------------------ scratch files

std::string g_scratch;
uint64_t g_file_counter = 0;

void mkdirs(const std::string& p) {
    for (size_t i = 1; i <= p.size(); ++i)
        if (i == p.size() || p[i] == '/') ::mkdir(p.substr(0, i).c_str(), 0755);
}

void init_scratch() {
    std::string out = vh::arg("out", "");
    std::string base;
    if (!out.empty() && out.find('/') != std::string::npos) {
        base = out.substr(0, out.rfind('/'));   // the driver's per-run scratch dir (removed by the driver)
    } else {
        const char* c = std::getenv("VERIF_CACHE");
        base = std::string(c ? c : "/verif/.cache") + "/scratch";
    }
    g_scratch = base + vh::fmt("/c12w-%d", static_cast<int>(::getpid()));
    mkdirs(g_scratch);
    if (g_scratch.find(',') != std::string::npos) { std::fprintf(stderr, "scratch path contains a comma\n"); std::exit(2); }
    struct rlimit rl;
    if (::getrlimit(RLIMIT_NOFILE, &rl) == 0) { rl.rlim_cur = rl.rlim_max; ::setrlimit(RLIMIT_NOFILE, &rl); }
}

void cleanup_scratch() {
    if (g_scratch.empty()) return;
    if (DIR* d = ::opendir(g_scratch.c_str())) {
        while (dirent* e = ::readdir(d)) {
            if (e->d_name[0] == '.') continue;
            ::unlink((g_scratch + "/" + e->d_name).c_str());
        }
        ::closedir(d);
    }
    ::rmdir(g_scratch.c_str());
}

std::string new_path(const char* what) { return g_scratch + vh::fmt("/%s%" PRIu64, what, ++g_file_counter); }

// ------------------------------------------------------------ map instances

// create_map_with_fd() opens the file and nobody ever closes that descriptor.
// That is outside C12; to be able to run thousands of cases per process we
// close it ourselves after the map object is gone. The descriptor number is
// predicted (lowest free one; the harness is single threaded) and verified
// through /proc/self/fd.
int lowest_free_fd() {
    int f = ::open("/dev/null", O_RDONLY);
    if (f >= 0) ::close(f);
    return f;
}

struct Inst {
    std::string type;
    std::unique_ptr<MapT> map;
    std::string path;   // backing file, if any
    int fd = -1;        // descriptor to close after destruction of the map
    bool unlink_file = true;

    Inst() = default;
    Inst(const Inst&) = delete;
    Inst& operator=(const Inst&) = delete;
    void destroy(bool keep_file = false) {
        map.reset();
        if (fd >= 0) { ::close(fd); fd = -1; }
        if (!keep_file && !path.empty() && unlink_file) { ::unlink(path.c_str()); }
    }
    ~Inst() { destroy(); }
};

// through the factory; `path` empty => plain type name
std::unique_ptr<Inst> make_inst(const std::string& type, const std::string& path) {
    auto inst = std::make_unique<Inst>();
    inst->type = type;
    inst->path = path;
    const int predicted = path.empty() ? -1 : lowest_free_fd();
    inst->map = Factory::instance().create_map(path.empty() ? type : type + "," + path);
    if (predicted >= 0) {
        char buf[4096];
        const ssize_t n = ::readlink(vh::fmt("/proc/self/fd/%d", predicted).c_str(), buf, sizeof(buf) - 1);
        if (n > 0 && std::string(buf, static_cast<size_t>(n)) == path) inst->fd = predicted;
        else vh::count("fd_prediction_failed");
    }
    vh::count("maps_created");
    return inst;
}

// file based type constructed directly on a descriptor the harness owns
std::unique_ptr<Inst> make_inst_fd(bool dense, const std::string& path) {
    auto inst = std::make_unique<Inst>();
    inst->type = dense ? "dense_file_array" : "sparse_file_array";
    inst->path = path;
    inst->fd = ::open(path.c_str(), O_RDWR);
    if (inst->fd < 0) throw std::runtime_error{"harness: cannot reopen dump file " + path};
    if (dense) inst->map.reset(new DenseFileT{inst->fd});
    else inst->map.reset(new SparseFileT{inst->fd});
    vh::count("maps_created");
    return inst;
}

// ------------------------------------------------------------ value / id generators

Val gen_val(vh::Rng& r, bool both_defined) {
    static const int32_t XS[] = {0, 1, -1, std::numeric_limits<int32_t>::min(), UNDEF - 1, 1800000000, -1800000000, 7};
    static const int32_t YS[] = {0, 1, -1, std::numeric_limits<int32_t>::min(), UNDEF - 1, 900000000, -900000000, 7};
    switch (r.below(8)) {
        case 0:
            return Val{r.pick(XS), r.pick(YS)};
        case 1:
            if (!both_defined) {
                // one coordinate undefined: not the empty value
                if (r.coin()) return Val{UNDEF, static_cast<int32_t>(r.range(-900000000, 900000000))};
                return Val{static_cast<int32_t>(r.range(-1800000000, 1800000000)), UNDEF};
            }
            return Val{0, 0};
        default:
            return Val{static_cast<int32_t>(r.range(-1800000000, 1800000000)), static_cast<int32_t>(r.range(-900000000, 900000000))};
    }
}

// value as a pure function of the id (used where a std::map would be too big)
Val val_of(uint64_t id, uint64_t salt) {
    const uint64_t h = vh::mix(id, salt);
    return Val{static_cast<int32_t>(static_cast<int64_t>(h % 3600000001ULL) - 1800000000LL),
               static_cast<int32_t>(static_cast<int64_t>((h >> 32) % 1800000001ULL) - 900000000LL)};
}

struct Universe {
    const char* name;
    uint64_t limit;     // ids are < limit
    bool dense_ok;      // dense arrays up to `limit` entries fit the budget
};

const uint64_t WINDOW = 1310720;   // entries per 10 MiB window of the sparse dump_as_array

uint64_t pick_id(vh::Rng& r, const Universe& u, uint64_t last) {
    const unsigned k = static_cast<unsigned>(r.below(10));
    if (u.limit > (1ULL << 33)) {
        // sparse / huge universe
        if (k < 4) {
            const unsigned bits = 1 + static_cast<unsigned>(r.below(63));
            return (r.next() >> (64 - bits)) % u.limit;
        }
        if (k < 7) {
            static const uint64_t B[] = {1ULL << 31, 1ULL << 32, 1ULL << 40, 1ULL << 48, (1ULL << 63) - 1, 1ULL << 16, 1ULL << 20, 0, 1ULL << 62};
            const uint64_t b = r.pick(B);
            const int64_t d = r.range(-3, 3);
            if (d < 0 && b < static_cast<uint64_t>(-d)) return b;
            const uint64_t v = b + static_cast<uint64_t>(d);
            return v < u.limit ? v : u.limit - 1;
        }
        const uint64_t v = last + static_cast<uint64_t>(r.range(1, 3));
        return v < u.limit ? v : r.below(u.limit);
    }
    if (k < 4) return r.below(u.limit);
    if (k < 7) {
        static const uint64_t STEP[] = {1ULL << 16, 1ULL << 20, WINDOW, 1ULL << 16, 1ULL << 32};
        uint64_t step = r.pick(STEP);
        uint64_t b;
        switch (r.below(6)) {
            case 0: b = 0; break;
            case 1: b = u.limit - 1; break;
            default: b = step <= u.limit ? step * (1 + r.below(u.limit / step)) : u.limit - 1; break;
        }
        const int64_t d = r.range(-2, 2);
        if (d < 0 && b < static_cast<uint64_t>(-d)) return b;
        const uint64_t v = b + static_cast<uint64_t>(d);
        return v < u.limit ? v : u.limit - 1;
    }
    const uint64_t v = last + static_cast<uint64_t>(r.range(1, 3));
    return v < u.limit ? v : r.below(u.limit);
}

struct Hist {
    std::vector<std::pair<uint64_t, Val>> ops;              // insertion order
    std::vector<std::pair<size_t, uint64_t>> reserves;      // before op #first: reserve(second)
    Universe uni{"", 0, false};
    bool dense_ok = false;
    std::string order;
    uint64_t max_id = 0;
    size_t main_n = 0;   // flex profile: ops before the tail
};

void apply_order(std::vector<std::pair<uint64_t, Val>>& v, vh::Rng& r, std::string& name, int forced = -1) {
    std::sort(v.begin(), v.end(), [](const auto& a, const auto& b) { return a.first < b.first; });
    const int o = forced >= 0 ? forced : static_cast<int>(r.below(6));
    switch (o) {
        case 0: name = "ascending"; break;
        case 1: name = "descending"; std::reverse(v.begin(), v.end()); break;
        case 2: name = "shuffled"; r.shuffle(v); break;
        case 3: {
            name = "interleaved-low-high";
            std::vector<std::pair<uint64_t, Val>> w;
            w.reserve(v.size());
            size_t i = 0, j = v.size();
            while (i < j) { w.push_back(v[i++]); if (i < j) w.push_back(v[--j]); }
            v.swap(w);
            break;
        }
        case 4: {
            name = "block-shuffled";
            const size_t bs = 1 + r.below(std::max<size_t>(1, v.size() / 3));
            std::vector<size_t> starts;
            for (size_t s = 0; s < v.size(); s += bs) starts.push_back(s);
            r.shuffle(starts);
            std::vector<std::pair<uint64_t, Val>> w;
            w.reserve(v.size());
            for (size_t s : starts) for (size_t i = s; i < std::min(v.size(), s + bs); ++i) w.push_back(v[i]);
            v.swap(w);
            break;
        }
        default: {
            name = "ascending-with-swaps";
            if (v.size() >= 2) {
                const size_t k = 1 + r.below(3);
                for (size_t t = 0; t < k; ++t) std::swap(v[r.below(v.size())], v[r.below(v.size())]);
                if (r.coin()) std::swap(v[v.size() - 1], v[v.size() - 2]);
            }
            break;
        }
    }
}

Hist gen_std(vh::Rng& r) {
    static const Universe US[] = {
        {"tiny<300", 300, true},
        {"blocks<3*2^16", 3 * 65536 + 5, true},
        {"mib<2^20+2^18", (1ULL << 20) + (1ULL << 18), true},
        {"window<3*1310720", 3 * WINDOW + 100, true},
        {"large<2^23", 1ULL << 23, true},
        {"s32<2^33", (1ULL << 33) - 1, false},
        {"huge<2^63", 1ULL << 63, false},
    };
    static const unsigned W[] = {10, 27, 15, 7, 2, 15, 24};
    Hist h;
    unsigned tot = 0;
    for (unsigned w : W) tot += w;
    unsigned x = static_cast<unsigned>(r.below(tot)), ui = 0;
    while (x >= W[ui]) { x -= W[ui]; ++ui; }
    h.uni = US[ui];
    if (ui == 4 && vh::thorough() && r.chance(1, 8)) h.uni = Universe{"large<2^25", 1ULL << 25, true};
    h.dense_ok = h.uni.dense_ok;
    size_t n;
    const unsigned c = static_cast<unsigned>(r.below(100));
    if (c < 2) n = 0;
    else if (c < 7) n = 1;
    else if (c < 37) n = 2 + r.below(39);
    else if (c < 84) n = 40 + r.below(1460);
    else n = 1500 + r.below(4500);
    n = std::min<uint64_t>(n, h.uni.limit * 3 / 4);
    std::unordered_set<uint64_t> seen;
    uint64_t last = 0;
    while (h.ops.size() < n) {
        const uint64_t id = pick_id(r, h.uni, last);
        last = id;
        if (!seen.insert(id).second) continue;
        h.ops.emplace_back(id, gen_val(r, false));
    }
    apply_order(h.ops, r, h.order);
    if (r.chance(1, 5) && n > 0) {
        const size_t k = 1 + r.below(2);
        for (size_t t = 0; t < k; ++t) {
            uint64_t sz;
            switch (r.below(4)) {
                case 0: sz = n; break;
                case 1: sz = (1ULL << 20) + r.below(3); break;
                case 2: sz = r.below(3000000); break;
                default: sz = 1 + r.below(5000); break;
            }
            h.reserves.emplace_back(r.below(n), sz);
        }
        std::sort(h.reserves.begin(), h.reserves.end());
    }
    h.main_n = h.ops.size();
    return h;
}

// histories around FlexMem's switch (threshold T entries, density factor 3)
Hist gen_flex(vh::Rng& r, uint64_t T) {
    Hist h;
    size_t n;
    switch (r.below(4)) {
        case 0: n = T - 6 + r.below(12); break;               // right at the threshold
        case 1: n = T + r.below(T); break;
        default: n = T * 3 / 4 + r.below(T * 3); break;
    }
    static const double F[] = {1.0, 1.0, 1.5, 2.0, 2.9, 3.0, 3.1, 4.0};
    const double f = r.pick(F);
    const uint64_t range = std::max<uint64_t>(n, static_cast<uint64_t>(static_cast<double>(n) * f));
    const uint64_t base = r.chance(1, 3) ? r.below(200) : 0;
    std::unordered_set<uint64_t> seen;
    if (range == n) {
        for (uint64_t i = 0; i < n; ++i) { h.ops.emplace_back(base + i, gen_val(r, false)); seen.insert(base + i); }
    } else {
        while (h.ops.size() < n) {
            const uint64_t id = base + r.below(range);
            if (!seen.insert(id).second) continue;
            h.ops.emplace_back(id, gen_val(r, false));
        }
    }
    static const int ORD[] = {0, 0, 0, 0, 2, 1, 4, 4, 5, 5, 3};
    apply_order(h.ops, r, h.order, r.pick(ORD));
    h.main_n = h.ops.size();
    // tail: insertions after the (possible) switch
    const bool far = r.chance(1, 4);
    h.dense_ok = !far;
    static const uint64_t LIM[] = {(1ULL << 17) + 10, (1ULL << 18) + 10, (1ULL << 20) + 70000, 1ULL << 21};
    h.uni = Universe{far ? "flex+far-tail" : "flex", far ? (1ULL << 32) + 70000 : r.pick(LIM), !far};
    const size_t m = r.below(300);
    const uint64_t top = base + range;
    size_t far_used = 0;
    for (size_t t = 0; t < m;) {
        uint64_t id;
        switch (r.below(6)) {
            case 0: id = r.below(top); break;                                          // hole in an existing block
            case 1: id = top + r.below(top + 1); break;                                // next blocks
            case 2: id = 65536 * (1 + r.below(12)) + static_cast<uint64_t>(r.range(-2, 2)); break;
            case 3: id = r.below(h.uni.dense_ok ? h.uni.limit : (1ULL << 22)); break;
            case 4:
                if (far && far_used < 12) { ++far_used; id = r.coin() ? (1ULL << 32) + static_cast<uint64_t>(r.range(-2, 2)) + 65536 * r.below(2) : (1ULL << 22) + r.below(1ULL << 30); break; }
                id = r.below(2 * top + 10); break;
            default: id = r.below(2 * top + 10); break;
        }
        if (id >= h.uni.limit) continue;
        if (!seen.insert(id).second) { ++t; continue; }
        h.ops.emplace_back(id, gen_val(r, false));
        ++t;
    }
    return h;
}

bool is_prime(uint64_t n) {
    if (n < 2) return false;
    for (uint64_t d = 2; d * d <= n; ++d) if (n % d == 0) return false;
    return true;
}

// more than 1 Mi (2 Mi) entries: the mmap vectors have to grow (increment 1 Mi
// elements: capacity 1 Mi -> 2 Mi + 1 -> 3 Mi + 2 ...)
Hist gen_growth(uint64_t index, vh::Rng& r) {
    static const uint64_t NS[] = {(1ULL << 20) + 1, (1ULL << 20) + 2, (1ULL << 20) - 1, 1ULL << 20, (2ULL << 20) + 2,
                                  (2ULL << 20) + 3, (2ULL << 20) + 1, (1ULL << 20) + 4097};
    Hist h;
    const uint64_t n = NS[index % 8] + (index >= 8 ? r.below(50000) : 0);
    uint64_t p = n * 2 + r.below(n / 4);
    while (!is_prime(p)) ++p;
    h.uni = Universe{"growth", p, true};
    h.dense_ok = true;
    const uint64_t a = 1 + r.below(p - 1), b = r.below(p);
    const uint64_t salt = r.next();
    h.ops.reserve(n);
    for (uint64_t i = 0; i < n; ++i) {
        const uint64_t id = static_cast<uint64_t>((static_cast<unsigned __int128>(a) * i + b) % p);   // bijection on [0,p)
        h.ops.emplace_back(id, val_of(id, salt));
    }
    static const int ORD[] = {2, 0, 1, 2, 5, 2};
    const int o = r.pick(ORD);
    if (o == 2) h.order = "shuffled(affine permutation)";
    else apply_order(h.ops, r, h.order, o);
    if (r.chance(1, 4)) h.reserves.emplace_back(r.below(n), n);
    h.main_n = n;
    return h;
}

// ------------------------------------------------------------ probes

// Probe list: the special ids (boundaries, ids above the maximum, constants)
// come first, then the bulk (inserted ids and their neighbours, random ids) in
// shuffled order. get() on an absent id throws, which is slow under ASan, so
// check_map() calls get() for the first MAX_ABSENT_GET absent ids only (the
// specials are among them); get_noexcept() is called for every probe.
std::vector<uint64_t> gen_probes(const Hist& h, const Model& model, vh::Rng& r) {
    std::vector<uint64_t> p, sp;
    const size_t n = h.ops.size();
    auto add3to = [](std::vector<uint64_t>& v, uint64_t id) {
        v.push_back(id);
        if (id > 0) v.push_back(id - 1);
        if (id < std::numeric_limits<uint64_t>::max()) v.push_back(id + 1);
    };
    auto add3 = [&](uint64_t id) { add3to(p, id); };
    if (n <= 20000) {
        for (const auto& op : h.ops) add3(op.first);
    } else {
        const size_t sample = n > 200000 ? 60000 : 2500;
        for (size_t i = 0; i < sample; ++i) add3(h.ops[r.below(n)].first);
        for (size_t i = 0; i < 20 && i < n; ++i) { add3(h.ops[i].first); add3(h.ops[n - 1 - i].first); }
        // entries whose *position* in the insertion order is near a growth step / the switch threshold
        static const uint64_t POS[] = {4095, 4096, 1ULL << 16, 1ULL << 20, (2ULL << 20) + 1, (3ULL << 20) + 2};
        for (uint64_t q : POS) for (int d = -3; d <= 3; ++d) {
            const int64_t pos = static_cast<int64_t>(q) + d;
            if (pos >= 0 && static_cast<uint64_t>(pos) < n) add3to(sp, h.ops[static_cast<size_t>(pos)].first);
        }
        if (h.main_n > 0 && h.main_n <= n) for (size_t i = h.main_n > 5 ? h.main_n - 5 : 0; i < std::min(n, h.main_n + 5); ++i) add3to(sp, h.ops[i].first);
    }
    if (!model.empty()) {
        const uint64_t mn = model.begin()->first, mx = model.rbegin()->first;
        add3to(sp, mn); add3to(sp, mx);
        for (uint64_t d : {uint64_t{2}, uint64_t{65535}, uint64_t{65536}, uint64_t{1} << 20, WINDOW, uint64_t{1} << 21})
            if (mx <= std::numeric_limits<uint64_t>::max() - d) sp.push_back(mx + d);
        // block / growth / window boundaries inside and just above the used range
        for (uint64_t step : {uint64_t{1} << 16, uint64_t{1} << 20, WINDOW}) {
            const uint64_t kmax = mx / step + 1;
            for (int t = 0; t < 6; ++t) {
                const uint64_t k = (t == 0) ? kmax : (t == 1 ? (kmax > 0 ? kmax - 1 : 0) : r.below(kmax + 1));
                if (k > (std::numeric_limits<uint64_t>::max() - 2) / step) continue;
                add3to(sp, k * step);
            }
        }
    }
    for (uint64_t id : {uint64_t{0}, uint64_t{1}, uint64_t{65535}, uint64_t{65536}, (uint64_t{1} << 20) - 1, uint64_t{1} << 20, WINDOW - 1, WINDOW,
                        uint64_t{1} << 32, uint64_t{1} << 40, (uint64_t{1} << 63) - 1, uint64_t{1} << 63, std::numeric_limits<uint64_t>::max()})
        sp.push_back(id);
    for (int i = 0; i < 40; ++i) p.push_back(r.below(h.uni.limit ? h.uni.limit : 1000));
    for (int i = 0; i < 10; ++i) p.push_back(r.next());
    std::sort(sp.begin(), sp.end());
    sp.erase(std::unique(sp.begin(), sp.end()), sp.end());
    r.shuffle(sp);
    std::sort(p.begin(), p.end());
    p.erase(std::unique(p.begin(), p.end()), p.end());
    r.shuffle(p);
    sp.insert(sp.end(), p.begin(), p.end());
    return sp;
}

const char* id_class(uint64_t id, const Model& m) {
    if (m.empty()) return "empty map";
    if (id == m.rbegin()->first) return "largest inserted id";
    if (id == m.begin()->first) return "smallest inserted id";
    if (id > m.rbegin()->first) return "id above the largest inserted id";
    if ((id & 0xffff) == 0 || (id & 0xffff) == 0xffff) return "id at a 2^16 block edge";
    return "other id";
}

// ------------------------------------------------------------ the comparison

constexpr uint64_t MAX_ABSENT_GET = 300;

// `who` names implementation + stage and becomes part of the key.
void check_map(const std::string& who, const MapT& map, const Model& model, const std::vector<uint64_t>& probes) {
    uint64_t found = 0, notfound = 0, absent_get = 0, gets = 0;
    for (const uint64_t id : probes) {
        const auto it = model.find(id);
        const bool present = it != model.end();
        // get()
        const bool do_get = present || absent_get < MAX_ABSENT_GET;
        bool thrown = false, other = false;
        Loc v;
        std::string what;
        if (do_get) {
            ++gets;
            if (!present) ++absent_get;
            try {
                v = map.get(id);
            } catch (const osmium::not_found&) {
                thrown = true;
            } catch (const std::exception& e) {
                other = true;
                what = e.what();
            }
        }
        if (!do_get) {
            // get_noexcept() only
        } else if (other) {
            vh::violation(who + ": get() throws something else than osmium::not_found", vh::fmt("id=%" PRIu64 " what=%s", id, what.c_str()));
        } else if (present && thrown) {
            vh::violation(who + ": get() reports not_found for an inserted id (" + id_class(id, model) + ")",
                          vh::fmt("id=%" PRIu64 " expected=%s n=%zu", id, sval(it->second).c_str(), model.size()));
        } else if (present && (v.x() != it->second.x || v.y() != it->second.y)) {
            vh::violation(who + ": get() returns a wrong value for an inserted id (" + id_class(id, model) + ")",
                          vh::fmt("id=%" PRIu64 " expected=%s got=%s n=%zu", id, sval(it->second).c_str(), sloc(v).c_str(), model.size()));
        } else if (!present && !thrown) {
            vh::violation(who + ": get() returns a value for an id that was never inserted (" + id_class(id, model) + ")",
                          vh::fmt("id=%" PRIu64 " got=%s n=%zu", id, sloc(v).c_str(), model.size()));
        }
        // get_noexcept()
        const Loc w = map.get_noexcept(id);
        if (present && (w.x() != it->second.x || w.y() != it->second.y)) {
            vh::violation(who + ((w.x() == UNDEF && w.y() == UNDEF) ? ": get_noexcept() returns the empty value for an inserted id ("
                                                                     : ": get_noexcept() returns a wrong value for an inserted id (") + id_class(id, model) + ")",
                          vh::fmt("id=%" PRIu64 " expected=%s got=%s n=%zu", id, sval(it->second).c_str(), sloc(w).c_str(), model.size()));
        } else if (!present && !(w.x() == UNDEF && w.y() == UNDEF)) {
            vh::violation(who + ": get_noexcept() returns a value for an id that was never inserted (" + id_class(id, model) + ")",
                          vh::fmt("id=%" PRIu64 " got=%s n=%zu", id, sloc(w).c_str(), model.size()));
        }
        present ? ++found : ++notfound;
    }
    vh::count("lookups_inserted_ids", found * 2);
    vh::count("lookups_absent_ids", notfound + absent_get);
    vh::count("get_calls", gets);
    vh::count("get_noexcept_calls", found + notfound);
}

std::string flex_state(const MapT* m) {
    const auto* f = dynamic_cast<const FlexT*>(m);
    if (!f) return "";
    return f->is_dense() ? "(dense mode)" : "(sparse mode)";
}

// ------------------------------------------------------------ raw dump parsers

bool read_file(const std::string& path, std::vector<unsigned char>& data) {
    const int fd = ::open(path.c_str(), O_RDONLY);
    if (fd < 0) return false;
    struct stat st;
    if (::fstat(fd, &st) != 0) { ::close(fd); return false; }
    data.resize(static_cast<size_t>(st.st_size));
    size_t off = 0;
    while (off < data.size()) {
        const ssize_t n = ::read(fd, data.data() + off, data.size() - off);
        if (n <= 0) { ::close(fd); return false; }
        off += static_cast<size_t>(n);
    }
    ::close(fd);
    return true;
}

template <typename T> T rd(const unsigned char* p) { T v; std::memcpy(&v, p, sizeof(T)); return v; }

// array dump: record k (8 bytes: int32 x, int32 y) is the value of id k, the
// empty value means "no entry"
void check_raw_array(const std::string& who, const std::vector<unsigned char>& d, const Model& model) {
    if (d.size() % 8 != 0) { vh::violation(who + ": array dump size is not a multiple of 8", vh::fmt("size=%zu", d.size())); return; }
    const uint64_t nrec = d.size() / 8;
    auto it = model.begin();
    uint64_t bad = 0;
    for (uint64_t k = 0; k < nrec && bad < 3; ++k) {
        const Val v{rd<int32_t>(&d[k * 8]), rd<int32_t>(&d[k * 8 + 4])};
        if (it != model.end() && it->first == k) {
            if (v != it->second) {
                ++bad;
                vh::violation(who + ((v.x == UNDEF && v.y == UNDEF) ? ": array dump has no value at the index of an inserted id (" : ": array dump has a wrong value at the index of an inserted id (") + id_class(k, model) + ")",
                              vh::fmt("id=%" PRIu64 " expected=%s got=%s records=%" PRIu64, k, sval(it->second).c_str(), sval(v).c_str(), nrec));
            }
            ++it;
        } else if (!(v.x == UNDEF && v.y == UNDEF)) {
            ++bad;
            vh::violation(who + ": array dump has a value at the index of a never inserted id (" + id_class(k, model) + ")",
                          vh::fmt("id=%" PRIu64 " got=%s records=%" PRIu64, k, sval(v).c_str(), nrec));
        }
    }
    if (bad == 0 && it != model.end()) {
        vh::violation(who + ": array dump ends before the index of an inserted id (" + id_class(it->first, model) + ")",
                      vh::fmt("id=%" PRIu64 " records=%" PRIu64, it->first, nrec));
    }
    vh::count("raw_array_records", nrec);
}

// list dump: 16 byte records (uint64 id, int32 x, int32 y) sorted by id;
// trailing records equal to the empty pair (0, empty) carry no entry
void check_raw_list(const std::string& who, const std::vector<unsigned char>& d, const Model& model) {
    if (d.size() % 16 != 0) { vh::violation(who + ": list dump size is not a multiple of 16", vh::fmt("size=%zu", d.size())); return; }
    uint64_t nrec = d.size() / 16;
    while (nrec > 0 && rd<uint64_t>(&d[(nrec - 1) * 16]) == 0 && rd<int32_t>(&d[(nrec - 1) * 16 + 8]) == UNDEF && rd<int32_t>(&d[(nrec - 1) * 16 + 12]) == UNDEF) --nrec;
    auto it = model.begin();
    uint64_t prev = 0;
    for (uint64_t k = 0; k < nrec; ++k) {
        const uint64_t id = rd<uint64_t>(&d[k * 16]);
        const Val v{rd<int32_t>(&d[k * 16 + 8]), rd<int32_t>(&d[k * 16 + 12])};
        if (k > 0 && id <= prev) {
            vh::violation(who + ": list dump is not strictly sorted by id", vh::fmt("record %" PRIu64 ": id=%" PRIu64 " after id=%" PRIu64, k, id, prev));
            return;
        }
        prev = id;
        if (it == model.end() || id < it->first) {
            vh::violation(who + ": list dump contains an id that was never inserted", vh::fmt("record %" PRIu64 ": id=%" PRIu64 " value=%s", k, id, sval(v).c_str()));
            return;
        }
        if (id > it->first) {
            vh::violation(who + ": list dump lacks an inserted id (" + id_class(it->first, model) + ")", vh::fmt("id=%" PRIu64 " (record %" PRIu64 " has id=%" PRIu64 ")", it->first, k, id));
            return;
        }
        if (v != it->second) {
            vh::violation(who + ": list dump has a wrong value for an inserted id", vh::fmt("id=%" PRIu64 " expected=%s got=%s", id, sval(it->second).c_str(), sval(v).c_str()));
            return;
        }
        ++it;
    }
    if (it != model.end()) {
        vh::violation(who + ": list dump lacks an inserted id (" + id_class(it->first, model) + ")", vh::fmt("id=%" PRIu64 " records=%" PRIu64, it->first, nrec));
    }
    vh::count("raw_list_records", nrec);
}

// ------------------------------------------------------------ dump + reload

void dump_and_reload(Inst& src, bool as_list, const Model& model, const std::vector<uint64_t>& probes, const Hist& h, vh::Rng& r) {
    const std::string how = as_list ? "dump_as_list" : "dump_as_array";
    const std::string who = src.type + flex_state(src.map.get()) + " " + how;
    const std::string path = new_path("dump");
    const int fd = ::open(path.c_str(), O_RDWR | O_CREAT | O_TRUNC, 0644);
    if (fd < 0) throw std::runtime_error{"harness: cannot create " + path};
    bool ok = false;
    try {
        if (as_list) src.map->dump_as_list(fd); else src.map->dump_as_array(fd);
        ok = true;
    } catch (const std::runtime_error& e) {
        if (std::strncmp(e.what(), "can't dump", 10) == 0) vh::count("dump_not_offered_by_type(not judged)");
        else vh::violation(who + ": throws", e.what());
    }
    ::close(fd);
    if (!ok) { ::unlink(path.c_str()); return; }
    vh::cover(how + "_from", src.type);
    {
        std::vector<unsigned char> data;
        if (!read_file(path, data)) throw std::runtime_error{"harness: cannot read back " + path};
        if (as_list) { check_raw_list(who + " (raw file)", data, model); vh::count("dump_list_raw_checked"); }
        else { check_raw_array(who + " (raw file)", data, model); vh::count("dump_array_raw_checked"); }
    }
    // reload through the file based type of that format
    const bool via_fd = r.coin();
    std::unique_ptr<Inst> re;
    try {
        re = via_fd ? make_inst_fd(!as_list, path) : make_inst(as_list ? "sparse_file_array" : "dense_file_array", path);
    } catch (const std::exception& e) {
        vh::violation(who + ": reload through " + (as_list ? "sparse_file_array" : "dense_file_array") + " throws", e.what());
        ::unlink(path.c_str());
        return;
    }
    vh::count(via_fd ? "reload_via_fd_constructor" : "reload_via_factory_filename");
    const std::string rwho = who + " reloaded as " + re->type;
    check_map(rwho, *re->map, model, probes);
    vh::count(as_list ? "dump_list_reloaded" : "dump_array_reloaded");
    // a reloaded index continues to work as a map: more distinct ids, sort, look up
    if (r.chance(1, 3)) {
        Model m2 = model;
        std::vector<uint64_t> p2 = probes;
        const size_t extra = 1 + r.below(40);
        uint64_t last = 0;
        for (size_t i = 0; i < extra; ++i) {
            const uint64_t id = pick_id(r, h.uni, last);
            last = id;
            if (m2.count(id)) continue;
            const Val v = gen_val(r, false);
            m2[id] = v;
            re->map->set(id, Loc{v.x, v.y});
            p2.push_back(id);
            if (id > 0) p2.push_back(id - 1);
            p2.push_back(id + 1);
        }
        re->map->sort();
        check_map(rwho + ", then extended", *re->map, m2, p2);
        vh::count("reloaded_then_extended");
    }
    re->map->clear();
    re.reset();   // unlinks the dump file
}

// ------------------------------------------------------------ mode maps

std::string g_profile = "std";
uint64_t g_flex_threshold = 0xffffff;

void case_maps(uint64_t index, vh::Rng& rng) {
    Hist h = g_profile == "flex" ? gen_flex(rng, g_flex_threshold) : g_profile == "growth" ? gen_growth(index, rng) : gen_std(rng);
    Model model;
    uint64_t hh = vh::hash_str(g_profile);
    for (const auto& op : h.ops) {
        model.emplace(op.first, op.second);
        hh = vh::hash_u64(op.first * 0x9e3779b97f4a7c15ULL + static_cast<uint32_t>(op.second.x) * 31ULL + static_cast<uint32_t>(op.second.y), hh);
    }
    if (model.size() != h.ops.size()) throw std::runtime_error{"harness: generated ids are not distinct"};
    h.max_id = model.empty() ? 0 : model.rbegin()->first;
    vh::set_case_desc("maps/%s universe=%s n=%zu order=%s max_id=%" PRIu64 " reserves=%zu", g_profile.c_str(), h.uni.name, h.ops.size(), h.order.c_str(), h.max_id, h.reserves.size());
    vh::cover("universe", h.uni.name);
    vh::cover("order", h.order);
    const std::vector<std::string>& types = h.dense_ok ? ALL_TYPES : SPARSE_TYPES;

    std::vector<std::unique_ptr<Inst>> insts;
    for (const auto& t : types) insts.push_back(make_inst(t, is_file_type(t) ? new_path("idx") : ""));

    for (auto& inst : insts) {
        size_t ri = 0;
        const auto* flex = dynamic_cast<const FlexT*>(inst->map.get());
        bool was_dense = false;
        for (size_t i = 0; i < h.ops.size(); ++i) {
            while (ri < h.reserves.size() && h.reserves[ri].first == i) { inst->map->reserve(h.reserves[ri].second); ++ri; vh::count("reserve_calls"); }
            inst->map->set(h.ops[i].first, Loc{h.ops[i].second.x, h.ops[i].second.y});
            if (flex && !was_dense && flex->is_dense()) {
                was_dense = true;
                vh::count("flex_switched_during_history");
                vh::cover("flex_switch_at_insertion", i + 1 == g_flex_threshold ? "exactly at the threshold" : (i + 1 < h.main_n ? "inside the main part" : (i + 1 == h.main_n ? "last of the main part" : "in the tail")));
                if (i + 1 < h.ops.size()) vh::count("flex_insertions_after_switch", h.ops.size() - i - 1);
            }
        }
        if (flex) vh::count(flex->is_dense() ? "flex_dense_at_end" : "flex_sparse_at_end");
        vh::count("insertions", h.ops.size());
        vh::heartbeat();
    }
    for (auto& inst : insts) inst->map->sort();

    const std::vector<uint64_t> probes = gen_probes(h, model, rng);
    for (auto& inst : insts) {
        check_map(inst->type + flex_state(inst->map.get()), *inst->map, model, probes);
        vh::count("maps_compared_with_model");
        (void)inst->map->size();
        (void)inst->map->used_memory();
        vh::count("size_used_memory_calls(not judged)");
        vh::heartbeat();
    }
    if (h.ops.size() > (1ULL << 20)) { vh::count("histories_over_1Mi_entries"); if (h.ops.size() > (2ULL << 20) + 1) vh::count("histories_over_2Mi_entries"); }
    if (h.max_id >= (1ULL << 20) && h.dense_ok) vh::count("dense_histories_beyond_1Mi_ids");
    if (h.max_id >= (1ULL << 40)) vh::count("histories_with_huge_ids");
    if (model.empty()) vh::count("empty_histories");

    // dumps: every (type, format) with probability 1/3, at least one of each format
    const bool big = g_profile == "growth";
    std::vector<std::pair<size_t, bool>> dumps;
    for (size_t i = 0; i < insts.size(); ++i) {
        if (insts[i]->type == "flex_mem") continue;   // offers no dump; asked once in a while below
        for (bool as_list : {true, false}) {
            if (as_list && is_dense_type(insts[i]->type)) continue;
            if (!as_list && insts[i]->type == "sparse_mem_map") continue;
            if (!as_list && !h.dense_ok) { vh::count("array_dump_skipped_for_huge_ids"); continue; }
            if (rng.chance(1, big ? 6 : ((!as_list && h.uni.limit > (1ULL << 20)) ? 6 : 3))) dumps.emplace_back(i, as_list);
        }
    }
    if (dumps.empty() || rng.chance(1, 2)) {
        // one guaranteed list dump from a sparse type (and an array dump if possible)
        std::vector<size_t> sp;
        for (size_t i = 0; i < insts.size(); ++i) if (insts[i]->type.rfind("sparse_", 0) == 0) sp.push_back(i);
        dumps.emplace_back(rng.pick(sp), true);
        if (h.dense_ok) { std::vector<size_t> ar; for (size_t i = 0; i < insts.size(); ++i) if (insts[i]->type != "flex_mem" && insts[i]->type != "sparse_mem_map") ar.push_back(i); dumps.emplace_back(rng.pick(ar), false); }
    }
    if (rng.chance(1, 10)) for (size_t i = 0; i < insts.size(); ++i) if (insts[i]->type == "flex_mem" || insts[i]->type == "sparse_mem_map" || insts[i]->type == "dense_mem_array") dumps.emplace_back(i, insts[i]->type != "sparse_mem_map");
    for (const auto& d : dumps) {
        dump_and_reload(*insts[d.first], d.second, model, probes, h, rng);
        vh::heartbeat();
    }

    // the file based types keep their data in the named file: reopen it
    for (auto& inst : insts) {
        if (!is_file_type(inst->type) || !rng.chance(1, big ? 4 : 2)) continue;
        const std::string type = inst->type, path = inst->path;
        inst->destroy(true);
        inst->path.clear();
        std::unique_ptr<Inst> re;
        try {
            re = rng.coin() ? make_inst(type, path) : make_inst_fd(is_dense_type(type), path);
        } catch (const std::exception& e) {
            vh::violation(type + ": reopening the backing file throws", e.what());
            ::unlink(path.c_str());
            continue;
        }
        check_map(type + " reopened from its backing file", *re->map, model, probes);
        vh::count("backing_file_reopened");
    }
    for (auto& inst : insts) if (inst->map) { inst->map->clear(); vh::count("clear_calls(not judged)"); }
    insts.clear();

    vh::evaluated();
    vh::distinct(hh);
    if (vh::st().samples.size() < 3 && !h.ops.empty())
        vh::sample_str(vh::fmt("maps/%s: universe %s, %zu ids in %s order (first id %" PRIu64 " -> %s), %zu types, %zu probes, %zu dumps", g_profile.c_str(), h.uni.name,
                               h.ops.size(), h.order.c_str(), h.ops[0].first, sval(h.ops[0].second).c_str(), types.size(), probes.size(), dumps.size()));
}

// ------------------------------------------------------------ mode flexbig

// More than 2^24 entries: std::map would need gigabytes, so the model is a
// bitmap of inserted ids plus the value function val_of(id, salt).
void case_flexbig(uint64_t index, vh::Rng& rng) {
    const uint64_t T = 0xffffff;
    const unsigned pattern = static_cast<unsigned>(index % 6);
    static const char* const PN[] = {"ascending i", "ascending 2i", "window-shuffled", "descending (switch only by a larger id in the tail)", "3i+3 (density just too low)", "3i (density just enough)"};
    uint64_t N, span;
    const uint64_t salt = rng.next();
    const uint64_t W = 1ULL << 18;
    const uint64_t wa = (rng.below(W) | 1), wb = rng.below(W);
    switch (pattern) {
        case 0: N = T + 1 + 70000; span = N; break;
        case 1: N = T + 66000; span = 2 * N; break;
        case 2: N = ((T + W + 5) / W + 1) * W; span = N; break;
        case 3: N = T + 1000; span = N; break;
        case 4: N = T + 5000; span = 3 * N + 4; break;
        default: N = T + 5000; span = 3 * N; break;
    }
    auto id_at = [&](uint64_t i) -> uint64_t {
        switch (pattern) {
            case 0: return i;
            case 1: return 2 * i;
            case 2: return (i / W) * W + ((wa * (i % W) + wb) % W);
            case 3: return N - 1 - i;
            case 4: return 3 * i + 3;
            default: return 3 * i;
        }
    };
    vh::set_case_desc("flexbig pattern=%s N=%" PRIu64, PN[pattern], N);
    const uint64_t slack = (1ULL << 20) + 70000;
    std::vector<bool> present(span + slack + 2, false);
    const bool companions = span <= (1ULL << 25);
    std::vector<std::unique_ptr<Inst>> insts;
    insts.push_back(make_inst("flex_mem", ""));
    if (companions) { insts.push_back(make_inst("sparse_mmap_array", "")); insts.push_back(make_inst("dense_mmap_array", "")); }
    const auto* flex = dynamic_cast<const FlexT*>(insts[0]->map.get());
    uint64_t switched_at = 0;
    for (uint64_t i = 0; i < N; ++i) {
        const uint64_t id = id_at(i);
        const Val v = val_of(id, salt);
        if (present[id]) throw std::runtime_error{"harness: flexbig ids not distinct"};
        present[id] = true;
        for (auto& inst : insts) inst->map->set(id, Loc{v.x, v.y});
        if (!switched_at && flex->is_dense()) switched_at = i + 1;
        if ((i & 0xfffff) == 0) vh::heartbeat();
    }
    // tail: 3000 more ids anywhere below span + 2^20 (holes in used blocks, new blocks)
    uint64_t tail = 0;
    while (tail < 3000) {
        const uint64_t id = rng.below(span + (1ULL << 20));
        if (present[id]) continue;
        present[id] = true;
        const Val v = val_of(id, salt);
        for (auto& inst : insts) inst->map->set(id, Loc{v.x, v.y});
        ++tail;
        if (!switched_at && flex->is_dense()) switched_at = N + tail;
    }
    vh::count("insertions", (N + tail) * insts.size());
    vh::count_max("max_entries_in_one_map", N + tail);
    if (switched_at) { vh::count("flexbig_switched"); vh::cover("flexbig_switch_at_entry", vh::fmt("%s: %" PRIu64, PN[pattern], switched_at)); }
    else { vh::count("flexbig_stayed_sparse"); vh::cover("flexbig_switch_at_entry", vh::fmt("%s: never", PN[pattern])); }
    vh::count(flex->is_dense() ? "flex_dense_at_end" : "flex_sparse_at_end");
    vh::heartbeat();
    for (auto& inst : insts) { inst->map->sort(); vh::heartbeat(); }
    for (auto& inst : insts) {
        const std::string who = inst->type + flex_state(inst->map.get()) + " with more than 2^24 entries";
        uint64_t bad = 0, found = 0, absent = 0;
        for (uint64_t id = 0; id < present.size() && bad < 5; ++id) {
            const Loc w = inst->map->get_noexcept(id);
            if (present[id]) {
                const Val v = val_of(id, salt);
                ++found;
                if (w.x() != v.x || w.y() != v.y) {
                    ++bad;
                    vh::violation(who + ((w.x() == UNDEF && w.y() == UNDEF) ? ": get_noexcept() returns the empty value for an inserted id" : ": get_noexcept() returns a wrong value for an inserted id"),
                                  vh::fmt("pattern=%s id=%" PRIu64 " expected=%s got=%s switched_at=%" PRIu64, PN[pattern], id, sval(v).c_str(), sloc(w).c_str(), switched_at));
                }
            } else {
                ++absent;
                if (!(w.x() == UNDEF && w.y() == UNDEF)) {
                    ++bad;
                    vh::violation(who + ": get_noexcept() returns a value for an id that was never inserted", vh::fmt("pattern=%s id=%" PRIu64 " got=%s switched_at=%" PRIu64, PN[pattern], id, sloc(w).c_str(), switched_at));
                }
            }
            if ((id & 0x3fffff) == 0) vh::heartbeat();
        }
        vh::count("lookups_inserted_ids", found);
        vh::count("lookups_absent_ids", absent);
        // get() on a sample (exceptions are slow)
        uint64_t g_found = 0, g_absent = 0;
        for (int s = 0; s < 300000; ++s) {
            uint64_t id;
            switch (rng.below(4)) {
                case 0: id = id_at(rng.below(N)); break;
                case 1: id = id_at(T - 4 + rng.below(8)) + rng.below(2); break;
                case 2: id = rng.below(present.size() + 100000); break;
                default: id = (rng.below(present.size()) & ~uint64_t{0xffff}) + static_cast<uint64_t>(rng.range(-1, 1)); break;
            }
            const bool p = id < present.size() && present[id];
            if (!p && g_absent > 40000) continue;
            try {
                const Loc w = inst->map->get(id);
                const Val v = val_of(id, salt);
                if (!p) vh::violation(who + ": get() returns a value for an id that was never inserted", vh::fmt("pattern=%s id=%" PRIu64 " got=%s", PN[pattern], id, sloc(w).c_str()));
                else if (w.x() != v.x || w.y() != v.y) vh::violation(who + ": get() returns a wrong value for an inserted id", vh::fmt("pattern=%s id=%" PRIu64 " expected=%s got=%s", PN[pattern], id, sval(v).c_str(), sloc(w).c_str()));
                ++g_found;
            } catch (const osmium::not_found&) {
                if (p) vh::violation(who + ": get() reports not_found for an inserted id", vh::fmt("pattern=%s id=%" PRIu64 " switched_at=%" PRIu64, PN[pattern], id, switched_at));
                ++g_absent;
            }
        }
        vh::count("lookups_inserted_ids", g_found);
        vh::count("lookups_absent_ids", g_absent);
        vh::count("maps_compared_with_model");
        (void)inst->map->size();
        (void)inst->map->used_memory();
        inst->map->clear();
        inst.reset();
        vh::heartbeat();
    }
    vh::evaluated();
    vh::count("distinct_by_construction");
    vh::sample_str(vh::fmt("flexbig: %s, %" PRIu64 " insertions + %" PRIu64 " tail, switch at entry %" PRIu64 " (0 = never), companions=%d", PN[pattern], N, tail, switched_at, companions));
}

// ------------------------------------------------------------ mode nlfw

using Handler = osmium::handler::NodeLocationsForWays<MapT, MapT>;

struct StreamItem {
    bool is_node;
    int64_t id;               // node id / way id
    Val loc;                  // node
    std::vector<int64_t> refs; // way
};

uint64_t pick_abs(vh::Rng& r, uint64_t limit, uint64_t last) {
    const Universe u{"", limit, limit <= (1ULL << 33)};
    uint64_t v = pick_id(r, u, last);
    if (r.chance(1, 3)) v = r.below(std::min<uint64_t>(limit, 5000));   // small ids collide between the signs more often
    return v;
}

void case_nlfw(uint64_t /*index*/, vh::Rng& rng) {
    const bool flexp = g_profile == "flex";
    std::string pos_type = rng.pick(ALL_TYPES), neg_type = rng.pick(ALL_TYPES);
    if (flexp) { if (rng.coin()) pos_type = "flex_mem"; else neg_type = "flex_mem"; if (rng.chance(1, 3)) pos_type = neg_type = "flex_mem"; }
    static const uint64_t DL[] = {1ULL << 17, (1ULL << 20) + 70000, 1ULL << 21, 3 * WINDOW};
    const uint64_t dl = rng.pick(DL);
    const bool flex_dense_budget = flexp;   // a FlexMem that switched to dense allocates per 2^16 block: keep ids moderate
    auto limit_for = [&](const std::string& t) -> uint64_t {
        if (is_dense_type(t)) return dl;
        if (t == "flex_mem" && flex_dense_budget) return 1ULL << 22;
        return rng.chance(1, 3) ? dl : (rng.coin() ? (1ULL << 33) - 1 : (1ULL << 62));
    };
    const uint64_t pos_limit = limit_for(pos_type), neg_limit = limit_for(neg_type);

    // node set
    size_t n;
    if (flexp) n = g_flex_threshold + rng.below(g_flex_threshold * 2);
    else {
        const unsigned c = static_cast<unsigned>(rng.below(100));
        n = c < 3 ? 0 : c < 8 ? 1 : c < 40 ? 2 + rng.below(40) : c < 90 ? 40 + rng.below(1000) : 1000 + rng.below(3000);
    }
    const unsigned sign_mode = static_cast<unsigned>(rng.below(10));   // 0,1 all positive; 2 all negative; else mixed
    std::map<int64_t, Val> model;
    std::vector<std::pair<int64_t, Val>> nodes;
    uint64_t last = 0;
    size_t guard = 0;
    const bool dense_ids = flexp;   // FlexMem only switches for dense id sets
    while (nodes.size() < n && ++guard < n * 20 + 100) {
        bool neg = sign_mode <= 1 ? false : sign_mode == 2 ? true : rng.coin();
        uint64_t a;
        if (dense_ids) a = rng.below(n * (1 + rng.below(2)) + 10);
        else a = pick_abs(rng, neg ? neg_limit : pos_limit, last);
        last = a;
        if (a >= (neg ? neg_limit : pos_limit)) continue;
        int64_t id = neg ? -static_cast<int64_t>(a) : static_cast<int64_t>(a);
        if (model.count(id)) continue;
        Val v = gen_val(rng, true);
        model[id] = v;
        nodes.emplace_back(id, v);
        // the mirrored id with another location (sign confusion must show)
        if (sign_mode > 2 && a != 0 && rng.chance(1, 3) && a < (neg ? pos_limit : neg_limit) && !model.count(-id) && nodes.size() < n) {
            Val v2 = gen_val(rng, true);
            if (v2 == v) v2.x = v.x == 5 ? 6 : 5;
            model[-id] = v2;
            nodes.emplace_back(-id, v2);
        }
    }
    // order of the node stream
    static const char* const ON[] = {"sorted by signed id", "sorted negative-then-positive by absolute value", "sorted by absolute value with interleaved signs",
                                     "reversed", "reversed by absolute value", "shuffled", "positive ascending then negative ascending", "sorted with the last two swapped",
                                     "sorted with the first two swapped"};
    const unsigned order = static_cast<unsigned>(rng.below(9));
    auto absv = [](int64_t v) { return v < 0 ? static_cast<uint64_t>(-v) : static_cast<uint64_t>(v); };
    auto by_abs = [&](const auto& a, const auto& b) { return absv(a.first) != absv(b.first) ? absv(a.first) < absv(b.first) : a.first > b.first; };
    switch (order) {
        case 0: std::sort(nodes.begin(), nodes.end(), [](const auto& a, const auto& b) { return a.first < b.first; }); break;
        case 1: std::sort(nodes.begin(), nodes.end(), [&](const auto& a, const auto& b) { return (a.first < 0) != (b.first < 0) ? a.first < 0 : absv(a.first) < absv(b.first); }); break;
        case 2: std::sort(nodes.begin(), nodes.end(), by_abs); break;
        case 3: std::sort(nodes.begin(), nodes.end(), [](const auto& a, const auto& b) { return a.first > b.first; }); break;
        case 4: std::sort(nodes.begin(), nodes.end(), by_abs); std::reverse(nodes.begin(), nodes.end()); break;
        case 5: rng.shuffle(nodes); break;
        case 6: std::sort(nodes.begin(), nodes.end(), [&](const auto& a, const auto& b) { return (a.first < 0) != (b.first < 0) ? b.first < 0 : absv(a.first) < absv(b.first); }); break;
        case 7: std::sort(nodes.begin(), nodes.end(), by_abs); if (nodes.size() >= 2) std::swap(nodes[nodes.size() - 1], nodes[nodes.size() - 2]); break;
        default: std::sort(nodes.begin(), nodes.end(), by_abs); if (nodes.size() >= 2) std::swap(nodes[0], nodes[1]); break;
    }
    // phases: nodes, ways [, more nodes, more ways]
    const bool two_phases = nodes.size() >= 4 && rng.chance(1, 5);
    const size_t split = two_phases ? 1 + rng.below(nodes.size() - 1) : nodes.size();
    const bool ignore = rng.chance(3, 10);

    std::vector<StreamItem> stream;
    std::vector<int64_t> avail;
    int64_t way_id = 1;
    auto gen_missing = [&](int64_t& out) -> bool {
        for (int t = 0; t < 20; ++t) {
            int64_t c;
            switch (rng.below(4)) {
                case 0: if (avail.empty()) continue; c = -rng.pick(avail); break;                          // other sign of an existing node
                case 1: if (avail.empty()) continue; c = rng.pick(avail) + (rng.coin() ? 1 : -1); break;  // neighbour
                case 2: c = static_cast<int64_t>(rng.below(70000)) * (rng.coin() ? 1 : -1); break;
                default: c = static_cast<int64_t>(rng.next() >> 2) * (rng.coin() ? 1 : -1); break;
            }
            // a *missing* ref may not be stored, not even later in the stream
            if (model.count(c)) continue;
            out = c;
            return true;
        }
        return false;
    };
    auto add_ways = [&](size_t count) {
        for (size_t w = 0; w < count; ++w) {
            StreamItem it{false, way_id++, Val{0, 0}, {}};
            size_t k = rng.chance(1, 25) ? 1500 + rng.below(1000) : rng.below(40);
            if (avail.empty()) k = std::min<size_t>(k, 3);
            const bool with_missing = rng.chance(1, 4) || avail.empty();
            for (size_t i = 0; i < k; ++i) {
                int64_t m;
                if ((avail.empty() || (with_missing && rng.chance(1, 8))) ) { if (gen_missing(m)) it.refs.push_back(m); }
                else it.refs.push_back(rng.pick(avail));
            }
            if (with_missing && !it.refs.empty() && rng.coin()) { int64_t m; if (gen_missing(m)) it.refs[rng.below(it.refs.size())] = m; }
            stream.push_back(std::move(it));
        }
    };
    for (size_t i = 0; i < split; ++i) { stream.push_back(StreamItem{true, nodes[i].first, nodes[i].second, {}}); avail.push_back(nodes[i].first); }
    add_ways(1 + rng.below(30));
    // every stored node is referenced at least once in a final sweep
    auto sweep = [&]() {
        std::vector<int64_t> all = avail;
        rng.shuffle(all);
        for (size_t s = 0; s < all.size(); s += 1800) {
            StreamItem it{false, way_id++, Val{0, 0}, {}};
            it.refs.assign(all.begin() + static_cast<std::ptrdiff_t>(s), all.begin() + static_cast<std::ptrdiff_t>(std::min(all.size(), s + 1800)));
            stream.push_back(std::move(it));
        }
    };
    if (!two_phases || rng.coin()) sweep();
    if (two_phases) {
        for (size_t i = split; i < nodes.size(); ++i) { stream.push_back(StreamItem{true, nodes[i].first, nodes[i].second, {}}); avail.push_back(nodes[i].first); }
        add_ways(1 + rng.below(20));
        sweep();
    }

    vh::set_case_desc("nlfw pos=%s neg=%s nodes=%zu order=%s phases=%d ignore_errors=%d ways=%" PRId64, pos_type.c_str(), neg_type.c_str(), nodes.size(), ON[order], two_phases ? 2 : 1, ignore, way_id - 1);
    vh::cover("nlfw_order", ON[order]);
    vh::cover("nlfw_pos_type", pos_type);
    vh::cover("nlfw_neg_type", neg_type);

    // build the objects
    osmium::memory::Buffer buf{1024UL * 1024UL, osmium::memory::Buffer::auto_grow::yes};
    uint64_t hh = vh::hash_str(pos_type + "/" + neg_type + "/" + ON[order]);
    for (const auto& it : stream) {
        if (it.is_node) {
            osmium::builder::NodeBuilder b{buf};
            b.set_id(it.id).set_location(Loc{it.loc.x, it.loc.y});
            hh = vh::hash_u64(static_cast<uint64_t>(it.id) * 1000003ULL + static_cast<uint32_t>(it.loc.x), hh);
        } else {
            osmium::builder::WayBuilder b{buf};
            b.set_id(it.id);
            if (!it.refs.empty() || rng.coin()) {
                osmium::builder::WayNodeListBuilder nl{b};
                for (int64_t ref : it.refs) nl.add_node_ref(ref);
            }
            hh = vh::hash_u64(it.refs.size() * 31 + (it.refs.empty() ? 0 : static_cast<uint64_t>(it.refs[0])), hh);
        }
        buf.commit();
    }

    auto pos = make_inst(pos_type, is_file_type(pos_type) ? new_path("pos") : "");
    auto neg = make_inst(neg_type, is_file_type(neg_type) ? new_path("neg") : "");
    {
        Handler handler{*pos->map, *neg->map};
        if (ignore) handler.ignore_errors();
        std::set<int64_t> stored;
        size_t si = 0;
        bool last_was_way = false;
        for (auto bit = buf.begin(); bit != buf.end(); ++bit, ++si) {
            const StreamItem& it = stream[si];
            if (it.is_node) {
                osmium::apply_item(*bit, handler);
                stored.insert(it.id);
                last_was_way = false;
                vh::count("nlfw_nodes");
                continue;
            }
            last_was_way = true;
            bool any_missing = false;
            for (int64_t ref : it.refs) if (!stored.count(ref)) any_missing = true;
            bool thrown = false;
            try {
                osmium::apply_item(*bit, handler);
            } catch (const osmium::not_found&) {
                thrown = true;
            }
            const std::string ctx = std::string("NodeLocationsForWays, node stream ") + ON[order] + (two_phases && si > split ? " (nodes also after the first ways)" : "");
            if (thrown) {
                if (!any_missing) vh::violation(ctx + ": way() throws not_found although every referenced node was stored", vh::fmt("way %" PRId64 " with %zu refs, pos=%s neg=%s", it.id, it.refs.size(), pos_type.c_str(), neg_type.c_str()));
                else if (ignore) vh::violation(ctx + ": way() throws not_found in spite of ignore_errors()", vh::fmt("way %" PRId64, it.id));
                else vh::count("nlfw_ways_not_found_as_required");
                continue;   // locations on this way: not judged
            }
            if (any_missing && !ignore) {
                vh::violation(ctx + ": way() with a missing node does not throw not_found", vh::fmt("way %" PRId64 " with %zu refs, pos=%s neg=%s", it.id, it.refs.size(), pos_type.c_str(), neg_type.c_str()));
                continue;
            }
            const auto& way = static_cast<const osmium::Way&>(*bit);
            size_t ri = 0;
            if (way.nodes().size() != it.refs.size()) throw std::runtime_error{"harness: way has a different number of refs than generated"};
            for (const auto& nr : way.nodes()) {
                const int64_t ref = it.refs[ri++];
                const std::string via = std::string(ref >= 0 ? "non-negative ref via " : "negative ref via ") + (ref >= 0 ? pos_type + flex_state(pos->map.get()) : neg_type + flex_state(neg->map.get()));
                const Loc l = nr.location();
                if (stored.count(ref)) {
                    const Val& v = model[ref];
                    if (l.x() == UNDEF && l.y() == UNDEF) vh::violation(ctx + ": " + via + " got no location although the node was stored", vh::fmt("ref=%" PRId64 " expected=%s nodes=%zu", ref, sval(v).c_str(), nodes.size()));
                    else if (l.x() != v.x || l.y() != v.y) vh::violation(ctx + ": " + via + " got a wrong location", vh::fmt("ref=%" PRId64 " expected=%s got=%s nodes=%zu", ref, sval(v).c_str(), sloc(l).c_str(), nodes.size()));
                    vh::count("nlfw_refs_with_stored_node");
                } else {
                    if (!(l.x() == UNDEF && l.y() == UNDEF)) vh::violation(ctx + ": " + via + " got a location although no such node was stored", vh::fmt("ref=%" PRId64 " got=%s", ref, sloc(l).c_str()));
                    vh::count("nlfw_refs_missing_ignored");
                }
            }
            vh::count("nlfw_ways_checked");
        }
        if (last_was_way) {
            // the public lookup of the handler
            for (int t = 0; t < 60 && !nodes.empty(); ++t) {
                const auto& nd = nodes[rng.below(nodes.size())];
                const int64_t cands[3] = {nd.first, -nd.first, nd.first + 1};
                for (int64_t c : cands) {
                    const Loc l = handler.get_node_location(c);
                    const auto mit = model.find(c);
                    if (mit == model.end() ? !(l.x() == UNDEF && l.y() == UNDEF) : (l.x() != mit->second.x || l.y() != mit->second.y))
                        vh::violation(std::string("NodeLocationsForWays, node stream ") + ON[order] + ": get_node_location() disagrees with the stored nodes",
                                      vh::fmt("id=%" PRId64 " got=%s expected=%s", c, sloc(l).c_str(), mit == model.end() ? "undefined" : sval(mit->second).c_str()));
                    vh::count("nlfw_get_node_location");
                }
            }
        }
        if (const auto* f = dynamic_cast<const FlexT*>(pos->map.get())) vh::count(f->is_dense() ? "nlfw_flex_dense_at_end" : "nlfw_flex_sparse_at_end");
        if (const auto* f = dynamic_cast<const FlexT*>(neg->map.get())) vh::count(f->is_dense() ? "nlfw_flex_dense_at_end" : "nlfw_flex_sparse_at_end");
        if (two_phases) vh::count("nlfw_two_phase_streams");
        if (ignore) vh::count("nlfw_ignore_errors_streams");
        handler.clear();
    }
    pos.reset();
    neg.reset();
    vh::evaluated();
    vh::distinct(hh);
    if (vh::st().samples.size() < 2 && !nodes.empty())
        vh::sample_str(vh::fmt("nlfw: pos=%s neg=%s, %zu nodes (%s; first %" PRId64 "), %" PRId64 " ways, phases=%d ignore_errors=%d", pos_type.c_str(), neg_type.c_str(), nodes.size(),
                               ON[order], nodes[0].first, way_id - 1, two_phases ? 2 : 1, ignore));
}

} // namespace

int main(int argc, char** argv) {
    vh::parse_args(argc, argv);
    init_scratch();
    const std::string mode = vh::arg("mode", "maps");
    g_profile = vh::arg("profile", "std");
#ifdef OSMIUM_VERIF_MIN_DENSE_ENTRIES
    g_flex_threshold = OSMIUM_VERIF_MIN_DENSE_ENTRIES;
#endif
    if (g_profile == "flex" && g_flex_threshold > 100000) {
        std::fprintf(stderr, "profile flex needs the binary built with OSMIUM_VERIF_MIN_DENSE_ENTRIES\n");
        return 2;
    }
    // all eight types must be registered, or the check is void
    for (const auto& t : ALL_TYPES) {
        if (!Factory::instance().has_map_type(t)) { std::fprintf(stderr, "map type %s is not registered\n", t.c_str()); return 2; }
    }
    int rc;
    if (mode == "maps") rc = vh::run_cases(argc, argv, 100, case_maps, cleanup_scratch);
    else if (mode == "flexbig") rc = vh::run_cases(argc, argv, 6, case_flexbig, cleanup_scratch);
    else if (mode == "nlfw") rc = vh::run_cases(argc, argv, 100, case_nlfw, cleanup_scratch);
    else { std::fprintf(stderr, "unknown mode\n"); return 2; }
    return rc;
}
