// C10 - assembled areas are valid multipolygons that cover exactly the
// input's region.
//
// One case = one *arrangement* (a multiset of segments between integer points,
// grouped into rings/pieces) built constructively so that its validity is
// known, optionally with an injected defect (proper crossing, open ring,
// collinear overlap). The arrangement is cut into ways in several ways
// (variants: member order, way direction, cutting, roles, node ids, config)
// and every variant goes through the real osmium::area::Assembler (closed way
// or multipolygon relation).
//
// Ground truth: brute force classification of the segment multiset reduced
// mod 2 (exact __int128 predicates): even degrees, no proper crossing, no
// collinear overlap. T-junctions (a vertex of one segment in the interior of
// another one without a node there) are never constructed on purpose and are
// *not judged* when a defect injection creates one by accident.
//
// Oracle on every produced area (independent exact integer geometry): ring
// closure/size, O(n^2) pairwise crossing/overlap test, nesting by even-odd
// point-in-ring with doubled coordinates (midpoints), shoelace orientation,
// segment conservation (output segments == input segments mod 2).
// Validity + conservation + nesting parity == "covers the even-odd region".

#include "vh.hpp"

#include <osmium/area/assembler.hpp>
#include <osmium/area/assembler_config.hpp>
#include <osmium/area/problem_reporter.hpp>
#include <osmium/builder/osm_object_builder.hpp>
#include <osmium/memory/buffer.hpp>
#include <osmium/osm/area.hpp>
#include <osmium/osm/relation.hpp>
#include <osmium/osm/way.hpp>

#include <algorithm>
#include <ctime>
#include <map>
#include <numeric>
#include <set>
#include <string>
#include <utility>
#include <vector>

namespace {

using i128 = __int128;

// The orientation the unchanged library gives to rings (undocumented in the
// sources; "fixed" in the property): shoelace sum(x_i*y_{i+1}-x_{i+1}*y_i)
// of outer rings is positive, of inner rings negative.
constexpr int OUTER_SIGN = +1;

constexpr int64_t COORD_LIMIT = 1LL << 29;
constexpr size_t MAX_TOUCHING_JUDGED = 100;   // quantifier: up to 100 touching points

// ------------------------------------------------------------------ geometry

struct Pt {
    int64_t x = 0, y = 0;
};
inline bool operator==(const Pt& a, const Pt& b) { return a.x == b.x && a.y == b.y; }
inline bool operator!=(const Pt& a, const Pt& b) { return !(a == b); }
inline bool operator<(const Pt& a, const Pt& b) { return a.x != b.x ? a.x < b.x : a.y < b.y; }
inline Pt operator+(const Pt& a, const Pt& b) { return Pt{a.x + b.x, a.y + b.y}; }
inline Pt operator-(const Pt& a, const Pt& b) { return Pt{a.x - b.x, a.y - b.y}; }

struct Seg {   // undirected, normalised a < b
    Pt a, b;
    Seg() = default;
    Seg(Pt p, Pt q) : a(p < q ? p : q), b(p < q ? q : p) {}
};
inline bool operator==(const Seg& s, const Seg& t) { return s.a == t.a && s.b == t.b; }
inline bool operator<(const Seg& s, const Seg& t) { return s.a != t.a ? s.a < t.a : s.b < t.b; }

inline int sgn(i128 v) { return v > 0 ? 1 : (v < 0 ? -1 : 0); }
inline int orient(const Pt& a, const Pt& b, const Pt& c) {
    return sgn(static_cast<i128>(b.x - a.x) * (c.y - a.y) - static_cast<i128>(b.y - a.y) * (c.x - a.x));
}
// c collinear with ab assumed: is c within the closed box of ab?
inline bool in_box(const Pt& a, const Pt& b, const Pt& c) {
    return std::min(a.x, b.x) <= c.x && c.x <= std::max(a.x, b.x) && std::min(a.y, b.y) <= c.y && c.y <= std::max(a.y, b.y);
}

enum Rel { R_NONE, R_ENDPOINT, R_CROSS, R_T, R_OVERLAP, R_SAME };

// relation of two segments of positive length
Rel relation(const Seg& s, const Seg& t) {
    if (s == t) return R_SAME;
    const int o1 = orient(s.a, s.b, t.a), o2 = orient(s.a, s.b, t.b);
    if (o1 == 0 && o2 == 0) {
        // collinear: project on the dominant axis (points are ordered a<b lexicographically,
        // which is monotone along the common line)
        const Pt lo = s.a < t.a ? t.a : s.a;   // max of the starts
        const Pt hi = s.b < t.b ? s.b : t.b;   // min of the ends
        if (lo < hi) return R_OVERLAP;
        if (lo == hi) return R_ENDPOINT;
        return R_NONE;
    }
    const bool share = s.a == t.a || s.a == t.b || s.b == t.a || s.b == t.b;
    if (share) return R_ENDPOINT;   // not collinear and a common end point: no other common point
    const int o3 = orient(t.a, t.b, s.a), o4 = orient(t.a, t.b, s.b);
    if (o1 * o2 < 0 && o3 * o4 < 0) return R_CROSS;
    if (o1 == 0 && in_box(s.a, s.b, t.a)) return R_T;
    if (o2 == 0 && in_box(s.a, s.b, t.b)) return R_T;
    if (o3 == 0 && in_box(t.a, t.b, s.a)) return R_T;
    if (o4 == 0 && in_box(t.a, t.b, s.b)) return R_T;
    return R_NONE;
}

// even-odd point-in-ring; q and the ring in the same (doubled) coordinates;
// ring given as closed list (front == back). Returns 1 inside, 0 outside, -1 on boundary.
int point_in_ring(const std::vector<Pt>& ring, const Pt& q) {
    bool inside = false;
    for (size_t i = 0; i + 1 < ring.size(); ++i) {
        const Pt &a = ring[i], &b = ring[i + 1];
        if (a == b) continue;
        if (orient(a, b, q) == 0 && in_box(a, b, q)) return -1;
        if ((a.y > q.y) != (b.y > q.y)) {
            // x coordinate of the edge at height q.y is right of q.x ?
            const Pt &lo = a.y < b.y ? a : b, &hi = a.y < b.y ? b : a;
            if (orient(lo, hi, q) > 0) inside = !inside;   // q strictly left of the upward edge
        }
    }
    return inside ? 1 : 0;
}

i128 shoelace(const std::vector<Pt>& ring) {
    i128 s = 0;
    for (size_t i = 0; i + 1 < ring.size(); ++i) s += static_cast<i128>(ring[i].x) * ring[i + 1].y - static_cast<i128>(ring[i + 1].x) * ring[i].y;
    return s;
}

std::string pstr(const Pt& p) { return vh::fmt("(%" PRId64 ",%" PRId64 ")", p.x, p.y); }
std::string sstr(const Seg& s) { return pstr(s.a) + "-" + pstr(s.b); }

// ------------------------------------------------------------------ arrangement and its ground truth

struct Edge {
    Pt a, b;
    int piece;
};

struct Truth {
    std::vector<Seg> reduced;    // segments with odd multiplicity, sorted
    size_t n_cross = 0, n_overlap = 0, n_t = 0, n_odd = 0, n_touch = 0;
    size_t n_dup_pairs = 0, n_triple = 0;
    Seg w_cross[2], w_overlap[2];
    Pt w_odd;
    bool empty() const { return reduced.empty(); }
    bool valid() const { return !empty() && !n_cross && !n_overlap && !n_t && !n_odd; }
    bool invalid_for_sure() const { return n_cross || n_overlap || n_odd; }
};

Truth classify(const std::vector<Edge>& edges) {
    Truth t;
    std::map<Seg, unsigned> mult;
    for (const auto& e : edges) if (e.a != e.b) ++mult[Seg{e.a, e.b}];
    for (const auto& kv : mult) {
        if (kv.second & 1U) t.reduced.push_back(kv.first);
        t.n_dup_pairs += kv.second / 2;
        if (kv.second >= 3) ++t.n_triple;
    }
    std::map<Pt, unsigned> deg;
    for (const auto& s : t.reduced) { ++deg[s.a]; ++deg[s.b]; }
    for (const auto& kv : deg) {
        if (kv.second & 1U) { if (!t.n_odd) t.w_odd = kv.first; ++t.n_odd; }
        else if (kv.second >= 4) ++t.n_touch;
    }
    const auto& r = t.reduced;   // sorted by a.x first: sweep break on x
    for (size_t i = 0; i < r.size(); ++i) {
        for (size_t j = i + 1; j < r.size(); ++j) {
            if (r[j].a.x > r[i].b.x) break;   // independent pruning: r sorted by a.x, a.x <= b.x
            switch (relation(r[i], r[j])) {
                case R_CROSS: if (!t.n_cross) { t.w_cross[0] = r[i]; t.w_cross[1] = r[j]; } ++t.n_cross; break;
                case R_OVERLAP: if (!t.n_overlap) { t.w_overlap[0] = r[i]; t.w_overlap[1] = r[j]; } ++t.n_overlap; break;
                case R_T: ++t.n_t; break;
                default: break;
            }
        }
    }
    return t;
}

// ------------------------------------------------------------------ generators (constructive)

struct Arrangement {
    std::vector<Edge> edges;
    int pieces = 0;
    std::string family;          // for coverage
    bool constructed_valid = true;
    std::string defect = "none";
};

void add_ring(Arrangement& A, const std::vector<Pt>& ring /* open list, no closing point */) {
    const int piece = A.pieces++;
    for (size_t i = 0; i < ring.size(); ++i) {
        const Pt &a = ring[i], &b = ring[(i + 1) % ring.size()];
        if (a != b) A.edges.push_back(Edge{a, b, piece});
    }
}

// ---- family A: cell complexes. Every piece is a set of cells of a W x H grid; its
// boundary (edges between a member cell and a non-member cell) is a set of unit
// edges in which every lattice point has degree 0, 2 or 4 (4 = touching point).
// The input is the concatenation of the boundaries of all pieces, so edges shared
// by two pieces appear twice and cancel mod 2; the region is the XOR of the pieces.
// Lattice points are mapped by a non-uniform monotone grid + jitter < step/5 + an
// invertible integer linear map, all of which keep the arrangement planar.

struct Cells {
    int W, H;
    std::vector<uint8_t> c;
    Cells(int w, int h) : W(w), H(h), c(static_cast<size_t>(w) * h, 0) {}
    bool get(int i, int j) const { return i >= 0 && j >= 0 && i < W && j < H && c[static_cast<size_t>(j) * W + i]; }
    void set(int i, int j, bool v = true) { if (i >= 0 && j >= 0 && i < W && j < H) c[static_cast<size_t>(j) * W + i] = v; }
};

void fill_pattern(Cells& C, vh::Rng& rng, std::string& name) {
    const int W = C.W, H = C.H;
    const int x0 = static_cast<int>(rng.below(W)), y0 = static_cast<int>(rng.below(H));
    const int x1 = x0 + static_cast<int>(rng.below(W - x0)), y1 = y0 + static_cast<int>(rng.below(H - y0));
    switch (rng.below(9)) {
        case 8: {   // necklace: cells on a closed diagonal loop, each touching its two neighbours at a corner
            name += "neck";
            // 4*r cells and touching points. r = 4, 5 (16-20 touching points in one loop) are left out: the library's
            // exhaustive search for ways to join the partial rings needs seconds of CPU per call just below its
            // recursion limit of 20 (r >= 6 exceeds the limit at once, r <= 3 is cheap).
            int r = 1 + static_cast<int>(rng.below(static_cast<uint64_t>(std::max(1, (std::min(W, H) - 1) / 2))));
            if (r == 4 || r == 5) r = rng.coin() ? 3 : ((std::min(W, H) - 1) / 2 >= 6 ? 6 : 2);
            const int cx = r + static_cast<int>(rng.below(static_cast<uint64_t>(std::max(1, W - 2 * r)))), cy = r + static_cast<int>(rng.below(static_cast<uint64_t>(std::max(1, H - 2 * r))));
            for (int j = 0; j < H; ++j) for (int i = 0; i < W; ++i) if (std::abs(i - cx) + std::abs(j - cy) == r) C.set(i, j);
            break;
        }
        case 0: {   // random density
            name += "rnd";
            const unsigned p = 1 + rng.below(9);
            for (int j = 0; j < H; ++j) for (int i = 0; i < W; ++i) C.set(i, j, rng.chance(p, 10));
            break;
        }
        case 1: {   // checkerboard on a sub-rectangle. At most ~16 cells: the library's search for ways to join
                    // partial rings is exponential in the number of touching points of such dense patterns
                    // (seconds per call beyond that), which only costs budget.
            name += "chk";
            int xe = x1, ye = y1;
            const int cap = rng.chance(1, 8) ? 50 : 24;   // a few bigger ones: they reach the library's recursion limit
            while ((xe - x0 + 1) * (ye - y0 + 1) > cap) { if (xe - x0 > ye - y0) --xe; else --ye; }
            for (int j = y0; j <= ye; ++j) for (int i = x0; i <= xe; ++i) C.set(i, j, ((i + j) & 1) == 0);
            break;
        }
        case 2:     // full block
            name += "blk";
            for (int j = y0; j <= y1; ++j) for (int i = x0; i <= x1; ++i) C.set(i, j);
            break;
        case 3: {   // concentric frames (nested holes and islands)
            name += "frm";
            for (int j = 0; j < H; ++j) for (int i = 0; i < W; ++i) {
                const int d = std::min(std::min(i, W - 1 - i), std::min(j, H - 1 - j));
                C.set(i, j, (d & 1) == 0);
            }
            break;
        }
        case 4: {   // diagonal chain of cells touching at corners
            name += "dia";
            const bool anti = rng.coin();
            for (int i = 0; i < std::min(W, H); ++i) C.set(anti ? W - 1 - i : i, i);
            break;
        }
        case 5: {   // block with random holes
            name += "hol";
            for (int j = y0; j <= y1; ++j) for (int i = x0; i <= x1; ++i) C.set(i, j);
            const unsigned p = 1 + rng.below(5);
            for (int j = y0 + 1; j < y1; ++j) for (int i = x0 + 1; i < x1; ++i) if (rng.chance(p, 10)) C.set(i, j, false);
            break;
        }
        case 6: {   // random walk blob
            name += "blob";
            int i = x0, j = y0;
            const int steps = 1 + static_cast<int>(rng.below(static_cast<uint64_t>(W) * H));
            for (int k = 0; k < steps; ++k) {
                C.set(i, j);
                switch (rng.below(4)) { case 0: if (i + 1 < W) ++i; break; case 1: if (i > 0) --i; break; case 2: if (j + 1 < H) ++j; break; default: if (j > 0) --j; }
            }
            break;
        }
        default: {  // single cell or domino
            name += "one";
            C.set(x0, y0);
            if (rng.coin()) C.set(x0 + 1, y0);
            break;
        }
    }
}

struct Lattice {   // maps lattice point (i,j) of a (W+1)x(H+1) lattice to a Pt
    int W1, H1;
    std::vector<Pt> p;
    const Pt& at(int i, int j) const { return p[static_cast<size_t>(j) * W1 + i]; }
};

Lattice make_lattice(int W, int H, vh::Rng& rng, std::string& name) {
    Lattice L;
    L.W1 = W + 1; L.H1 = H + 1;
    static const int64_t STEPS[] = {1, 1, 2, 5, 10, 1000, 100000, 3000000};
    int64_t S = rng.pick(STEPS);
    const bool uniform = rng.coin();
    const bool jitter = S >= 5 && rng.chance(2, 3);
    // linear map
    int64_t m[4] = {1, 0, 0, 1};
    if (rng.coin()) {
        do { for (auto& v : m) v = rng.range(-3, 3); } while (m[0] * m[3] - m[1] * m[2] == 0);
    }
    const int64_t mmax = std::max(std::abs(m[0]) + std::abs(m[1]), std::abs(m[2]) + std::abs(m[3]));
    // extent (before translation) must stay below 2^28
    while (S > 1 && (static_cast<int64_t>(std::max(W, H)) + 1) * 3 * S * mmax >= (1LL << 28)) S /= 10;
    if (S < 1) S = 1;
    std::vector<int64_t> xs(L.W1), ys(L.H1);
    int64_t v = 0;
    for (auto& x : xs) { x = v; v += uniform ? S : S * rng.range(1, 3); }
    v = 0;
    for (auto& y : ys) { y = v; v += uniform ? S : S * rng.range(1, 3); }
    const int64_t J = jitter ? S / 5 : 0;
    // translation: mostly near the origin, sometimes against the coordinate limits
    Pt tr{0, 0};
    const int64_t room = COORD_LIMIT - (1LL << 28) - 1;
    switch (rng.below(4)) {
        case 0: break;
        case 1: tr = Pt{rng.range(-room, room), rng.range(-room, room)}; break;
        case 2: tr = Pt{rng.coin() ? room : -room, rng.coin() ? room : -room}; break;
        default: tr = Pt{rng.range(-1000, 1000), rng.range(-1000, 1000)}; break;
    }
    // centre the figure roughly
    const int64_t cx = xs.back() / 2, cy = ys.back() / 2;
    L.p.resize(static_cast<size_t>(L.W1) * L.H1);
    for (int j = 0; j < L.H1; ++j) for (int i = 0; i < L.W1; ++i) {
        const int64_t x = xs[i] - cx + (J ? rng.range(-J, J) : 0), y = ys[j] - cy + (J ? rng.range(-J, J) : 0);
        L.p[static_cast<size_t>(j) * L.W1 + i] = Pt{m[0] * x + m[1] * y + tr.x, m[2] * x + m[3] * y + tr.y};
    }
    name += vh::fmt(" S=%" PRId64 "%s%s%s", S, uniform ? "" : " nonuni", J ? " jit" : "", (m[0] != 1 || m[1] || m[2] || m[3] != 1) ? " lin" : "");
    return L;
}

Arrangement gen_cells(vh::Rng& rng, bool big) {
    Arrangement A;
    int W, H;
    if (big && rng.chance(1, 4)) { W = H = 20 + static_cast<int>(rng.below(81)); }   // long diagonal chains
    else if (big) { W = 4 + static_cast<int>(rng.below(11)); H = 4 + static_cast<int>(rng.below(11)); }
    else { W = 1 + static_cast<int>(rng.below(6)); H = 1 + static_cast<int>(rng.below(6)); }
    const int npieces = 1 + static_cast<int>(rng.below(rng.coin() ? 1 : 4));
    std::string name = "cells ";
    std::vector<Cells> pcs;
    for (int k = 0; k < npieces; ++k) {
        Cells C{W, H};
        if (W > 14) {   // only sparse patterns on the big lattice
            name += "dia";
            const bool anti = rng.coin();
            const int n = 1 + static_cast<int>(rng.below(W));
            for (int i = 0; i < n; ++i) C.set(anti ? W - 1 - i : i, i);
        } else {
            fill_pattern(C, rng, name);
        }
        name += k + 1 < npieces ? "+" : "";
        pcs.push_back(C);
    }
    name += vh::fmt(" %dx%d", W, H);
    Lattice L = make_lattice(W, H, rng, name);
    for (const auto& C : pcs) {
        const int piece = A.pieces++;
        for (int j = 0; j < H; ++j) for (int i = 0; i < W; ++i) {
            if (!C.get(i, j)) continue;
            if (!C.get(i, j - 1)) A.edges.push_back(Edge{L.at(i, j), L.at(i + 1, j), piece});
            if (!C.get(i, j + 1)) A.edges.push_back(Edge{L.at(i, j + 1), L.at(i + 1, j + 1), piece});
            if (!C.get(i - 1, j)) A.edges.push_back(Edge{L.at(i, j), L.at(i, j + 1), piece});
            if (!C.get(i + 1, j)) A.edges.push_back(Edge{L.at(i + 1, j), L.at(i + 1, j + 1), piece});
        }
    }
    A.family = name;
    return A;
}

// ---- family B: nested star-shaped and orthogonal polygons in boxes. A ring lives
// between an outer box and an inner box; children are placed in disjoint cells
// strictly inside the inner box, so rings never touch (except the deliberate
// "split rectangle" pairs that share one whole edge).

struct Box { int64_t x0, y0, x1, y1; };   // closed, integer

// star-shaped polygon: perimeter lattice points of [-mx,mx]x[-my,my] in angular order,
// each scaled by an integer factor in [a,b]; contains the box c+-a*(mx,my), lies in c+-b*(mx,my)
bool star_ring(const Box& bx, vh::Rng& rng, std::vector<Pt>& ring, Box& inner) {
    const int64_t hx = (bx.x1 - bx.x0) / 2, hy = (bx.y1 - bx.y0) / 2;
    const Pt c{bx.x0 + hx, bx.y0 + hy};
    if (hx < 2 || hy < 2) return false;
    const int64_t mx = std::min<int64_t>(1 + rng.below(12), hx / 2), my = std::min<int64_t>(1 + rng.below(12), hy / 2);
    const int64_t b = std::min(hx / mx, hy / my);
    if (b < 2) return false;
    const int64_t a = std::max<int64_t>(1, rng.coin() ? b / 2 : rng.range(1, b));
    std::vector<Pt> per;
    for (int64_t x = -mx; x < mx; ++x) per.push_back(Pt{x, -my});
    for (int64_t y = -my; y < my; ++y) per.push_back(Pt{mx, y});
    for (int64_t x = mx; x > -mx; --x) per.push_back(Pt{x, my});
    for (int64_t y = my; y > -my; --y) per.push_back(Pt{-mx, y});
    const unsigned keep = 1 + rng.below(10);
    const bool ccw = rng.coin();
    for (const Pt& d : per) {
        const bool corner = std::abs(d.x) == mx && std::abs(d.y) == my;
        if (!corner && !rng.chance(keep, 10)) continue;
        const int64_t s = rng.range(a, b);
        ring.push_back(Pt{c.x + s * d.x, c.y + s * d.y});
    }
    if (!ccw) std::reverse(ring.begin(), ring.end());
    inner = Box{c.x - a * mx + 1, c.y - a * my + 1, c.x + a * mx - 1, c.y + a * my - 1};
    return true;
}

// x-monotone orthogonal polygon (columns with individual top and bottom heights)
bool ortho_ring(const Box& bx, vh::Rng& rng, std::vector<Pt>& ring, Box& inner) {
    const int64_t w = bx.x1 - bx.x0, h = bx.y1 - bx.y0;
    if (w < 4 || h < 8) return false;
    const int64_t cy = bx.y0 + h / 2, hh = h / 2;   // tops in [cy+a, cy+hh], bottoms in [cy-hh, cy-a]
    const int64_t a = std::max<int64_t>(1, rng.coin() ? hh / 2 : rng.range(1, hh));
    const int ncol = static_cast<int>(std::min<int64_t>(1 + rng.below(24), w));
    std::set<int64_t> cuts{bx.x0, bx.x1};
    while (static_cast<int>(cuts.size()) < ncol + 1) cuts.insert(rng.range(bx.x0, bx.x1));
    std::vector<int64_t> xs(cuts.begin(), cuts.end());
    std::vector<Pt> top, bot;
    for (size_t k = 0; k + 1 < xs.size(); ++k) {
        const int64_t t = cy + rng.range(a, hh), b = cy - rng.range(a, hh);
        top.push_back(Pt{xs[k], t}); top.push_back(Pt{xs[k + 1], t});
        bot.push_back(Pt{xs[k], b}); bot.push_back(Pt{xs[k + 1], b});
    }
    for (const Pt& p : bot) if (ring.empty() || ring.back() != p) ring.push_back(p);
    for (auto it = top.rbegin(); it != top.rend(); ++it) if (ring.back() != *it) ring.push_back(*it);
    if (rng.coin()) std::reverse(ring.begin(), ring.end());
    inner = Box{bx.x0 + 1, cy - a + 1, bx.x1 - 1, cy + a - 1};
    return true;
}

void gen_nested(Arrangement& A, const Box& bx, vh::Rng& rng, int depth, size_t budget) {
    if (A.edges.size() >= budget || bx.x1 - bx.x0 < 6 || bx.y1 - bx.y0 < 10) return;
    if (depth > 0 && rng.chance(1, 12) && bx.x1 - bx.x0 >= 4) {
        // two rectangles sharing one whole edge (cancels mod 2 -> one rectangle)
        const int64_t xm = rng.range(bx.x0 + 1, bx.x1 - 1);
        add_ring(A, {Pt{bx.x0, bx.y0}, Pt{xm, bx.y0}, Pt{xm, bx.y1}, Pt{bx.x0, bx.y1}});
        add_ring(A, {Pt{xm, bx.y0}, Pt{bx.x1, bx.y0}, Pt{bx.x1, bx.y1}, Pt{xm, bx.y1}});
        vh::count("gen_split_rectangle_pairs");
        return;
    }
    std::vector<Pt> ring;
    Box inner{};
    const bool ok = rng.coin() ? star_ring(bx, rng, ring, inner) : ortho_ring(bx, rng, ring, inner);
    if (!ok || ring.size() < 3) return;
    add_ring(A, ring);
    vh::count_max("max_generated_ring_vertices", ring.size());
    if (depth >= 5) return;
    // children in a grid of cells of the inner box, each shrunk by one unit
    const int cols = 1 + static_cast<int>(rng.below(3)), rows = 1 + static_cast<int>(rng.below(3));
    const int64_t w = inner.x1 - inner.x0, h = inner.y1 - inner.y0;
    if (w < 8 || h < 12) return;
    for (int r = 0; r < rows; ++r) for (int c = 0; c < cols; ++c) {
        if (!rng.chance(2, 3)) continue;
        Box cell{inner.x0 + w * c / cols + 1, inner.y0 + h * r / rows + 1, inner.x0 + w * (c + 1) / cols - 1, inner.y0 + h * (r + 1) / rows - 1};
        // random sub-box
        if (rng.coin()) {
            const int64_t cw = cell.x1 - cell.x0, ch = cell.y1 - cell.y0;
            if (cw > 12 && ch > 20) {
                cell.x0 += rng.range(0, cw / 3); cell.x1 -= rng.range(0, cw / 3);
                cell.y0 += rng.range(0, ch / 3); cell.y1 -= rng.range(0, ch / 3);
            }
        }
        gen_nested(A, cell, rng, depth + 1, budget);
    }
}

Arrangement gen_nested_top(vh::Rng& rng, bool big) {
    Arrangement A;
    static const int64_t SIZES[] = {40, 200, 5000, 1000000, 100000000, (1LL << 29) - 1};
    const int64_t hx = rng.pick(SIZES), hy = rng.pick(SIZES);
    Pt c{0, 0};
    if (rng.coin()) c = Pt{rng.range(-(COORD_LIMIT - 1 - hx), COORD_LIMIT - 1 - hx), rng.range(-(COORD_LIMIT - 1 - hy), COORD_LIMIT - 1 - hy)};
    const int top = 1 + static_cast<int>(rng.below(2));   // one or two top-level polygons side by side
    for (int k = 0; k < top; ++k) {
        Box bx{c.x - hx, c.y - hy, c.x + hx, c.y + hy};
        if (top == 2) { if (k == 0) bx.x1 = c.x - 1; else bx.x0 = c.x + 1; }
        gen_nested(A, bx, rng, 0, big ? 380 : 60);
    }
    A.family = vh::fmt("nested h=%" PRId64 "x%" PRId64, hx, hy);
    return A;
}

// ------------------------------------------------------------------ defect injection

bool in_limits(const Pt& p) { return std::abs(p.x) < COORD_LIMIT && std::abs(p.y) < COORD_LIMIT; }

Pt small_vec(vh::Rng& rng, const Pt& not_parallel_to, int64_t scale) {
    for (;;) {
        Pt v{rng.range(-3, 3) * scale, rng.range(-3, 3) * scale};
        if (static_cast<i128>(v.x) * not_parallel_to.y - static_cast<i128>(v.y) * not_parallel_to.x != 0) return v;
    }
}

// Adds a closed triangle whose first edge crosses the interior of a segment of the
// reduced arrangement at that segment's midpoint (diagonals of a parallelogram).
bool inject_crossing(Arrangement& A, const Truth& t, vh::Rng& rng) {
    if (t.reduced.empty()) return false;
    const Seg s = rng.pick(t.reduced);
    const Pt d = s.b - s.a;
    const int64_t len = std::max(std::abs(d.x), std::abs(d.y));
    const Pt n = small_vec(rng, d, rng.coin() ? 1 : std::max<int64_t>(1, len / 4));
    const Pt p1 = s.a + n, p2 = s.b - n;
    const Pt p3 = p2 + small_vec(rng, p2 - p1, rng.coin() ? 1 : std::max<int64_t>(1, len / 4));
    if (!in_limits(p1) || !in_limits(p2) || !in_limits(p3)) return false;
    add_ring(A, {p1, p2, p3});
    return true;
}

// Adds a closed triangle one edge of which runs along a segment of the reduced
// arrangement without being identical to it (longer, or shorter if a lattice point exists).
bool inject_overlap(Arrangement& A, const Truth& t, vh::Rng& rng) {
    if (t.reduced.empty()) return false;
    const Seg s = rng.pick(t.reduced);
    const Pt d = s.b - s.a;
    const int64_t g = std::gcd(std::abs(d.x), std::abs(d.y));
    Pt p1 = s.a, p2;
    switch (rng.below(3)) {
        case 0: p2 = s.b + d; break;                                  // contains the segment
        case 1: p1 = s.a - Pt{d.x / g, d.y / g}; p2 = s.b - Pt{d.x / g, d.y / g}; if (g == 1) p2 = s.b; break;   // shifted along the line
        default: if (g >= 2) { const int64_t k = rng.range(1, g - 1); p2 = s.a + Pt{d.x / g * k, d.y / g * k}; } else p2 = s.b + d; break;   // proper part
    }
    const Pt q = p1 + small_vec(rng, d, rng.coin() ? 1 : std::max<int64_t>(1, std::max(std::abs(d.x), std::abs(d.y)) / 3));
    if (!in_limits(p1) || !in_limits(p2) || !in_limits(q) || p1 == p2) return false;
    add_ring(A, {p1, p2, q});
    return true;
}

// Removes one edge occurrence: its end points get odd degree (open ring).
bool inject_open(Arrangement& A, vh::Rng& rng) {
    if (A.edges.empty()) return false;
    A.edges.erase(A.edges.begin() + static_cast<long>(rng.below(A.edges.size())));
    return true;
}

// ------------------------------------------------------------------ cutting an arrangement into ways

struct WNode { Pt p; int64_t id; };
struct WayDraft { std::vector<WNode> nodes; std::string role; int64_t id = 0; };

struct Input {
    std::vector<WayDraft> ways;     // member order
    bool as_way = false;            // single closed way through the way interface
    bool check_roles = false;
    bool create_empty_areas = true;
    bool extra_members = false;     // node/relation members mixed in
};

// greedy random trails over the edges selected by `use`; stop_den: 1/stop_den chance to stop after each step (0 = never)
void trace_trails(const std::vector<Edge>& edges, const std::vector<size_t>& sel, vh::Rng& rng, unsigned stop_den,
                  std::vector<std::vector<Pt>>& out) {
    std::map<Pt, std::vector<size_t>> adj;
    for (size_t k : sel) { adj[edges[k].a].push_back(k); adj[edges[k].b].push_back(k); }
    std::vector<uint8_t> used(edges.size(), 0);
    std::vector<size_t> order = sel;
    rng.shuffle(order);
    for (size_t k0 : order) {
        if (used[k0]) continue;
        std::vector<Pt> trail;
        const bool fwd = rng.coin();
        Pt cur = fwd ? edges[k0].a : edges[k0].b;
        trail.push_back(cur);
        size_t k = k0;
        for (;;) {
            used[k] = 1;
            cur = edges[k].a == cur ? edges[k].b : edges[k].a;
            trail.push_back(cur);
            if (stop_den && rng.below(stop_den) == 0) break;
            auto& v = adj[cur];
            // pick a random unused incident edge
            size_t cnt = 0, chosen = 0;
            for (size_t e : v) if (!used[e] && rng.below(++cnt) == 0) chosen = e;
            if (!cnt) break;
            k = chosen;
        }
        out.push_back(std::move(trail));
    }
}

// Hierholzer: one closed trail through all edges, if the multigraph is connected with even degrees
bool euler_circuit(const std::vector<Edge>& edges, vh::Rng& rng, std::vector<Pt>& out) {
    if (edges.empty()) return false;
    std::map<Pt, std::vector<size_t>> adj;
    for (size_t k = 0; k < edges.size(); ++k) { adj[edges[k].a].push_back(k); adj[edges[k].b].push_back(k); }
    for (auto& kv : adj) { if (kv.second.size() & 1U) return false; rng.shuffle(kv.second); }
    std::vector<uint8_t> used(edges.size(), 0);
    std::vector<Pt> stack{edges[rng.below(edges.size())].a};
    size_t n_used = 0;
    while (!stack.empty()) {
        const Pt v = stack.back();
        auto& lst = adj[v];
        while (!lst.empty() && used[lst.back()]) lst.pop_back();
        if (lst.empty()) { out.push_back(v); stack.pop_back(); continue; }
        const size_t e = lst.back(); lst.pop_back();
        used[e] = 1; ++n_used;
        stack.push_back(edges[e].a == v ? edges[e].b : edges[e].a);
    }
    return n_used == edges.size();
}

static const char* const ROLES[] = {"outer", "inner", "", "outer", "inner", "", "foo", "Outer"};

void assign_roles(std::vector<WayDraft>& ways, vh::Rng& rng, int mode) {
    for (auto& w : ways) {
        switch (mode) {
            case 0: w.role = "outer"; break;
            case 1: w.role = "inner"; break;
            case 2: w.role = ""; break;
            default: w.role = rng.pick(ROLES); break;
        }
    }
}

// node ids: one id per location (alias_den == 0) or a fresh id with chance 1/alias_den
void assign_ids(std::vector<std::vector<Pt>>& trails, std::vector<WayDraft>& ways, vh::Rng& rng, unsigned alias_den, unsigned dupnode_den) {
    std::map<Pt, int64_t> ids;
    int64_t next = 1 + static_cast<int64_t>(rng.below(1000));
    const bool negative = rng.chance(1, 8);
    auto fresh = [&]() { next += 1 + static_cast<int64_t>(rng.below(3)); return negative ? -next : next; };
    for (auto& t : trails) {
        WayDraft w;
        for (size_t i = 0; i < t.size(); ++i) {
            auto it = ids.find(t[i]);
            if (it == ids.end()) it = ids.emplace(t[i], fresh()).first;
            int64_t id = it->second;
            if (alias_den && rng.below(alias_den) == 0) id = fresh();
            // closed trail: keep the same id at both ends (unless aliased on purpose above)
            if (i + 1 == t.size() && t.size() > 1 && t.front() == t.back() && !(alias_den && rng.below(alias_den) == 0)) id = w.nodes.front().id;
            w.nodes.push_back(WNode{t[i], id});
            if (dupnode_den && rng.below(dupnode_den) == 0) w.nodes.push_back(WNode{t[i], rng.coin() ? id : fresh()});   // consecutive node at the same location
        }
        ways.push_back(std::move(w));
    }
    // distinct way ids in random order
    std::vector<int64_t> wid(ways.size());
    std::iota(wid.begin(), wid.end(), 10 + static_cast<int64_t>(rng.below(100)));
    rng.shuffle(wid);
    for (size_t i = 0; i < ways.size(); ++i) ways[i].id = wid[i];
}

// cut mode: 0 one closed way per ring walk (per piece), 1 ring walks cut at random vertices,
// 2 global random trails, 3 one way per segment, 4 one closed way for everything (if possible)
Input make_input(const Arrangement& A, vh::Rng& rng, int cut_mode, int role_mode, unsigned alias_den, unsigned dupnode_den) {
    Input in;
    std::vector<std::vector<Pt>> trails;
    std::vector<size_t> all(A.edges.size());
    std::iota(all.begin(), all.end(), 0);
    if (cut_mode == 4) {
        std::vector<Pt> circuit;
        if (euler_circuit(A.edges, rng, circuit)) {
            trails.push_back(circuit);
            in.as_way = rng.chance(3, 4);
        } else {
            // exactly two odd vertices (one segment missing): one open trail = an unclosed way
            std::map<Pt, unsigned> deg;
            for (const auto& e : A.edges) { ++deg[e.a]; ++deg[e.b]; }
            std::vector<Pt> odd;
            for (const auto& kv : deg) if (kv.second & 1U) odd.push_back(kv.first);
            std::vector<Edge> e2 = A.edges;
            if (odd.size() == 2) e2.push_back(Edge{odd[0], odd[1], -1});
            circuit.clear();
            if (odd.size() == 2 && euler_circuit(e2, rng, circuit)) {
                circuit.pop_back();
                size_t i = 0;
                while (!(Seg{circuit[i], circuit[(i + 1) % circuit.size()]} == Seg{odd[0], odd[1]})) ++i;
                std::rotate(circuit.begin(), circuit.begin() + static_cast<long>((i + 1) % circuit.size()), circuit.end());
                trails.push_back(circuit);
                in.as_way = rng.chance(3, 4);
            } else {
                cut_mode = 1;
            }
        }
    }
    if (cut_mode == 0 || cut_mode == 1) {
        for (int p = 0; p < A.pieces; ++p) {
            std::vector<size_t> sel;
            for (size_t k = 0; k < A.edges.size(); ++k) if (A.edges[k].piece == p) sel.push_back(k);
            std::vector<std::vector<Pt>> walks;
            trace_trails(A.edges, sel, rng, 0, walks);
            for (auto& w : walks) {
                if (cut_mode == 0 || w.size() < 3) { trails.push_back(w); continue; }
                const bool closed = w.front() == w.back();
                if (closed) { w.pop_back(); std::rotate(w.begin(), w.begin() + static_cast<long>(rng.below(w.size())), w.end()); w.push_back(w.front()); }
                const size_t ncut = rng.below(std::min<size_t>(w.size() - 1, rng.coin() ? 3 : 12));
                std::set<size_t> cuts;
                for (size_t c = 0; c < ncut; ++c) cuts.insert(1 + rng.below(w.size() - 2));
                size_t from = 0;
                for (size_t c : cuts) { trails.emplace_back(w.begin() + static_cast<long>(from), w.begin() + static_cast<long>(c) + 1); from = c; }
                trails.emplace_back(w.begin() + static_cast<long>(from), w.end());
            }
        }
    } else if (cut_mode == 2) {
        trace_trails(A.edges, all, rng, 2 + static_cast<unsigned>(rng.below(12)), trails);
    } else if (cut_mode == 3) {
        for (const auto& e : A.edges) trails.push_back(rng.coin() ? std::vector<Pt>{e.a, e.b} : std::vector<Pt>{e.b, e.a});
    }
    rng.shuffle(trails);
    assign_ids(trails, in.ways, rng, alias_den, dupnode_den);
    assign_roles(in.ways, rng, role_mode);
    in.check_roles = rng.coin();
    in.create_empty_areas = rng.chance(2, 3);
    in.extra_members = rng.chance(1, 6);
    return in;
}

// the segment multiset an Input represents (must equal the arrangement's: self-check of the cutting code)
std::vector<Seg> input_segments(const Input& in) {
    std::vector<Seg> v;
    for (const auto& w : in.ways) for (size_t i = 0; i + 1 < w.nodes.size(); ++i) if (w.nodes[i].p != w.nodes[i + 1].p) v.emplace_back(w.nodes[i].p, w.nodes[i + 1].p);
    std::sort(v.begin(), v.end());
    return v;
}

std::string describe_input(const Input& in, size_t maxlen = 3000) {
    std::string s = in.as_way ? "WAY " : "RELATION ";
    s += vh::fmt("check_roles=%d create_empty_areas=%d extra_members=%d; ", in.check_roles, in.create_empty_areas, in.extra_members);
    for (const auto& w : in.ways) {
        s += vh::fmt("w%" PRId64 "[%s]:", w.id, w.role.c_str());
        for (const auto& n : w.nodes) s += vh::fmt(" %" PRId64 "@%" PRId64 ",%" PRId64, n.id, n.p.x, n.p.y);
        s += "; ";
        if (s.size() > maxlen) { s += "..."; break; }
    }
    return s;
}

// ------------------------------------------------------------------ running the real assembler

struct Recorder : public osmium::area::ProblemReporter {
    unsigned intersections = 0, not_closed = 0, duplicate_node = 0, touching = 0, duplicate_segment = 0,
             overlapping_segment = 0, role_outer = 0, role_inner = 0, multi_ring = 0, invalid_location = 0, duplicate_way = 0;
    void report_duplicate_node(osmium::object_id_type, osmium::object_id_type, osmium::Location) override { ++duplicate_node; }
    void report_touching_ring(osmium::object_id_type, osmium::Location) override { ++touching; }
    void report_intersection(osmium::object_id_type, osmium::Location, osmium::Location, osmium::object_id_type, osmium::Location, osmium::Location, osmium::Location) override { ++intersections; }
    void report_duplicate_segment(const osmium::NodeRef&, const osmium::NodeRef&) override { ++duplicate_segment; }
    void report_overlapping_segment(const osmium::NodeRef&, const osmium::NodeRef&) override { ++overlapping_segment; }
    void report_ring_not_closed(const osmium::NodeRef&, const osmium::Way*) override { ++not_closed; }
    void report_role_should_be_outer(osmium::object_id_type, osmium::Location, osmium::Location) override { ++role_outer; }
    void report_role_should_be_inner(osmium::object_id_type, osmium::Location, osmium::Location) override { ++role_inner; }
    void report_way_in_multiple_rings(const osmium::Way&) override { ++multi_ring; }
    void report_inner_with_same_tags(const osmium::Way&) override {}
    void report_invalid_location(osmium::object_id_type, osmium::object_id_type) override { ++invalid_location; }
    void report_duplicate_way(const osmium::Way&) override { ++duplicate_way; }
};

struct RingOut {
    bool outer = true;
    int parent = -1;              // index of the outer ring an inner ring is attached to
    std::vector<Pt> pts;          // as delivered (closing point included)
    bool ids_closed = true;
};

struct Result {
    bool ret = false;
    bool area_present = false;
    std::vector<RingOut> rings;
    Recorder rep;
    osmium::area::area_stats stats;
    bool assembled() const { return area_present && !rings.empty(); }
};

Result run_assembler(const Input& in) {
    using namespace osmium::builder;
    Result R;
    osmium::memory::Buffer wbuf{64UL * 1024UL, osmium::memory::Buffer::auto_grow::yes};
    std::vector<size_t> offsets;
    for (const auto& w : in.ways) {
        offsets.push_back(wbuf.committed());
        {
            WayBuilder wb{wbuf};
            wb.set_id(w.id).set_version(1).set_visible(true);
            wb.set_user("");
            {
                TagListBuilder tl{wb};
                tl.add_tag("natural", "water");
            }
            {
                WayNodeListBuilder nl{wb};
                for (const auto& n : w.nodes) nl.add_node_ref(osmium::NodeRef{n.id, osmium::Location{static_cast<int32_t>(n.p.x), static_cast<int32_t>(n.p.y)}});
            }
        }
        wbuf.commit();
    }
    osmium::area::AssemblerConfig config;
    config.problem_reporter = &R.rep;
    config.check_roles = in.check_roles;
    config.create_empty_areas = in.create_empty_areas;
    config.debug_level = static_cast<int>(vh::arg_int("debug-level", 0));   // triage only (prints to stderr)
    osmium::area::Assembler assembler{config};
    osmium::memory::Buffer out{64UL * 1024UL, osmium::memory::Buffer::auto_grow::yes};
    if (in.as_way) {
        R.ret = assembler(wbuf.get<osmium::Way>(offsets[0]), out);
    } else {
        osmium::memory::Buffer rbuf{16UL * 1024UL, osmium::memory::Buffer::auto_grow::yes};
        {
            RelationBuilder rb{rbuf};
            rb.set_id(7).set_version(1).set_visible(true);
            rb.set_user("");
            {
                TagListBuilder tl{rb};
                tl.add_tag("type", "multipolygon");
                tl.add_tag("natural", "water");
            }
            {
                RelationMemberListBuilder ml{rb};
                size_t k = 0;
                for (const auto& w : in.ways) {
                    if (in.extra_members && (k++ % 3) == 0) ml.add_member(osmium::item_type::node, 99, "label");
                    ml.add_member(osmium::item_type::way, w.id, w.role.c_str());
                }
                if (in.extra_members) ml.add_member(osmium::item_type::relation, 5, "");
            }
        }
        rbuf.commit();
        std::vector<const osmium::Way*> members;
        for (size_t off : offsets) members.push_back(&wbuf.get<osmium::Way>(off));
        R.ret = assembler(rbuf.get<osmium::Relation>(0), members, out);
    }
    R.stats = assembler.stats();
    if (out.committed() > 0) {
        const auto& area = out.get<osmium::Area>(0);
        R.area_present = true;
        for (const auto& outer : area.outer_rings()) {
            RingOut ro;
            for (const auto& nr : outer) ro.pts.push_back(Pt{nr.location().x(), nr.location().y()});
            ro.ids_closed = !outer.empty() && outer.front().ref() == outer.back().ref();
            const int oi = static_cast<int>(R.rings.size());
            R.rings.push_back(std::move(ro));
            for (const auto& inner : area.inner_rings(outer)) {
                RingOut ri;
                ri.outer = false;
                ri.parent = oi;
                for (const auto& nr : inner) ri.pts.push_back(Pt{nr.location().x(), nr.location().y()});
                ri.ids_closed = !inner.empty() && inner.front().ref() == inner.back().ref();
                R.rings.push_back(std::move(ri));
            }
        }
        // consistency of the two ways to look at the rings (observation only: counted, not judged)
        const auto nr = area.num_rings();
        size_t no = 0, ni = 0;
        for (const auto& r : R.rings) (r.outer ? no : ni)++;
        if (nr.first != no || nr.second != ni) vh::count("info_num_rings_differs_from_iteration");
    }
    return R;
}

// ------------------------------------------------------------------ oracle on a produced area

std::string ring_str(const RingOut& r, size_t maxpts = 40) {
    std::string s = r.outer ? "outer[" : "inner[";
    for (size_t i = 0; i < r.pts.size() && i < maxpts; ++i) s += pstr(r.pts[i]);
    if (r.pts.size() > maxpts) s += "...";
    return s + "]";
}

struct Canon {     // canonical ring set for the metamorphic comparison
    std::vector<std::string> rings;
    bool operator==(const Canon& o) const { return rings == o.rings; }
};

std::string canon_ring(const RingOut& r) {
    std::vector<Pt> p(r.pts.begin(), r.pts.end() - (r.pts.size() > 1 && r.pts.front() == r.pts.back() ? 1 : 0));
    if (!p.empty()) std::rotate(p.begin(), std::min_element(p.begin(), p.end()), p.end());
    std::string s;
    for (const auto& q : p) s += pstr(q);
    return s;
}

// Checks one produced area. `ctx` = textual witness (input). Returns false if any violation was reported.
bool check_area(const Result& R, const Truth& T, const std::string& ctx, Canon& canon, bool& has_self_touching) {
    bool ok = true;
    auto bad = [&](const std::string& key, const std::string& what) { vh::violation(key, what + " | " + ctx); ok = false; };
    has_self_touching = false;
    // 1. closure and size
    for (const auto& r : R.rings) {
        if (r.pts.size() < 4) { bad("produced area: ring with fewer than four points", ring_str(r)); return false; }
        if (r.pts.front() != r.pts.back()) { bad("produced area: ring is not closed", ring_str(r)); return false; }
        if (!r.ids_closed) vh::count("info_ring_closed_by_location_only");
    }
    if (R.rings.empty() || !R.rings[0].outer) { bad("produced area: first ring is not an outer ring", ""); return false; }
    // 2. segments; conservation
    struct OS { Seg s; int ring; };
    std::vector<OS> segs;
    for (size_t k = 0; k < R.rings.size(); ++k) {
        const auto& p = R.rings[k].pts;
        for (size_t i = 0; i + 1 < p.size(); ++i) {
            if (p[i] == p[i + 1]) { bad("produced area: ring with a zero-length segment", ring_str(R.rings[k])); return false; }
            segs.push_back(OS{Seg{p[i], p[i + 1]}, static_cast<int>(k)});
        }
    }
    {
        std::vector<Seg> os;
        for (const auto& s : segs) os.push_back(s.s);
        std::sort(os.begin(), os.end());
        if (os != T.reduced) {
            std::vector<Seg> missing, extra;
            std::set_difference(T.reduced.begin(), T.reduced.end(), os.begin(), os.end(), std::back_inserter(missing));
            std::set_difference(os.begin(), os.end(), T.reduced.begin(), T.reduced.end(), std::back_inserter(extra));
            const char* key = !missing.empty() && extra.empty() ? "segment conservation: input segments (mod 2) missing from the area" :
                              missing.empty() ? "segment conservation: area has segments that are not in the input (mod 2) or has them twice" :
                              "segment conservation: area segments differ from the input segments (mod 2)";
            bad(key, vh::fmt("missing=%zu extra=%zu first missing %s first extra %s", missing.size(), extra.size(),
                             missing.empty() ? "-" : sstr(missing[0]).c_str(), extra.empty() ? "-" : sstr(extra[0]).c_str()));
            return false;
        }
    }
    // 3. pairwise crossing / overlap (T-junctions are not judged)
    {
        std::vector<OS> v = segs;
        std::sort(v.begin(), v.end(), [](const OS& a, const OS& b) { return a.s < b.s; });
        for (size_t i = 0; i < v.size(); ++i) for (size_t j = i + 1; j < v.size(); ++j) {
            if (v[j].s.a.x > v[i].s.b.x) break;
            const Rel rel = relation(v[i].s, v[j].s);
            if (rel == R_CROSS) { bad("produced area: two ring segments cross", sstr(v[i].s) + " x " + sstr(v[j].s)); return false; }
            if (rel == R_OVERLAP || rel == R_SAME) { bad("produced area: two ring segments overlap", sstr(v[i].s) + " / " + sstr(v[j].s)); return false; }
            if (rel == R_T) vh::count("notjudged_T_junction_in_area");
        }
    }
    // 4. nesting: depth of every ring = number of other rings containing the midpoint of its first segment
    const size_t n = R.rings.size();
    std::vector<std::vector<Pt>> dbl(n);
    std::vector<bool> simple(n, true);
    for (size_t k = 0; k < n; ++k) {
        for (const auto& p : R.rings[k].pts) dbl[k].push_back(Pt{2 * p.x, 2 * p.y});
        std::vector<Pt> s(R.rings[k].pts.begin(), R.rings[k].pts.end() - 1);
        std::sort(s.begin(), s.end());
        if (std::adjacent_find(s.begin(), s.end()) != s.end()) { simple[k] = false; has_self_touching = true; }
    }
    std::vector<int> depth(n, 0);
    std::vector<std::vector<uint8_t>> inside(n, std::vector<uint8_t>(n, 0));
    for (size_t k = 0; k < n; ++k) {
        const Pt mid = R.rings[k].pts[0] + R.rings[k].pts[1];   // doubled coordinates
        for (size_t m = 0; m < n; ++m) {
            if (m == k) continue;
            const int pir = point_in_ring(dbl[m], mid);
            if (pir < 0) { vh::count("notjudged_midpoint_on_other_ring"); return ok; }
            if (pir > 0) { inside[k][m] = 1; ++depth[k]; }
        }
    }
    for (size_t k = 0; k < n; ++k) {
        const auto& r = R.rings[k];
        if (r.outer) {
            if (depth[k] & 1) { bad("produced area: outer ring lies inside an odd number of rings (region differs from the even-odd fill)", ring_str(r)); return false; }
        } else {
            const size_t o = static_cast<size_t>(r.parent);
            if (!inside[k][o]) { bad("produced area: inner ring is not inside the outer ring it is attached to", ring_str(r) + " attached to " + ring_str(R.rings[o])); return false; }
            if (!(depth[k] & 1)) { bad("produced area: inner ring lies inside an even number of rings (region differs from the even-odd fill)", ring_str(r)); return false; }
            if (depth[o] != depth[k] - 1) { bad("produced area: inner ring is attached to an outer ring that is not its directly enclosing ring", ring_str(r) + " attached to " + ring_str(R.rings[o])); return false; }
        }
    }
    // 5. orientation (judged on rings that do not touch themselves)
    for (size_t k = 0; k < n; ++k) {
        if (!simple[k]) { vh::count("notjudged_orientation_of_self_touching_ring"); continue; }
        const int s = sgn(shoelace(R.rings[k].pts));
        const int want = R.rings[k].outer ? OUTER_SIGN : -OUTER_SIGN;
        if (s != want) {
            bad(R.rings[k].outer ? "produced area: outer ring has the wrong orientation (shoelace sum not positive)" :
                                   "produced area: inner ring has the wrong orientation (shoelace sum not negative)", ring_str(R.rings[k]));
            return false;
        }
        vh::count(R.rings[k].outer ? "outer_rings_checked" : "inner_rings_checked");
    }
    // canonical form
    for (size_t k = 0; k < n; ++k) {
        const auto& r = R.rings[k];
        canon.rings.push_back(r.outer ? "O" + canon_ring(r) : "I" + canon_ring(r) + " in " + canon_ring(R.rings[static_cast<size_t>(r.parent)]));
    }
    std::sort(canon.rings.begin(), canon.rings.end());
    vh::count_max("max_area_rings", n);
    vh::count_max("max_nesting_depth", static_cast<uint64_t>(*std::max_element(depth.begin(), depth.end())));
    return ok;
}

// ------------------------------------------------------------------ one case

enum Transform { T_BASE, T_PERM, T_REV, T_RECUT, T_ROLES, T_IDS, T_CFG, T_IFACE, T_ALL, T_COUNT };
const char* const TNAME[T_COUNT] = {"base", "member order", "way direction", "cutting of rings into ways", "role assignment",
                                    "node ids of same-location nodes", "configuration (check_roles/create_empty_areas)",
                                    "interface (closed way vs. relation with one member)", "all transformations combined"};

void alias_ids(Input& in, vh::Rng& rng) {
    int64_t next = 5000000;
    for (auto& w : in.ways) {
        std::vector<WNode> nn;
        for (auto& n : w.nodes) {
            if (rng.chance(1, 3)) n.id = ++next;
            nn.push_back(n);
            if (rng.chance(1, 10)) nn.push_back(WNode{n.p, rng.coin() ? n.id : ++next});
        }
        w.nodes = std::move(nn);
    }
}

Input transform(const Arrangement& A, const Input& base, Transform t, vh::Rng& rng) {
    Input in = base;
    switch (t) {
        case T_PERM: rng.shuffle(in.ways); if (in.ways.size() > 1 && rng.coin()) std::reverse(in.ways.begin(), in.ways.end()); break;
        case T_REV: { const bool all = rng.coin(); for (auto& w : in.ways) if (all || rng.coin()) std::reverse(w.nodes.begin(), w.nodes.end()); break; }
        case T_RECUT: in = make_input(A, rng, static_cast<int>(rng.below(5)), 3, 0, 0); in.check_roles = base.check_roles; in.create_empty_areas = base.create_empty_areas; break;
        case T_ROLES: assign_roles(in.ways, rng, static_cast<int>(rng.below(4))); break;
        case T_IDS: alias_ids(in, rng); break;
        case T_CFG: if (rng.coin()) { in.check_roles = !in.check_roles; in.create_empty_areas = rng.coin(); } else { in.create_empty_areas = !in.create_empty_areas; } break;
        case T_IFACE: if (in.ways.size() == 1) in.as_way = !in.as_way; else rng.shuffle(in.ways); break;
        case T_ALL:
            in = make_input(A, rng, static_cast<int>(rng.below(5)), static_cast<int>(rng.below(4)), rng.coin() ? 0 : 4, rng.coin() ? 0 : 12);
            for (auto& w : in.ways) if (rng.coin()) std::reverse(w.nodes.begin(), w.nodes.end());
            break;
        default: break;
    }
    if (in.ways.size() != 1) in.as_way = false;
    return in;
}

struct Outcome {
    bool assembled = false;
    bool checked = false;       // area passed the oracle
    bool self_touching = false;
    Canon canon;
};

std::string reported(const Recorder& r) {
    std::string s;
    if (r.intersections) s += "intersection ";
    if (r.not_closed) s += "ring_not_closed ";
    if (s.empty()) s = "nothing";
    else s.pop_back();
    return s;
}

// family name "cells dia+dia 30x30 ...": all pieces are diagonal chains
bool only_diagonal_chains(const std::string& family) {
    if (family.compare(0, 6, "cells ") != 0) return false;
    std::string pat = family.substr(6, family.find(' ', 6) - 6);
    size_t pos;
    while ((pos = pat.find("dia")) != std::string::npos) pat.erase(pos, 3);
    return pat.find_first_not_of('+') == std::string::npos;
}

void run_case(uint64_t idx, vh::Rng& rng) {
    const bool T = vh::thorough();
    const bool big = rng.chance(1, T ? 4 : 6);
    Arrangement A;
    for (int attempt = 0; attempt < 6; ++attempt) {
        A = rng.chance(3, 5) ? gen_cells(rng, big && attempt < 3) : gen_nested_top(rng, big && attempt < 3);
        if (!A.edges.empty() && A.edges.size() <= 420) break;
        A = Arrangement{};
    }
    if (A.edges.empty()) { vh::count("skipped_empty_or_too_big"); return; }
    vh::set_case_desc("case %" PRIu64 " %s edges=%zu", idx, A.family.c_str(), A.edges.size());

    // ground truth of the construction, re-checked by brute force
    const Truth T0 = classify(A.edges);
    if (!T0.empty() && !T0.valid()) {
        vh::violation("harness: constructed arrangement is not valid (generator bug)",
                      vh::fmt("%s cross=%zu overlap=%zu T=%zu odd=%zu %s", A.family.c_str(), T0.n_cross, T0.n_overlap, T0.n_t, T0.n_odd,
                              T0.n_cross ? (sstr(T0.w_cross[0]) + " x " + sstr(T0.w_cross[1])).c_str() : T0.n_overlap ? (sstr(T0.w_overlap[0]) + " / " + sstr(T0.w_overlap[1])).c_str() : ""));
        return;
    }
    // defect injection
    if (!T0.empty() && rng.chance(2, 5)) {
        bool done = false;
        switch (rng.below(7)) {
            case 0: case 1: done = inject_crossing(A, T0, rng); A.defect = "crossing"; break;
            case 2: case 3: done = inject_open(A, rng); A.defect = "open"; break;
            case 4: case 5: done = inject_overlap(A, T0, rng); A.defect = "overlap"; break;
            default: done = inject_crossing(A, T0, rng); if (inject_open(A, rng)) done = true; A.defect = "crossing+open"; break;
        }
        if (!done) A.defect = "none";
        else A.constructed_valid = false;
    }
    const Truth Tr = A.constructed_valid ? T0 : classify(A.edges);
    // Budget: with 14..23 touching points in dense patterns one assembler call can take seconds of CPU (exponential
    // search just below the library's recursion limit). Three out of four such arrangements are dropped; chains of
    // cells on a diagonal are cheap and always kept.
    if (Tr.n_touch >= 14 && Tr.n_touch <= 23 && !only_diagonal_chains(A.family) && !rng.chance(1, 4)) { vh::count("skipped_expensive_band_14_23_touching_points"); return; }
    std::vector<Seg> all_segments;
    for (const auto& e : A.edges) all_segments.emplace_back(e.a, e.b);
    std::sort(all_segments.begin(), all_segments.end());

    enum { E_VALID, E_INVALID, E_NOTJUDGED } expect;
    const char* kind = "";
    if (Tr.invalid_for_sure()) { expect = E_INVALID; kind = Tr.n_cross ? "crossing segments" : Tr.n_overlap ? "overlapping collinear segments" : "an open ring"; }
    else if (Tr.valid() && Tr.n_touch <= MAX_TOUCHING_JUDGED) expect = E_VALID;
    else expect = E_NOTJUDGED;
    if (expect == E_NOTJUDGED) vh::count(Tr.empty() ? "notjudged_no_segments_left_mod2" : Tr.n_t ? "notjudged_T_junction_input" : "notjudged_more_than_100_touching_points");
    if (!A.constructed_valid && expect == E_VALID) vh::count("defect_injection_left_arrangement_valid");

    uint64_t h = vh::hash_str(A.defect);
    for (const auto& s : Tr.reduced) { h = vh::hash_u64(static_cast<uint64_t>(s.a.x) * 1000003ULL + static_cast<uint64_t>(s.a.y), h); h = vh::hash_u64(static_cast<uint64_t>(s.b.x) * 1000003ULL + static_cast<uint64_t>(s.b.y), h); }
    vh::distinct(h);
    vh::count("arrangements");
    vh::count(std::string("arrangements_") + (expect == E_VALID ? "valid" : expect == E_INVALID ? "invalid" : "notjudged"));
    vh::count("family_" + A.family.substr(0, A.family.find(' ')));
    if (Tr.n_touch) vh::count("arrangements_with_touching_points");
    if (Tr.n_dup_pairs) vh::count("arrangements_with_duplicate_segments");
    if (Tr.n_triple) vh::count("arrangements_with_triple_segments");
    vh::count_max("max_touching_points", Tr.n_touch <= MAX_TOUCHING_JUDGED ? Tr.n_touch : 0);
    vh::count_max("max_segments", A.edges.size());
    vh::cover("defect", A.defect);
    vh::cover("touching_points", vh::fmt("%zu", Tr.n_touch >= 10 ? Tr.n_touch / 10 * 10 : Tr.n_touch));

    // variants
    std::vector<Transform> plan{T_BASE};
    if (T) { for (int t = T_PERM; t < T_COUNT; ++t) plan.push_back(static_cast<Transform>(t)); }
    else {
        std::vector<Transform> all;
        for (int t = T_PERM; t < T_COUNT; ++t) all.push_back(static_cast<Transform>(t));
        rng.shuffle(all);
        plan.insert(plan.end(), all.begin(), all.begin() + 3);
    }
    const Input base = make_input(A, rng, static_cast<int>(rng.below(5)), static_cast<int>(rng.below(4)), rng.chance(1, 5) ? 4 : 0, rng.chance(1, 6) ? 12 : 0);
    Outcome base_out;
    for (Transform t : plan) {
        const Input in = t == T_BASE ? base : transform(A, base, t, rng);
        if (input_segments(in) != all_segments) {
            vh::violation("harness: cutting into ways changed the segment multiset", std::string(TNAME[t]) + " | " + describe_input(in));
            continue;
        }
        const std::string ctx = vh::fmt("[%s; defect=%s; variant=%s] ", A.family.c_str(), A.defect.c_str(), TNAME[t]) + describe_input(in);
        const Result R = run_assembler(in);
        vh::heartbeat();   // progress for the driver's hang oracle: one assembler call finished
        vh::evaluated();
        if (vh::arg_int("dump", 0)) {   // triage only
            std::fprintf(stderr, "=== %s\nret=%d area=%d reported=%s\n", ctx.c_str(), R.ret, R.area_present, reported(R.rep).c_str());
            for (const auto& r : R.rings) std::fprintf(stderr, "  %s%s\n", r.outer ? "" : "    ", ring_str(r, 1000).c_str());
        }
        vh::count("assembler_runs");
        vh::count(in.as_way ? "runs_way_interface" : "runs_relation_interface");
        vh::count_max("max_member_ways", in.ways.size());
        if (R.rep.duplicate_node) vh::count("runs_with_same_location_nodes_reported");
        if (R.stats.area_really_complex_case) vh::count("runs_really_complex_case");
        else if (R.stats.area_touching_rings_case) vh::count("runs_touching_rings_case");
        else if (R.stats.area_simple_case) vh::count("runs_simple_case");
        Outcome o;
        o.assembled = R.assembled();
        if (expect == E_VALID && !o.assembled) {
            vh::violation(std::string(Tr.n_touch ? "valid arrangement with touching rings is not assembled" : "valid arrangement without touching rings is not assembled") +
                              (R.stats.area_really_complex_case ? " (rings touching in several points, open partial rings had to be joined)" : "") +
                              "; reported: " + reported(R.rep),
                          vh::fmt("ret=%d area=%d touching=%zu segments=%zu ", R.ret, R.area_present, Tr.n_touch, Tr.reduced.size()) + ctx);
        } else if (expect == E_INVALID && o.assembled) {
            vh::violation(std::string("arrangement with ") + kind + " is assembled into an area",
                          vh::fmt("cross=%zu overlap=%zu odd=%zu %s ", Tr.n_cross, Tr.n_overlap, Tr.n_odd,
                                  Tr.n_cross ? (sstr(Tr.w_cross[0]) + " x " + sstr(Tr.w_cross[1])).c_str() : Tr.n_overlap ? (sstr(Tr.w_overlap[0]) + " / " + sstr(Tr.w_overlap[1])).c_str() : pstr(Tr.w_odd).c_str()) + ctx);
        } else if (expect == E_INVALID) {
            // (the library counts a T-junction as an intersection; T-junctions are not judged, so such a report is accepted)
            const bool match = ((Tr.n_cross || Tr.n_overlap || Tr.n_t) && R.rep.intersections) || (Tr.n_odd && R.rep.not_closed);
            if (!match) vh::violation(std::string("rejected arrangement with ") + kind + ": no matching problem report", "reported: " + reported(R.rep) + " " + ctx);
            else vh::count(std::string("invalid_rejected_and_reported_") + (Tr.n_cross ? "crossing" : Tr.n_overlap ? "overlap" : "open"));
        }
        if (o.assembled && expect != E_INVALID) {
            o.checked = check_area(R, Tr, ctx, o.canon, o.self_touching);
            if (o.checked) {
                vh::count("areas_checked");
                if (expect == E_VALID) vh::count("valid_assembled_and_checked");
                size_t ni = 0;
                for (const auto& r : R.rings) ni += !r.outer;
                if (ni) vh::count("areas_with_inner_rings");
                if (R.rings.size() - ni > 1) vh::count("areas_with_several_outer_rings");
                if (o.self_touching) vh::count("areas_with_self_touching_ring");
            }
        }
        if (t == T_BASE) {
            base_out = o;
            if (vh::st().samples.size() < 4 && idx % 50 == 0) vh::sample_str(vh::fmt("expect=%s assembled=%d rings=%zu ", expect == E_VALID ? "valid" : expect == E_INVALID ? kind : "notjudged", o.assembled, R.rings.size()) + ctx);
            continue;
        }
        // metamorphic comparison with the base variant
        vh::count("metamorphic_pairs");
        if (o.assembled != base_out.assembled) {
            if (expect == E_NOTJUDGED)   // otherwise one of the two was already reported above
                vh::violation(std::string("whether an area is produced depends on: ") + TNAME[t], ctx + " || BASE: " + describe_input(base, 1500));
        } else if (o.assembled && o.checked && base_out.checked) {
            if (Tr.n_touch == 0) {
                vh::count("ring_sets_compared");
                if (!(o.canon == base_out.canon)) {
                    std::string d;
                    for (const auto& r : o.canon.rings) if (!std::binary_search(base_out.canon.rings.begin(), base_out.canon.rings.end(), r)) { d = r; break; }
                    vh::violation(std::string("ring set of the area depends on: ") + TNAME[t], "ring only in variant: " + d.substr(0, 600) + " | " + ctx + " || BASE: " + describe_input(base, 1500));
                }
            } else if (!(o.canon == base_out.canon)) {
                vh::count("info_touching_rings_decomposition_differs_between_variants");
            } else {
                vh::count("info_touching_rings_decomposition_same");
            }
        }
    }
}

// ------------------------------------------------------------------ self-check of the geometry predicates

void self_check() {
    auto S = [](int64_t a, int64_t b, int64_t c, int64_t d) { return Seg{Pt{a, b}, Pt{c, d}}; };
    struct { Seg s, t; Rel want; } cases[] = {
        {S(0, 0, 2, 2), S(0, 2, 2, 0), R_CROSS}, {S(0, 0, 2, 0), S(1, 0, 3, 0), R_OVERLAP}, {S(0, 0, 3, 0), S(1, 0, 2, 0), R_OVERLAP},
        {S(0, 0, 2, 0), S(2, 0, 3, 0), R_ENDPOINT}, {S(0, 0, 2, 0), S(0, 0, 3, 0), R_OVERLAP}, {S(0, 0, 2, 0), S(1, 0, 1, 5), R_T},
        {S(0, 0, 2, 0), S(2, 0, 2, 5), R_ENDPOINT}, {S(0, 0, 2, 0), S(3, 0, 4, 0), R_NONE}, {S(0, 0, 2, 0), S(0, 1, 2, 1), R_NONE},
        {S(0, 0, 0, 2), S(0, 1, 0, 3), R_OVERLAP}, {S(0, 0, 0, 2), S(0, 2, 0, 3), R_ENDPOINT}, {S(0, 0, 2, 2), S(0, 0, 2, 2), R_SAME},
        {S(-536870911, -536870911, 536870911, 536870911), S(-536870911, 536870911, 536870911, -536870911), R_CROSS},
        {S(0, 0, 4, 4), S(1, 0, 5, 4), R_NONE}, {S(0, 0, 4, 0), S(5, -1, 5, 1), R_NONE}, {S(0, 0, 4, 0), S(4, -1, 4, 1), R_T}};
    for (const auto& c : cases) {
        if (relation(c.s, c.t) != c.want || relation(c.t, c.s) != c.want) { std::fprintf(stderr, "self-check failed: %s vs %s\n", sstr(c.s).c_str(), sstr(c.t).c_str()); std::exit(2); }
    }
    const std::vector<Pt> sq{Pt{0, 0}, Pt{4, 0}, Pt{4, 4}, Pt{0, 4}, Pt{0, 0}};
    if (point_in_ring(sq, Pt{2, 2}) != 1 || point_in_ring(sq, Pt{5, 2}) != 0 || point_in_ring(sq, Pt{4, 2}) != -1 || point_in_ring(sq, Pt{-1, 0}) != 0 ||
        point_in_ring(sq, Pt{-1, 4}) != 0 || point_in_ring(sq, Pt{2, 4}) != -1 || sgn(shoelace(sq)) != 1) { std::fprintf(stderr, "self-check failed: point_in_ring/shoelace\n"); std::exit(2); }
}

} // namespace

int main(int argc, char** argv) {
    vh::parse_args(argc, argv);
    self_check();
    const int64_t slow_ms = vh::arg_int("slow-ms", 0);   // triage only: print cases slower than this to stderr
    return vh::run_cases(argc, argv, 5000, [slow_ms](uint64_t idx, vh::Rng& rng) {
        const std::clock_t t0 = std::clock();   // CPU time: independent of the machine's load
        run_case(idx, rng);
        const auto ms = static_cast<long long>(std::clock() - t0) * 1000 / CLOCKS_PER_SEC;
        if (slow_ms && ms >= slow_ms) std::fprintf(stderr, "slow: %lld ms %s\n", static_cast<long long>(ms), vh::st().case_desc);
    });
}
