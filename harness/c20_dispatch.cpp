// C20 - handler dispatch (osmium::apply / apply_item / apply_flush, DynamicHandler,
// ChainHandler, functors wrapped as handlers) and diff iteration (DiffIterator,
// apply_diff, DiffHandler).
//
// Oracle: every callback appends (handler index, callback, static param type,
// item index by address, dynamic item type, id, version) to an ordered log.
// The log is compared with a model computed from the item sequence: for every
// item the source yields, in order, for every handler in argument order,
// osm_object (OSM objects only) and then exactly the type callback; one flush
// per handler at the end. Not judged (documentation silent): whether removed
// items are yielded (both alternatives accepted, dispatch rules must hold
// either way), whether DynamicHandler/ChainHandler forward osm_object and
// sub-item callbacks to the wrapped handlers, functors with a non-const call
// operator and functors taking `const Item&` (counted as information).
//
// The TU is built several times; C20_PART selects what is compiled:
//   1 = apply(Buffer&)                       2 = apply over const sources
//   5 = apply over non-const iterator ranges  3 = apply over InputIterator sources (mock source)
//   6 = apply_item loops, apply over a real Reader
//   4 = DiffIterator / apply_diff (buffer, mock source, real Reader)
//   0 / undefined = everything

#include "vh.hpp"

#include <osmium/builder/osm_object_builder.hpp>
#include <osmium/diff_handler.hpp>
#include <osmium/diff_iterator.hpp>
#include <osmium/diff_visitor.hpp>
#include <osmium/dynamic_handler.hpp>
#include <osmium/handler.hpp>
#include <osmium/handler/chain.hpp>
#include <osmium/io/input_iterator.hpp>
#include <osmium/io/opl_input.hpp>
#include <osmium/io/reader.hpp>
#include <osmium/memory/buffer.hpp>
#include <osmium/osm.hpp>
#include <osmium/visitor.hpp>

#include "vh_hooks.hpp"

#include <algorithm>
#include <array>
#include <cstring>
#include <memory>
#include <string>
#include <tuple>
#include <type_traits>
#include <utility>
#include <vector>

#ifndef C20_PART
# define C20_PART 0
#endif
#define PART(n) (C20_PART == 0 || C20_PART == (n))

namespace {

using osmium::item_type;
using osmium::memory::Buffer;
using osmium::memory::Item;

// ------------------------------------------------------------------ items

enum Sym : int { SY_N, SY_W, SY_R, SY_A, SY_C, SY_RN, SY_RC, SY_T, SY_L, SY_M, SY_O, SY_I, SY_D, NSYM };
const char SYMCH[] = "nwracNCtlmoid";

item_type sym_type(int s) {
    switch (s) {
        case SY_N: case SY_RN: return item_type::node;
        case SY_W: return item_type::way;
        case SY_R: return item_type::relation;
        case SY_A: return item_type::area;
        case SY_C: case SY_RC: return item_type::changeset;
        case SY_T: return item_type::tag_list;
        case SY_L: return item_type::way_node_list;
        case SY_M: return item_type::relation_member_list;
        case SY_O: return item_type::outer_ring;
        case SY_I: return item_type::inner_ring;
        default: return item_type::changeset_discussion;
    }
}
bool type_is_object(item_type t) { return t == item_type::node || t == item_type::way || t == item_type::relation || t == item_type::area; }
bool type_is_entity(item_type t) { return type_is_object(t) || t == item_type::changeset; }

struct ItemInfo {
    int sym = 0;
    item_type type = item_type::undefined;
    bool removed = false;
    int64_t id = 0;        // 0 for non-entities
    uint32_t version = 0;  // num_changes for changesets
    const unsigned char* addr = nullptr;
};

void add_tags(osmium::builder::Builder& parent, int idx) {
    osmium::builder::TagListBuilder tb{parent};
    tb.add_tag("k" + std::to_string(idx), "value");
    tb.add_tag("name", "x");
}

// Appends one top-level item of kind `s` to the buffer. Entities carry nested
// sub-items (which apply() must NOT dispatch).
ItemInfo build_item(Buffer& b, int s, int idx) {
    using namespace osmium::builder;
    ItemInfo info;
    info.sym = s;
    info.type = sym_type(s);
    info.removed = (s == SY_RN || s == SY_RC);
    const std::size_t off = b.committed();
    const int64_t id = idx + 1;
    const uint32_t ver = static_cast<uint32_t>(7 * (idx + 1) + s);
    switch (info.type) {
        case item_type::node: {
            NodeBuilder nb{b};
            nb.set_id(id).set_version(ver).set_location(osmium::Location{1.0 + idx, 2.0});
            nb.set_user("u");
            add_tags(nb, idx);
            break;
        }
        case item_type::way: {
            WayBuilder wb{b};
            wb.set_id(id).set_version(ver);
            wb.set_user("u");
            {
                WayNodeListBuilder nl{wb};
                for (int i = 0; i <= idx; ++i) nl.add_node_ref(100 + i);
            }
            add_tags(wb, idx);
            break;
        }
        case item_type::relation: {
            RelationBuilder rb{b};
            rb.set_id(id).set_version(ver);
            rb.set_user("u");
            {
                RelationMemberListBuilder ml{rb};
                ml.add_member(item_type::node, 5, "role");
                ml.add_member(item_type::way, 6, "");
            }
            add_tags(rb, idx);
            break;
        }
        case item_type::area: {
            AreaBuilder ab{b};
            ab.set_id(id).set_version(ver);
            ab.set_user("u");
            add_tags(ab, idx);
            {
                OuterRingBuilder ob{ab};
                ob.add_node_ref(1, osmium::Location{0.0, 0.0});
                ob.add_node_ref(2, osmium::Location{0.0, 3.0});
                ob.add_node_ref(3, osmium::Location{3.0, 3.0});
                ob.add_node_ref(1, osmium::Location{0.0, 0.0});
            }
            {
                InnerRingBuilder ib{ab};
                ib.add_node_ref(4, osmium::Location{1.0, 1.0});
                ib.add_node_ref(5, osmium::Location{1.0, 2.0});
                ib.add_node_ref(6, osmium::Location{2.0, 2.0});
                ib.add_node_ref(4, osmium::Location{1.0, 1.0});
            }
            break;
        }
        case item_type::changeset: {
            ChangesetBuilder cb{b};
            cb.set_id(static_cast<osmium::changeset_id_type>(id)).set_num_changes(ver);
            cb.set_user("u");
            add_tags(cb, idx);
            {
                ChangesetDiscussionBuilder db{cb};
                db.add_comment(osmium::Timestamp{uint32_t{1000}}, 3, "user");
                db.add_comment_text("text");
            }
            break;
        }
        case item_type::tag_list: {
            TagListBuilder tb{b};
            tb.add_tag("top", "level");
            break;
        }
        case item_type::way_node_list: {
            WayNodeListBuilder nl{b};
            nl.add_node_ref(7);
            nl.add_node_ref(8);
            break;
        }
        case item_type::relation_member_list: {
            RelationMemberListBuilder ml{b};
            ml.add_member(item_type::relation, 9, "r");
            break;
        }
        case item_type::outer_ring: {
            OuterRingBuilder ob{b};
            ob.add_node_ref(1);
            ob.add_node_ref(2);
            break;
        }
        case item_type::inner_ring: {
            InnerRingBuilder ib{b};
            ib.add_node_ref(3);
            break;
        }
        default: {
            ChangesetDiscussionBuilder db{b};
            db.add_comment(osmium::Timestamp{uint32_t{2000}}, 4, "someone");
            db.add_comment_text("hello");
            break;
        }
    }
    b.commit();
    if (info.removed) b.get<Item>(off).set_removed(true);
    if (type_is_entity(info.type)) { info.id = id; info.version = ver; }
    info.addr = b.data() + off;   // fixed up by the caller when the buffer can still grow
    return info;
}

// ------------------------------------------------------------------ callback log

enum Cb : uint8_t { CB_OBJ, CB_NODE, CB_WAY, CB_REL, CB_AREA, CB_CS, CB_TAGS, CB_WNL, CB_RML, CB_OUTER, CB_INNER, CB_DISC, CB_FLUSH, CB_CALL, NCB };
const char* const CBNAME[] = {"osm_object", "node", "way", "relation", "area", "changeset", "tag_list", "way_node_list",
                              "relation_member_list", "outer_ring", "inner_ring", "changeset_discussion", "flush", "operator()"};
// static parameter type through which a functor was called
enum St : uint8_t { ST_NONE, ST_NODE, ST_WAY, ST_REL, ST_AREA, ST_CS, ST_OBJ, ST_ENTITY, ST_ITEM, ST_OTHER };
const char* const STNAME[] = {"", "Node", "Way", "Relation", "Area", "Changeset", "OSMObject", "OSMEntity", "Item", "other"};

template <typename T> constexpr St st_of() {
    using U = std::decay_t<T>;
    return std::is_same<U, osmium::Node>::value ? ST_NODE : std::is_same<U, osmium::Way>::value ? ST_WAY :
           std::is_same<U, osmium::Relation>::value ? ST_REL : std::is_same<U, osmium::Area>::value ? ST_AREA :
           std::is_same<U, osmium::Changeset>::value ? ST_CS : std::is_same<U, osmium::OSMObject>::value ? ST_OBJ :
           std::is_same<U, osmium::OSMEntity>::value ? ST_ENTITY : std::is_same<U, Item>::value ? ST_ITEM : ST_OTHER;
}

struct Ev {
    uint8_t h = 0;      // handler index: 4 * position in the argument list + sub-handler
    uint8_t cb = 0;
    uint8_t st = 0;
    int8_t item = -1;   // index of the item in the sequence (-1: flush / unknown address)
    uint16_t type = 0;  // dynamic item type as read through the reference the callback got
    int64_t id = 0;
    uint32_t ver = 0;
    bool operator==(const Ev& o) const { return h == o.h && cb == o.cb && st == o.st && item == o.item && type == o.type && id == o.id && ver == o.ver; }
};

constexpr std::size_t MAXLOG = 4096;
Ev g_log[MAXLOG];
std::size_t g_nlog = 0;
bool g_log_overflow = false;
// address -> item index of the current sequence; g_by_id: resolve by entity id (real Reader)
const unsigned char* g_addr[40];
int g_naddr = 0;
bool g_by_id = false;

void rec(int h, Cb cb, St st, const Item* it) {
    if (g_nlog >= MAXLOG) { g_log_overflow = true; return; }
    Ev& e = g_log[g_nlog++];
    e = Ev{};
    e.h = static_cast<uint8_t>(h);
    e.cb = cb;
    e.st = st;
    if (!it) return;
    const item_type t = it->type();
    e.type = static_cast<uint16_t>(t);
    if (type_is_object(t)) {
        const auto* o = static_cast<const osmium::OSMObject*>(it);
        e.id = o->id();
        e.ver = o->version();
    } else if (t == item_type::changeset) {
        const auto* c = static_cast<const osmium::Changeset*>(it);
        e.id = c->id();
        e.ver = c->num_changes();
    }
    if (g_by_id) {
        e.item = static_cast<int8_t>(e.id - 1);
    } else {
        const auto* p = reinterpret_cast<const unsigned char*>(it);
        for (int i = 0; i < g_naddr; ++i) if (g_addr[i] == p) { e.item = static_cast<int8_t>(i); break; }
    }
}

// ------------------------------------------------------------------ handler kinds

#define C20_FULL_CALLBACKS(CQ, MQ) \
    void osm_object(CQ osmium::OSMObject& o) MQ { rec(h, CB_OBJ, ST_NONE, &o); } \
    void node(CQ osmium::Node& o) MQ { rec(h, CB_NODE, ST_NONE, &o); } \
    void way(CQ osmium::Way& o) MQ { rec(h, CB_WAY, ST_NONE, &o); } \
    void relation(CQ osmium::Relation& o) MQ { rec(h, CB_REL, ST_NONE, &o); } \
    void area(CQ osmium::Area& o) MQ { rec(h, CB_AREA, ST_NONE, &o); } \
    void changeset(CQ osmium::Changeset& o) MQ { rec(h, CB_CS, ST_NONE, &o); } \
    void tag_list(CQ osmium::TagList& o) MQ { rec(h, CB_TAGS, ST_NONE, &o); } \
    void way_node_list(CQ osmium::WayNodeList& o) MQ { rec(h, CB_WNL, ST_NONE, &o); } \
    void relation_member_list(CQ osmium::RelationMemberList& o) MQ { rec(h, CB_RML, ST_NONE, &o); } \
    void outer_ring(CQ osmium::OuterRing& o) MQ { rec(h, CB_OUTER, ST_NONE, &o); } \
    void inner_ring(CQ osmium::InnerRing& o) MQ { rec(h, CB_INNER, ST_NONE, &o); } \
    void changeset_discussion(CQ osmium::ChangesetDiscussion& o) MQ { rec(h, CB_DISC, ST_NONE, &o); } \
    void flush() MQ { rec(h, CB_FLUSH, ST_NONE, nullptr); }

struct RecS : osmium::handler::Handler {    // const-reference parameters
    int h;
    explicit RecS(int h_) : h(h_) {}
    C20_FULL_CALLBACKS(const, )
};
struct RecSN : osmium::handler::Handler {   // non-const reference parameters
    int h;
    explicit RecSN(int h_) : h(h_) {}
    C20_FULL_CALLBACKS(, )
};
struct RecSC : osmium::handler::Handler {   // const member functions, used through a const lvalue
    int h;
    explicit RecSC(int h_) : h(h_) {}
    C20_FULL_CALLBACKS(const, const)
};
struct RecP : osmium::handler::Handler {    // overrides only three callbacks and flush
    int h;
    explicit RecP(int h_) : h(h_) {}
    void way(const osmium::Way& o) { rec(h, CB_WAY, ST_NONE, &o); }
    void changeset(const osmium::Changeset& o) { rec(h, CB_CS, ST_NONE, &o); }
    void inner_ring(const osmium::InnerRing& o) { rec(h, CB_INNER, ST_NONE, &o); }
    void flush() { rec(h, CB_FLUSH, ST_NONE, nullptr); }
};
struct FunD {   // visitor-style functor for DynamicHandler (no named callbacks, no flush)
    int h;
    // The function object has state of its own: every call must reach the object that
    // DynamicHandler::set<>() constructed, not a copy of it (a copy keeps the address of the original)
    const FunD* self;
    explicit FunD(int h_) : h(h_), self(this) {}
    void same() const { if (self != this) vh::violation("DynamicHandler forwards an item to a copy of the function object it holds", "state kept in the function object is lost"); }
    void operator()(const osmium::Node& o) { same(); rec(h, CB_CALL, ST_NODE, &o); }
    void operator()(const osmium::Way& o) { same(); rec(h, CB_CALL, ST_WAY, &o); }
    void operator()(const Item& o) { same(); rec(h, CB_CALL, ST_ITEM, &o); }
};
struct Fun2 {   // function object with two call operators, wrapped by apply()
    int h;
    void operator()(const osmium::Node& o) const { rec(h, CB_CALL, ST_NODE, &o); }
    void operator()(osmium::Relation& o) const { rec(h, CB_CALL, ST_REL, &o); }
};

enum Kind : int {
    K_S, K_SN, K_SC, K_ST, K_P, K_D0, K_DS, K_DF,
    K_LcN, K_LnN, K_LcW, K_LnW, K_LcR, K_LnR, K_LcA, K_LnA, K_LcC, K_LnC, K_LcO, K_LnO, K_LcE, K_LnE,
    K_LG, K_LL, K_F2, K_LM, K_LI, K_CH2, K_CH3, K_CHN, NKIND
};
const char* const KINDNAME[] = {
    "static handler", "static handler (non-const parameters)", "const static handler", "temporary static handler",
    "partial static handler", "empty DynamicHandler", "DynamicHandler(handler)", "DynamicHandler(functor)",
    "lambda(const Node&)", "lambda(Node&)", "lambda(const Way&)", "lambda(Way&)", "lambda(const Relation&)", "lambda(Relation&)",
    "lambda(const Area&)", "lambda(Area&)", "lambda(const Changeset&)", "lambda(Changeset&)", "lambda(const OSMObject&)",
    "lambda(OSMObject&)", "lambda(const OSMEntity&)", "lambda(OSMEntity&)", "generic lambda(const auto&)", "lvalue lambda(const Node&)",
    "functor(const Node&|Relation&)", "mutable lambda(const Way&)", "lambda(const Item&)",
    "ChainHandler<static,static>", "ChainHandler<static,DynamicHandler,static-nonconst>", "ChainHandler<ChainHandler<static,static>,static>"};

template <int K> struct Holder;

template <> struct Holder<K_S> { RecS s; explicit Holder(int p) : s(p * 4) {} RecS& arg() { return s; } };
template <> struct Holder<K_SN> { RecSN s; explicit Holder(int p) : s(p * 4) {} RecSN& arg() { return s; } };
template <> struct Holder<K_SC> { const RecSC s; explicit Holder(int p) : s(p * 4) {} const RecSC& arg() { return s; } };
template <> struct Holder<K_ST> { int h; explicit Holder(int p) : h(p * 4) {} RecS arg() { return RecS{h}; } };
template <> struct Holder<K_P> { RecP s; explicit Holder(int p) : s(p * 4) {} RecP& arg() { return s; } };
template <> struct Holder<K_D0> { osmium::handler::DynamicHandler d; explicit Holder(int) {} osmium::handler::DynamicHandler& arg() { return d; } };
template <> struct Holder<K_DS> {
    osmium::handler::DynamicHandler d;
    explicit Holder(int p) { d.set<RecS>(p * 4); }
    osmium::handler::DynamicHandler& arg() { return d; }
};
template <> struct Holder<K_DF> {
    osmium::handler::DynamicHandler d;
    explicit Holder(int p) { d.set<FunD>(p * 4); }
    osmium::handler::DynamicHandler& arg() { return d; }
};

#define C20_LAMBDA_HOLDER(K, PARAM, ST) \
    template <> struct Holder<K> { int h; explicit Holder(int p) : h(p * 4) {} \
        auto arg() { const int hh = h; return [hh](PARAM x) { rec(hh, CB_CALL, ST, &x); }; } };
C20_LAMBDA_HOLDER(K_LcN, const osmium::Node&, ST_NODE)
C20_LAMBDA_HOLDER(K_LnN, osmium::Node&, ST_NODE)
C20_LAMBDA_HOLDER(K_LcW, const osmium::Way&, ST_WAY)
C20_LAMBDA_HOLDER(K_LnW, osmium::Way&, ST_WAY)
C20_LAMBDA_HOLDER(K_LcR, const osmium::Relation&, ST_REL)
C20_LAMBDA_HOLDER(K_LnR, osmium::Relation&, ST_REL)
C20_LAMBDA_HOLDER(K_LcA, const osmium::Area&, ST_AREA)
C20_LAMBDA_HOLDER(K_LnA, osmium::Area&, ST_AREA)
C20_LAMBDA_HOLDER(K_LcC, const osmium::Changeset&, ST_CS)
C20_LAMBDA_HOLDER(K_LnC, osmium::Changeset&, ST_CS)
C20_LAMBDA_HOLDER(K_LcO, const osmium::OSMObject&, ST_OBJ)
C20_LAMBDA_HOLDER(K_LnO, osmium::OSMObject&, ST_OBJ)
C20_LAMBDA_HOLDER(K_LcE, const osmium::OSMEntity&, ST_ENTITY)
C20_LAMBDA_HOLDER(K_LnE, osmium::OSMEntity&, ST_ENTITY)
C20_LAMBDA_HOLDER(K_LI, const Item&, ST_ITEM)
template <> struct Holder<K_LG> { int h; explicit Holder(int p) : h(p * 4) {}
    auto arg() { const int hh = h; return [hh](const auto& x) { rec(hh, CB_CALL, st_of<decltype(x)>(), &x); }; } };
template <> struct Holder<K_LM> { int h; explicit Holder(int p) : h(p * 4) {}
    auto arg() { const int hh = h; int calls = 0; return [hh, calls](const osmium::Way& x) mutable { ++calls; rec(hh, CB_CALL, ST_WAY, &x); }; } };
inline auto make_lvalue_lambda(int h) { return [h](const osmium::Node& x) { rec(h, CB_CALL, ST_NODE, &x); }; }
template <> struct Holder<K_LL> { decltype(make_lvalue_lambda(0)) l; explicit Holder(int p) : l(make_lvalue_lambda(p * 4)) {} auto& arg() { return l; } };
template <> struct Holder<K_F2> { Fun2 f; explicit Holder(int p) : f{p * 4} {} Fun2& arg() { return f; } };

template <> struct Holder<K_CH2> {
    RecS a, b;
    osmium::handler::ChainHandler<RecS, RecS> c;
    explicit Holder(int p) : a(p * 4), b(p * 4 + 1), c(a, b) {}
    auto& arg() { return c; }
};
template <> struct Holder<K_CH3> {
    RecS a;
    osmium::handler::DynamicHandler d;
    RecSN n;
    osmium::handler::ChainHandler<RecS, osmium::handler::DynamicHandler, RecSN> c;
    explicit Holder(int p) : a(p * 4), n(p * 4 + 2), c(a, d, n) { d.set<RecS>(p * 4 + 1); }
    auto& arg() { return c; }
};
template <> struct Holder<K_CHN> {
    RecS a, b, e;
    osmium::handler::ChainHandler<RecS, RecS> inner;
    osmium::handler::ChainHandler<osmium::handler::ChainHandler<RecS, RecS>, RecS> c;
    explicit Holder(int p) : a(p * 4), b(p * 4 + 1), e(p * 4 + 2), inner(a, b), c(inner, e) {}
    auto& arg() { return c; }
};

// ---- model side: what each kind is expected to log

enum Prof : uint8_t { PF_FULL, PF_ENT, PF_P, PF_LAMBDA, PF_GENERIC, PF_DF, PF_UNJUDGED };
enum : uint8_t { TB_N = 1, TB_W = 2, TB_R = 4, TB_A = 8, TB_C = 16, TB_OBJ = 15, TB_ENT = 31 };
struct Overload { uint8_t mask; bool pconst; uint8_t st; };
struct SubSpec { uint8_t sub; Prof prof; Overload ov[2]; int nov; };
struct KindSpec { std::vector<SubSpec> subs; bool needs_nonconst; bool is_handler; };

SubSpec lam(uint8_t mask, bool pconst, uint8_t st) { return SubSpec{0, PF_LAMBDA, {{mask, pconst, st}, {0, false, 0}}, 1}; }
SubSpec sp(uint8_t sub, Prof p) { return SubSpec{sub, p, {{0, false, 0}, {0, false, 0}}, 0}; }

const KindSpec& kind_spec(int k) {
    static std::vector<KindSpec> specs = [] {
        std::vector<KindSpec> v(NKIND);
        v[K_S] = {{sp(0, PF_FULL)}, false, true};
        v[K_SN] = {{sp(0, PF_FULL)}, true, true};
        v[K_SC] = {{sp(0, PF_FULL)}, false, true};
        v[K_ST] = {{sp(0, PF_FULL)}, false, true};
        v[K_P] = {{sp(0, PF_P)}, false, true};
        v[K_D0] = {{}, false, true};
        v[K_DS] = {{sp(0, PF_ENT)}, false, true};
        v[K_DF] = {{sp(0, PF_DF)}, false, true};
        v[K_LcN] = {{lam(TB_N, true, ST_NODE)}, false, false};
        v[K_LnN] = {{lam(TB_N, false, ST_NODE)}, false, false};
        v[K_LcW] = {{lam(TB_W, true, ST_WAY)}, false, false};
        v[K_LnW] = {{lam(TB_W, false, ST_WAY)}, false, false};
        v[K_LcR] = {{lam(TB_R, true, ST_REL)}, false, false};
        v[K_LnR] = {{lam(TB_R, false, ST_REL)}, false, false};
        v[K_LcA] = {{lam(TB_A, true, ST_AREA)}, false, false};
        v[K_LnA] = {{lam(TB_A, false, ST_AREA)}, false, false};
        v[K_LcC] = {{lam(TB_C, true, ST_CS)}, false, false};
        v[K_LnC] = {{lam(TB_C, false, ST_CS)}, false, false};
        v[K_LcO] = {{lam(TB_OBJ, true, ST_OBJ)}, false, false};
        v[K_LnO] = {{lam(TB_OBJ, false, ST_OBJ)}, false, false};
        v[K_LcE] = {{lam(TB_ENT, true, ST_ENTITY)}, false, false};
        v[K_LnE] = {{lam(TB_ENT, false, ST_ENTITY)}, false, false};
        v[K_LG] = {{sp(0, PF_GENERIC)}, false, false};
        v[K_LL] = {{lam(TB_N, true, ST_NODE)}, false, false};
        v[K_F2] = {{SubSpec{0, PF_LAMBDA, {{TB_N, true, ST_NODE}, {TB_R, false, ST_REL}}, 2}}, false, false};
        v[K_LM] = {{sp(0, PF_UNJUDGED)}, false, false};
        v[K_LI] = {{sp(0, PF_UNJUDGED)}, false, false};
        v[K_CH2] = {{sp(0, PF_ENT), sp(1, PF_ENT)}, true, true};
        v[K_CH3] = {{sp(0, PF_ENT), sp(1, PF_ENT), sp(2, PF_ENT)}, true, true};
        v[K_CHN] = {{sp(0, PF_ENT), sp(1, PF_ENT), sp(2, PF_ENT)}, true, true};
        return v;
    }();
    return specs[k];
}

uint8_t type_bit(item_type t) {
    switch (t) {
        case item_type::node: return TB_N;
        case item_type::way: return TB_W;
        case item_type::relation: return TB_R;
        case item_type::area: return TB_A;
        case item_type::changeset: return TB_C;
        default: return 0;
    }
}
Cb type_cb(item_type t) {
    switch (t) {
        case item_type::node: return CB_NODE;
        case item_type::way: return CB_WAY;
        case item_type::relation: return CB_REL;
        case item_type::area: return CB_AREA;
        case item_type::changeset: return CB_CS;
        case item_type::tag_list: return CB_TAGS;
        case item_type::way_node_list: return CB_WNL;
        case item_type::relation_member_list: return CB_RML;
        case item_type::outer_ring: return CB_OUTER;
        case item_type::inner_ring: return CB_INNER;
        default: return CB_DISC;
    }
}
St type_st(item_type t) {
    switch (t) {
        case item_type::node: return ST_NODE;
        case item_type::way: return ST_WAY;
        case item_type::relation: return ST_REL;
        case item_type::area: return ST_AREA;
        case item_type::changeset: return ST_CS;
        default: return ST_OTHER;
    }
}

struct ListDesc { int len; int kinds[4]; };

Ev mk_ev(int h, Cb cb, uint8_t st, int idx, const ItemInfo* it) {
    Ev e;
    e.h = static_cast<uint8_t>(h); e.cb = cb; e.st = st;
    if (it) { e.item = static_cast<int8_t>(idx); e.type = static_cast<uint16_t>(it->type); e.id = it->id; e.ver = it->version; }
    return e;
}

// expected callbacks of the handler at argument position p for one item
void model_item(int kind, int p, int idx, const ItemInfo& it, bool src_const, std::vector<Ev>& out) {
    const item_type t = it.type;
    const uint8_t bit = type_bit(t);
    for (const SubSpec& s : kind_spec(kind).subs) {
        const int h = p * 4 + s.sub;
        switch (s.prof) {
            case PF_FULL:
                if (type_is_object(t)) out.push_back(mk_ev(h, CB_OBJ, ST_NONE, idx, &it));
                out.push_back(mk_ev(h, type_cb(t), ST_NONE, idx, &it));
                break;
            case PF_ENT:
                if (bit) out.push_back(mk_ev(h, type_cb(t), ST_NONE, idx, &it));
                break;
            case PF_P:
                if (t == item_type::way || t == item_type::changeset || t == item_type::inner_ring) out.push_back(mk_ev(h, type_cb(t), ST_NONE, idx, &it));
                break;
            case PF_LAMBDA:
                for (int i = 0; i < s.nov; ++i) {
                    if ((s.ov[i].mask & bit) && (s.ov[i].pconst || !src_const)) { out.push_back(mk_ev(h, CB_CALL, s.ov[i].st, idx, &it)); break; }
                }
                break;
            case PF_GENERIC:
                if (bit) out.push_back(mk_ev(h, CB_CALL, type_st(t), idx, &it));
                break;
            case PF_DF:
                if (bit) out.push_back(mk_ev(h, CB_CALL, t == item_type::node ? ST_NODE : t == item_type::way ? ST_WAY : ST_ITEM, idx, &it));
                break;
            case PF_UNJUDGED:
                break;
        }
    }
}
void model_flush(int kind, int p, std::vector<Ev>& out) {
    for (const SubSpec& s : kind_spec(kind).subs) {
        if (s.prof == PF_FULL || s.prof == PF_ENT || s.prof == PF_P) out.push_back(mk_ev(p * 4 + s.sub, CB_FLUSH, ST_NONE, -1, nullptr));
    }
}
// is this logged event one the property (and the documentation) lets us judge?
bool judged(const ListDesc& L, const Ev& e) {
    const int p = e.h / 4, sub = e.h % 4;
    if (p >= L.len) return true;
    for (const SubSpec& s : kind_spec(L.kinds[p]).subs) {
        if (s.sub != sub) continue;
        if (s.prof == PF_UNJUDGED) return false;
        if (s.prof == PF_ENT) return e.cb == CB_NODE || e.cb == CB_WAY || e.cb == CB_REL || e.cb == CB_AREA || e.cb == CB_CS || e.cb == CB_FLUSH;
        if (s.prof == PF_GENERIC) return type_is_entity(static_cast<item_type>(e.type));
        return true;
    }
    return true;
}

std::string ev_str(const Ev& e) {
    std::string s = vh::fmt("h%u.%s", e.h, CBNAME[e.cb]);
    if (e.st) s += vh::fmt("<%s>", STNAME[e.st]);
    if (e.cb != CB_FLUSH) s += vh::fmt("(#%d %s id=%lld v=%u)", e.item, osmium::item_type_to_name(static_cast<item_type>(e.type)), static_cast<long long>(e.id), e.ver);
    return s;
}
std::string ev_class(const Ev* e) {   // categorical description for violation keys
    if (!e) return "nothing";
    if (e->cb == CB_FLUSH) return "flush";
    std::string s = CBNAME[e->cb];
    if (e->st) s += vh::fmt("<%s>", STNAME[e->st]);
    return s + "(" + osmium::item_type_to_name(static_cast<item_type>(e->type)) + ")";
}
std::string list_str(const ListDesc& L) {
    std::string s;
    for (int i = 0; i < L.len; ++i) { if (i) s += ", "; s += KINDNAME[L.kinds[i]]; }
    return s;
}
std::string seq_str(const std::vector<ItemInfo>& items) {
    std::string s;
    for (const auto& it : items) s += SYMCH[it.sym];
    return s.empty() ? "(empty)" : s;
}

enum Filter { F_ALL, F_ENTITY, F_OBJECT };
bool yields(Filter f, item_type t) { return f == F_ALL || (f == F_ENTITY && type_is_entity(t)) || (f == F_OBJECT && type_is_object(t)); }

uint64_t g_unjudged_events = 0, g_unjudged_expected_mutable = 0, g_unjudged_seen_mutable = 0, g_unjudged_expected_itemfn = 0, g_unjudged_seen_itemfn = 0;

// Compare the callback log of one apply() run with the model.
void check_apply_run(const char* srcname, Filter filter, bool src_const, bool with_flush, const ListDesc& L, const std::vector<ItemInfo>& items,
                     const std::string& extra) {
    static std::vector<Ev> act, exp[2];
    act.clear();
    for (std::size_t i = 0; i < g_nlog; ++i) {
        if (judged(L, g_log[i])) act.push_back(g_log[i]);
        else {
            ++g_unjudged_events;
            const int k = L.kinds[g_log[i].h / 4];
            if (k == K_LM) ++g_unjudged_seen_mutable;
            if (k == K_LI) ++g_unjudged_seen_itemfn;
        }
    }
    bool any_removed = false;
    for (const auto& it : items) if (it.removed && yields(filter, it.type)) any_removed = true;
    const int nalt = any_removed ? 2 : 1;
    for (int alt = 0; alt < nalt; ++alt) {
        exp[alt].clear();
        for (std::size_t i = 0; i < items.size(); ++i) {
            if (!yields(filter, items[i].type)) continue;
            if (alt == 1 && items[i].removed) continue;
            for (int p = 0; p < L.len; ++p) model_item(L.kinds[p], p, static_cast<int>(i), items[i], src_const, exp[alt]);
        }
        if (with_flush) for (int p = 0; p < L.len; ++p) model_flush(L.kinds[p], p, exp[alt]);
    }
    for (int p = 0; p < L.len; ++p) {
        if (L.kinds[p] != K_LM && L.kinds[p] != K_LI) continue;
        for (const auto& it : items) {
            if (!yields(filter, it.type)) continue;
            if (L.kinds[p] == K_LM && it.type == item_type::way) ++g_unjudged_expected_mutable;
            if (L.kinds[p] == K_LI) ++g_unjudged_expected_itemfn;
        }
    }
    vh::count("callbacks_checked", act.size());
    if (g_log_overflow) { vh::violation(std::string("apply over ") + srcname + ": callback log overflow (runaway dispatch)", seq_str(items)); return; }
    int ok = -1;
    for (int alt = 0; alt < nalt; ++alt) if (act == exp[alt]) { ok = alt; break; }
    if (ok >= 0) {
        if (any_removed) vh::count(ok == 0 ? "removed_items_visited_runs" : "removed_items_skipped_runs");
        return;
    }
    // classify against the alternative with the longer common prefix
    int best = 0; std::size_t bestpre = 0;
    for (int alt = 0; alt < nalt; ++alt) {
        std::size_t i = 0;
        while (i < act.size() && i < exp[alt].size() && act[i] == exp[alt][i]) ++i;
        if (i >= bestpre) { bestpre = i; best = alt; }
    }
    const Ev* e = bestpre < exp[best].size() ? &exp[best][bestpre] : nullptr;
    const Ev* a = bestpre < act.size() ? &act[bestpre] : nullptr;
    const int p = (e ? e->h : a ? a->h : 0) / 4;
    std::string what;
    if (e && a && ev_class(e) == ev_class(a) && e->h == a->h) what = "callback " + ev_class(e) + " received the wrong object (identity/id/version)";
    else if (e && a && ev_class(e) == ev_class(a)) what = "callback " + ev_class(e) + " reached the handlers in the wrong order";
    else what = "expected " + ev_class(e) + " but got " + ev_class(a);
    std::string key = vh::fmt("apply over %s, %s: %s", srcname, p < L.len ? KINDNAME[L.kinds[p]] : "?", what.c_str());
    std::string d = "items=" + seq_str(items) + " handlers=[" + list_str(L) + "] " + extra + "\n expected:";
    for (const auto& x : exp[best]) d += " " + ev_str(x);
    d += "\n actual  :";
    for (const auto& x : act) d += " " + ev_str(x);
    vh::violation(key, d);
}

// ------------------------------------------------------------------ running handler lists

template <typename Src> struct ListEntry { ListDesc desc; void (*run)(Src&); };

// (plain local holders instead of a std::tuple: much cheaper to compile)
template <typename Src, int... Ks> struct Runner;
template <typename Src, int A> struct Runner<Src, A> {
    static void run(Src& s) { Holder<A> a(0); s.apply(a.arg()); }
    static ListEntry<Src> entry() { return ListEntry<Src>{ListDesc{1, {A, 0, 0, 0}}, &run}; }
};
template <typename Src, int A, int B> struct Runner<Src, A, B> {
    static void run(Src& s) { Holder<A> a(0); Holder<B> b(1); s.apply(a.arg(), b.arg()); }
    static ListEntry<Src> entry() { return ListEntry<Src>{ListDesc{2, {A, B, 0, 0}}, &run}; }
};
template <typename Src, int A, int B, int C> struct Runner<Src, A, B, C> {
    static void run(Src& s) { Holder<A> a(0); Holder<B> b(1); Holder<C> c(2); s.apply(a.arg(), b.arg(), c.arg()); }
    static ListEntry<Src> entry() { return ListEntry<Src>{ListDesc{3, {A, B, C, 0}}, &run}; }
};
template <typename Src, int A, int B, int C, int D> struct Runner<Src, A, B, C, D> {
    static void run(Src& s) { Holder<A> a(0); Holder<B> b(1); Holder<C> c(2); Holder<D> d(3); s.apply(a.arg(), b.arg(), c.arg(), d.arg()); }
    static ListEntry<Src> entry() { return ListEntry<Src>{ListDesc{4, {A, B, C, D}}, &run}; }
};

constexpr std::size_t ipow(std::size_t b, std::size_t e) { return e == 0 ? 1 : b * ipow(b, e - 1); }

template <typename Src, const int* SET, std::size_t N, std::size_t Code, std::size_t... Is>
ListEntry<Src> coded_entry(std::index_sequence<Is...>) { return Runner<Src, SET[(Code / ipow(N, Is)) % N]...>::entry(); }

// all lists of length L over SET whose code is a multiple of STRIDE
template <typename Src, const int* SET, std::size_t N, std::size_t L, std::size_t STRIDE, std::size_t... Cs>
void add_lists_impl(std::vector<ListEntry<Src>>& v, std::index_sequence<Cs...>) {
    (v.push_back(coded_entry<Src, SET, N, Cs * STRIDE>(std::make_index_sequence<L>{})), ...);
}
template <typename Src, const int* SET, std::size_t N, std::size_t L, std::size_t STRIDE = 1>
void add_lists(std::vector<ListEntry<Src>>& v) {
    add_lists_impl<Src, SET, N, L, STRIDE>(v, std::make_index_sequence<(ipow(N, L) + STRIDE - 1) / STRIDE>{});
}

constexpr int ALL_NC[] = {K_S, K_SN, K_SC, K_ST, K_P, K_D0, K_DS, K_DF, K_LcN, K_LnN, K_LcW, K_LnW, K_LcR, K_LnR, K_LcA, K_LnA,
                          K_LcC, K_LnC, K_LcO, K_LnO, K_LcE, K_LnE, K_LG, K_LL, K_F2, K_LM, K_LI, K_CH2, K_CH3, K_CHN};
constexpr int ALL_C[] = {K_S, K_SC, K_ST, K_P, K_D0, K_DS, K_DF, K_LcN, K_LnN, K_LcW, K_LnW, K_LcR, K_LnR, K_LcA, K_LnA,
                         K_LcC, K_LnC, K_LcO, K_LnO, K_LcE, K_LnE, K_LG, K_LL, K_F2, K_LM, K_LI};
constexpr int CORE_NC[] = {K_S, K_DS, K_LcO, K_LnW, K_CH2};
constexpr int CORE_C[] = {K_S, K_DS, K_LcO, K_LnW};
constexpr int HANDLERS_NC[] = {K_S, K_SN, K_SC, K_P, K_D0, K_DS, K_DF, K_CH2, K_CH3, K_CHN};
constexpr int HANDLERS_C[] = {K_S, K_SC, K_P, K_D0, K_DS, K_DF};
template <typename T, std::size_t N> constexpr std::size_t alen(const T (&)[N]) { return N; }

// rotations: for k = 0..N-1 the list (SET[(k+o0)%N], SET[(k+o1)%N], ...): every kind at every position once
template <typename Src, const int* SET, std::size_t N, std::size_t K, std::size_t... Offs>
ListEntry<Src> rot_entry() { return Runner<Src, SET[(K + Offs) % N]...>::entry(); }
template <typename Src, const int* SET, std::size_t N, std::size_t... Ks>
void add_rot3_impl(std::vector<ListEntry<Src>>& v, std::index_sequence<Ks...>) { (v.push_back(rot_entry<Src, SET, N, Ks, 0, 1, 3>()), ...); }
template <typename Src, const int* SET, std::size_t N, std::size_t... Ks>
void add_rot4_impl(std::vector<ListEntry<Src>>& v, std::index_sequence<Ks...>) { (v.push_back(rot_entry<Src, SET, N, Ks, 0, 2, 1, 4>()), ...); }
template <typename Src, const int* SET, std::size_t N>
void add_rot(std::vector<ListEntry<Src>>& v) {
    add_rot3_impl<Src, SET, N>(v, std::make_index_sequence<N>{});
    add_rot4_impl<Src, SET, N>(v, std::make_index_sequence<N>{});
}

// LV_MAIN: every kind alone, all lists of length 2 and 3 over the core kinds, every 3rd/4th list of length 4
// LV_MID : every kind alone, all pairs over the core kinds, rotations of length 3 and 4
// LV_HANDLERS (apply_item loops, which need real handlers): handler kinds alone, some pairs, rotations
// LV_READER (a real Reader per run is expensive): a few kinds alone + rotations over the core kinds
enum Level { LV_MAIN, LV_MID, LV_HANDLERS, LV_READER };
constexpr int READER_NC[] = {K_S, K_SN, K_DS, K_LcO, K_LnW, K_LcC, K_LG, K_CH2};
constexpr int READER_C[] = {K_S, K_DS, K_LcO, K_LnW, K_LcC, K_LG};

template <typename Src>
const std::vector<ListEntry<Src>>& lists_for() {
    static const std::vector<ListEntry<Src>> lists = [] {
        std::vector<ListEntry<Src>> v;
        if constexpr (Src::level == LV_READER) {
            if constexpr (Src::is_const) {
                add_lists<Src, READER_C, alen(READER_C), 1>(v);
                add_rot<Src, CORE_C, alen(CORE_C)>(v);
            } else {
                add_lists<Src, READER_NC, alen(READER_NC), 1>(v);
                add_rot<Src, CORE_NC, alen(CORE_NC)>(v);
            }
        } else if constexpr (Src::level == LV_HANDLERS) {
            if constexpr (Src::is_const) {
                add_lists<Src, HANDLERS_C, alen(HANDLERS_C), 1>(v);
                add_lists<Src, HANDLERS_C, alen(HANDLERS_C), 2, 5>(v);
                add_rot<Src, HANDLERS_C, alen(HANDLERS_C)>(v);
            } else {
                add_lists<Src, HANDLERS_NC, alen(HANDLERS_NC), 1>(v);
                add_lists<Src, HANDLERS_NC, alen(HANDLERS_NC), 2, 7>(v);
                add_rot<Src, HANDLERS_NC, alen(HANDLERS_NC)>(v);
            }
        } else if constexpr (Src::is_const) {
            add_lists<Src, ALL_C, alen(ALL_C), 1>(v);
            add_lists<Src, CORE_C, alen(CORE_C), 2>(v);
            if constexpr (Src::level == LV_MAIN) {
                add_lists<Src, CORE_C, alen(CORE_C), 3>(v);
                add_lists<Src, CORE_C, alen(CORE_C), 4, 3>(v);
            } else {
                add_rot<Src, CORE_C, alen(CORE_C)>(v);
            }
        } else {
            add_lists<Src, ALL_NC, alen(ALL_NC), 1>(v);
            add_lists<Src, CORE_NC, alen(CORE_NC), 2>(v);
            if constexpr (Src::level == LV_MAIN) {
                add_lists<Src, CORE_NC, alen(CORE_NC), 3>(v);
                add_lists<Src, CORE_NC, alen(CORE_NC), 4, 4>(v);
            } else {
                add_rot<Src, CORE_NC, alen(CORE_NC)>(v);
            }
        }
        return v;
    }();
    return lists;
}

// ------------------------------------------------------------------ sequences

struct Sequence {
    Buffer buffer{64 * 1024, Buffer::auto_grow::no};
    std::vector<ItemInfo> items;
    std::vector<std::size_t> offsets;   // offsets[i] .. offsets[i+1] = item i
};

void build_sequence(Sequence& s, const std::vector<int>& syms) {
    s.buffer.clear();
    s.items.clear();
    s.offsets.clear();
    for (std::size_t i = 0; i < syms.size(); ++i) {
        s.offsets.push_back(s.buffer.committed());
        s.items.push_back(build_item(s.buffer, syms[i], static_cast<int>(i)));
    }
    s.offsets.push_back(s.buffer.committed());
}
void use_addresses(const std::vector<ItemInfo>& items) {
    g_by_id = false;
    g_naddr = static_cast<int>(items.size());
    for (int i = 0; i < g_naddr; ++i) g_addr[i] = items[i].addr;
}

// decode a sequence index: all sequences over `nsym` symbols of length 0..maxlen, shortest first
std::vector<int> decode_sequence(uint64_t index, int nsym, const int* alphabet) {
    uint64_t count = 1;
    int len = 0;
    while (index >= count) { index -= count; count *= static_cast<uint64_t>(nsym); ++len; }
    std::vector<int> v(len);
    for (int i = len - 1; i >= 0; --i) { v[i] = alphabet[index % nsym]; index /= nsym; }
    return v;
}
uint64_t sequences_upto(int nsym, int maxlen) {
    uint64_t total = 0, c = 1;
    for (int l = 0; l <= maxlen; ++l) { total += c; c *= static_cast<uint64_t>(nsym); }
    return total;
}

// Cases are sharded in contiguous index ranges but the cost of a case grows/shrinks with the enumeration
// index; a multiplicative permutation spreads cheap and expensive cases evenly over the shards.
uint64_t permute_case(uint64_t i, uint64_t total) {
    if (total < 3) return i;
    uint64_t p = 1000003 % total;
    auto gcd = [](uint64_t a, uint64_t b) { while (b) { const uint64_t t = a % b; a = b; b = t; } return a; };
    while (p < 2 || gcd(p, total) != 1) ++p;
    return static_cast<uint64_t>((static_cast<unsigned __int128>(i) * p) % total);
}

// ------------------------------------------------------------------ sources (apply)

// A source that hands out views of chunks of a sequence buffer, as a Reader hands out buffers.
struct MockSource {
    struct Chunk { unsigned char* data; std::size_t size; };
    std::vector<Chunk> chunks;
    std::size_t next = 0;
    Buffer read() {
        if (next < chunks.size()) {
            const Chunk& c = chunks[next++];
            if (c.size == 0) return Buffer{64, Buffer::auto_grow::no};   // valid buffer without any item
            return Buffer{c.data, c.size};
        }
        return Buffer{};   // invalid buffer = end of input
    }
};
inline osmium::io::InputIterator<MockSource> begin(MockSource& s) { return osmium::io::InputIterator<MockSource>{s}; }
inline osmium::io::InputIterator<MockSource> end(MockSource&) { return {}; }

// split mask: bit i set = buffer boundary after item i; bit 8 = add buffers without items
void fill_mock(MockSource& m, Sequence& s, unsigned mask) {
    m.chunks.clear();
    m.next = 0;
    const bool empties = mask & 256U;
    if (empties) m.chunks.push_back({nullptr, 0});
    std::size_t start = 0;
    const std::size_t n = s.items.size();
    for (std::size_t i = 0; i < n; ++i) {
        if (i + 1 == n || (mask >> i) & 1U) {
            m.chunks.push_back({s.buffer.data() + s.offsets[start], s.offsets[i + 1] - s.offsets[start]});
            if (empties && (i % 2 == 0)) m.chunks.push_back({nullptr, 0});
            start = i + 1;
        }
    }
    if (empties) m.chunks.push_back({nullptr, 0});
}

#define C20_SRC_COMMON(NAME, CONST, FILTER, LEVEL, MOCK) \
    static constexpr const char* name = NAME; static constexpr bool is_const = CONST; static constexpr Filter filter = FILTER; \
    static constexpr Level level = LEVEL; static constexpr bool mock = MOCK; static constexpr bool with_flush = true; \
    Sequence* seq; MockSource* ms;

struct SrcCBuf { C20_SRC_COMMON("const Buffer", true, F_ENTITY, LV_MAIN, false)
    template <typename... H> void apply(H&&... h) { const Buffer& b = seq->buffer; osmium::apply(b, std::forward<H>(h)...); } };
struct SrcBuf { C20_SRC_COMMON("Buffer", false, F_ENTITY, LV_MAIN, false)
    template <typename... H> void apply(H&&... h) { osmium::apply(seq->buffer, std::forward<H>(h)...); } };
struct SrcItItem { C20_SRC_COMMON("iterator range begin<Item>()", false, F_ALL, LV_MID, false)
    template <typename... H> void apply(H&&... h) { osmium::apply(seq->buffer.begin<Item>(), seq->buffer.end<Item>(), std::forward<H>(h)...); } };
struct SrcCItItem { C20_SRC_COMMON("iterator range cbegin<Item>()", true, F_ALL, LV_MID, false)
    template <typename... H> void apply(H&&... h) { osmium::apply(seq->buffer.cbegin<Item>(), seq->buffer.cend<Item>(), std::forward<H>(h)...); } };
struct SrcItObj { C20_SRC_COMMON("iterator range begin<OSMObject>()", false, F_OBJECT, LV_MID, false)
    template <typename... H> void apply(H&&... h) { osmium::apply(seq->buffer.begin<osmium::OSMObject>(), seq->buffer.end<osmium::OSMObject>(), std::forward<H>(h)...); } };
struct SrcCItObj { C20_SRC_COMMON("iterator range cbegin<OSMObject>()", true, F_OBJECT, LV_MID, false)
    template <typename... H> void apply(H&&... h) { osmium::apply(seq->buffer.cbegin<osmium::OSMObject>(), seq->buffer.cend<osmium::OSMObject>(), std::forward<H>(h)...); } };
struct SrcSelItem { C20_SRC_COMMON("ItemIteratorRange select<Item>()", false, F_ALL, LV_MID, false)
    template <typename... H> void apply(H&&... h) { auto r = seq->buffer.select<Item>(); osmium::apply(r, std::forward<H>(h)...); } };
struct SrcCSelEnt { C20_SRC_COMMON("const ItemIteratorRange select<OSMEntity>()", true, F_ENTITY, LV_MID, false)
    template <typename... H> void apply(H&&... h) { const auto r = seq->buffer.select<osmium::OSMEntity>(); osmium::apply(r, std::forward<H>(h)...); } };

struct SrcMockItem { C20_SRC_COMMON("InputIterator<source, Item> via apply(source)", false, F_ALL, LV_MID, true)
    template <typename... H> void apply(H&&... h) { osmium::apply(*ms, std::forward<H>(h)...); } };
struct SrcMockCItem { C20_SRC_COMMON("InputIterator<source, const Item> range", true, F_ALL, LV_MID, true)
    template <typename... H> void apply(H&&... h) { using It = osmium::io::InputIterator<MockSource, const Item>; osmium::apply(It{*ms}, It{}, std::forward<H>(h)...); } };
struct SrcMockObj { C20_SRC_COMMON("InputIteratorRange<source, OSMObject>", false, F_OBJECT, LV_MID, true)
    template <typename... H> void apply(H&&... h) { auto r = osmium::io::make_input_iterator_range<osmium::OSMObject>(*ms); osmium::apply(r, std::forward<H>(h)...); } };
struct SrcMockCEnt { C20_SRC_COMMON("InputIterator<source, const OSMEntity> range", true, F_ENTITY, LV_MID, true)
    template <typename... H> void apply(H&&... h) { using It = osmium::io::InputIterator<MockSource, const osmium::OSMEntity>; osmium::apply(It{*ms}, It{}, std::forward<H>(h)...); } };

// apply_item() per item followed by apply_flush(): the documented building blocks of apply()
#define C20_ITEMLOOP(STRUCT, NAME, CONST, FILTER, TYPE) \
    struct STRUCT { C20_SRC_COMMON(NAME, CONST, FILTER, LV_HANDLERS, false) \
        template <typename... H> void apply(H&&... h) { \
            auto r = seq->buffer.select<TYPE>(); \
            for (auto& item : r) osmium::apply_item(item, h...); \
            osmium::apply_flush(h...); } };
C20_ITEMLOOP(SrcLoopItem, "apply_item(Item&) loop + apply_flush", false, F_ALL, Item)
C20_ITEMLOOP(SrcLoopCItem, "apply_item(const Item&) loop + apply_flush", true, F_ALL, const Item)
C20_ITEMLOOP(SrcLoopEnt, "apply_item(OSMEntity&) loop + apply_flush", false, F_ENTITY, osmium::OSMEntity)
C20_ITEMLOOP(SrcLoopCEnt, "apply_item(const OSMEntity&) loop + apply_flush", true, F_ENTITY, const osmium::OSMEntity)
C20_ITEMLOOP(SrcLoopObj, "apply_item(OSMObject&) loop + apply_flush", false, F_OBJECT, osmium::OSMObject)
C20_ITEMLOOP(SrcLoopCObj, "apply_item(const OSMObject&) loop + apply_flush", true, F_OBJECT, const osmium::OSMObject)

// slice control: a (sequence, list) pair is run iff (list index + salt) % divisor == 0
struct Effort { unsigned divisor; uint64_t salt; bool all_masks; };

template <typename Src>
void run_source(Sequence& seq, const Effort& ef, uint64_t case_index) {
    static MockSource ms;
    Src src{&seq, &ms};
    const auto& lists = lists_for<Src>();
    static bool covered = false;
    if (!covered) {
        covered = true;
        vh::cover("apply_source", Src::name);
        vh::count_max(std::string("max_lists[") + Src::name + "]", lists.size());
        for (const auto& l : lists) for (int i = 0; i < l.desc.len; ++i) vh::cover("handler_kind", KINDNAME[l.desc.kinds[i]]);
    }
    const std::size_t n = seq.items.size();
    uint64_t runs = 0;
    for (std::size_t li = 0; li < lists.size(); ++li) {
        if ((li + ef.salt) % ef.divisor != 0) continue;
        const ListDesc& L = lists[li].desc;
        unsigned mask_lo = 0, mask_hi = 1;
        if (Src::mock) {
            const unsigned nm = n > 1 ? (1U << (n - 1)) : 1U;
            if (ef.all_masks) { mask_lo = 0; mask_hi = 2 * nm; }
            else { mask_lo = static_cast<unsigned>(vh::mix(case_index, li) % (2 * nm)); mask_hi = mask_lo + 1; }
        }
        for (unsigned mm = mask_lo; mm < mask_hi; ++mm) {
            std::string extra;
            if (Src::mock) {
                const unsigned nm = n > 1 ? (1U << (n - 1)) : 1U;
                const unsigned mask = (mm % nm) | (mm >= nm ? 256U : 0U);
                fill_mock(ms, seq, mask);
                extra = vh::fmt("split-mask=0x%x buffers=%zu", mask, ms.chunks.size());
                vh::count_max("max_mock_buffers", ms.chunks.size());
            }
            g_nlog = 0;
            g_log_overflow = false;
            lists[li].run(src);
            check_apply_run(Src::name, Src::filter, Src::is_const, Src::with_flush, L, seq.items, extra);
            ++runs;
            vh::count(vh::fmt("lists_len%d", L.len));
        }
    }
    vh::count(std::string("runs[") + Src::name + "]", runs);
    vh::count("apply_runs", runs);
    vh::count("distinct_by_construction", runs);
    vh::evaluated(runs);
}

const int FULL_ALPHABET[NSYM] = {SY_N, SY_W, SY_R, SY_A, SY_C, SY_RN, SY_RC, SY_T, SY_L, SY_M, SY_O, SY_I, SY_D};

// mode=apply: case index = index of the item sequence (all sequences of length 0..maxlen)
void case_apply(uint64_t case_no, vh::Rng&) {
    static Sequence seq;
    const uint64_t index = permute_case(case_no, sequences_upto(NSYM, static_cast<int>(vh::arg_int("maxlen", 5))));
    const std::vector<int> syms = decode_sequence(index, NSYM, FULL_ALPHABET);
    build_sequence(seq, syms);
    use_addresses(seq.items);
    vh::set_case_desc("apply sequence=%s", seq_str(seq.items).c_str());
    const int len = static_cast<int>(syms.size());
    // complete product up to full_len; above that every list sees a rotating 1/div share of the sequences
    const int full_len = static_cast<int>(vh::arg_int("full_len", 3));
    // every split of the sequence into buffers only up to length mask_len, else one seeded split per list
    Effort ef{1, 0, len <= static_cast<int>(vh::arg_int("mask_len", 3))};
    if (len > full_len) {
        const unsigned div = static_cast<unsigned>(vh::arg_int(len == full_len + 1 ? "div1" : "div2", len == full_len + 1 ? 16 : 64));
        ef = Effort{div, vh::mix(vh::st().seed, index) % div, div == 1};
    }
    vh::count(vh::fmt("sequences_len%d", len));
    bool nonentity = false, removed = false;
    for (const auto& it : seq.items) { if (!type_is_entity(it.type)) nonentity = true; if (it.removed) removed = true; }
    if (nonentity) vh::count("sequences_with_top_level_non_entity_items");
    if (removed) vh::count("sequences_with_removed_items");
#if PART(1)
    run_source<SrcBuf>(seq, ef, index);
#endif
#if PART(5)
    run_source<SrcItItem>(seq, ef, index);
    run_source<SrcItObj>(seq, ef, index);
    run_source<SrcSelItem>(seq, ef, index);
#endif
#if PART(2)
    run_source<SrcCBuf>(seq, ef, index);
    run_source<SrcCItItem>(seq, ef, index);
    run_source<SrcCItObj>(seq, ef, index);
    run_source<SrcCSelEnt>(seq, ef, index);
#endif
#if PART(3)
    run_source<SrcMockItem>(seq, ef, index);
    run_source<SrcMockCItem>(seq, ef, index);
    run_source<SrcMockObj>(seq, ef, index);
    run_source<SrcMockCEnt>(seq, ef, index);
#endif
#if PART(6)
    run_source<SrcLoopItem>(seq, ef, index);
    run_source<SrcLoopCItem>(seq, ef, index);
    run_source<SrcLoopEnt>(seq, ef, index);
    run_source<SrcLoopCEnt>(seq, ef, index);
    run_source<SrcLoopObj>(seq, ef, index);
    run_source<SrcLoopCObj>(seq, ef, index);
#endif
    if (index % 9973 == 5) vh::sample_str(vh::fmt("apply: sequence '%s' (n w r a c = entities, N C = removed node/changeset, t l m o i d = top-level sub-items)", seq_str(seq.items).c_str()));
}

void at_end_apply() {
    vh::count("unjudged_events", g_unjudged_events);
    if (g_unjudged_expected_mutable) vh::info(g_unjudged_seen_mutable ? "not judged: functor with non-const call operator (mutable lambda taking const Way&) was called for ways"
                                                                      : "not judged: functor with non-const call operator (mutable lambda taking const Way&) was never called for the ways offered");
    if (g_unjudged_expected_itemfn) vh::info(g_unjudged_seen_itemfn ? "not judged: lambda taking const Item& was called"
                                                                    : "not judged: lambda taking const Item& was never called for the items offered");
    vh::count("info_item_lambda_items_offered", g_unjudged_expected_itemfn);
    vh::count("info_item_lambda_calls", g_unjudged_seen_itemfn);
    vh::count("info_mutable_lambda_ways_offered", g_unjudged_expected_mutable);
    vh::count("info_mutable_lambda_calls", g_unjudged_seen_mutable);
}

// ------------------------------------------------------------------ apply over a real Reader (OPL text in memory)

std::string g_opl;
osmium::io::buffers_type g_buffers_kind = osmium::io::buffers_type::any;

struct SrcReader { C20_SRC_COMMON("Reader", false, F_ALL, LV_READER, false)
    template <typename... H> void apply(H&&... h) {
        osmium::io::Reader reader{osmium::io::File{g_opl.data(), g_opl.size(), "opl"}, g_buffers_kind};
        osmium::apply(reader, std::forward<H>(h)...);
        reader.close();
    } };
struct SrcReaderObj { C20_SRC_COMMON("InputIterator<Reader, OSMObject> range", false, F_OBJECT, LV_READER, false)
    template <typename... H> void apply(H&&... h) {
        osmium::io::Reader reader{osmium::io::File{g_opl.data(), g_opl.size(), "opl"}, g_buffers_kind};
        using It = osmium::io::InputIterator<osmium::io::Reader, osmium::OSMObject>;
        osmium::apply(It{reader}, It{}, std::forward<H>(h)...);
        reader.close();
    } };
struct SrcReaderCEnt { C20_SRC_COMMON("InputIteratorRange<Reader, const OSMEntity>", true, F_ENTITY, LV_READER, false)
    template <typename... H> void apply(H&&... h) {
        osmium::io::Reader reader{osmium::io::File{g_opl.data(), g_opl.size(), "opl"}, g_buffers_kind};
        auto r = osmium::io::make_input_iterator_range<const osmium::OSMEntity>(reader);
        osmium::apply(r, std::forward<H>(h)...);
        reader.close();
    } };

const int READER_ALPHABET[4] = {SY_N, SY_W, SY_R, SY_C};

// mode=reader: case index = 2 * sequence index + buffers_type
void case_reader(uint64_t case_no, vh::Rng&) {
#if PART(6)
    static Sequence seq;   // only seq.items is used
    const uint64_t index = permute_case(case_no, 2 * sequences_upto(4, static_cast<int>(vh::arg_int("maxlen", 5))));
    const std::vector<int> syms = decode_sequence(index / 2, 4, READER_ALPHABET);
    g_buffers_kind = (index & 1U) ? osmium::io::buffers_type::single : osmium::io::buffers_type::any;
    seq.items.clear();
    g_opl.clear();
    for (std::size_t i = 0; i < syms.size(); ++i) {
        ItemInfo it;
        it.sym = syms[i];
        it.type = sym_type(syms[i]);
        it.id = static_cast<int64_t>(i) + 1;
        it.version = static_cast<uint32_t>(7 * (i + 1) + syms[i]);
        seq.items.push_back(it);
        switch (syms[i]) {
            case SY_N: g_opl += vh::fmt("n%lld v%u dV c5 t2020-01-01T00:00:00Z i1 uu Tk=v x1.5 y2.5\n", (long long)it.id, it.version); break;
            case SY_W: g_opl += vh::fmt("w%lld v%u dV c5 t2020-01-01T00:00:00Z i1 uu Tk=v Nn1,n2,n3\n", (long long)it.id, it.version); break;
            case SY_R: g_opl += vh::fmt("r%lld v%u dV c5 t2020-01-01T00:00:00Z i1 uu Tk=v Mn1@role,w2@\n", (long long)it.id, it.version); break;
            default: g_opl += vh::fmt("c%lld k%u s2020-01-01T00:00:00Z e2020-01-01T01:00:00Z d1 i1 uu Tk=v\n", (long long)it.id, it.version); break;
        }
    }
    g_by_id = true;
    g_naddr = 0;
    vh::set_case_desc("apply over Reader sequence=%s buffers_type=%s", seq_str(seq.items).c_str(), (index & 1U) ? "single" : "any");
    Effort ef{1, 0, true};
    const unsigned div = static_cast<unsigned>(vh::arg_int("rdiv", 1));
    if (div > 1 && syms.size() > 3) ef = Effort{div, vh::mix(vh::st().seed, index) % div, false};
    run_source<SrcReader>(seq, ef, index);
    run_source<SrcReaderObj>(seq, ef, index);
    run_source<SrcReaderCEnt>(seq, ef, index);
    vh::count("reader_sequences");
    if (index % 397 == 11) vh::sample_str("apply over Reader: OPL input " + g_opl);
#else
    (void)case_no;
#endif
}

// ------------------------------------------------------------------ diff iteration

#if PART(4)

struct DObj { int type; int64_t id; uint32_t version; const unsigned char* addr; };
const item_type DTYPE[3] = {item_type::node, item_type::way, item_type::relation};
const char DCH[] = "nwr";

struct DiffEv {
    uint8_t h = 0, cb = 0;
    int16_t curr = -1, prev = -1, next = -1;
    bool first = false, last = false;
    bool operator==(const DiffEv& o) const { return h == o.h && cb == o.cb && curr == o.curr && prev == o.prev && next == o.next && first == o.first && last == o.last; }
};
std::vector<DiffEv> g_dlog;
std::vector<DObj> g_dobjs;          // the current history
bool g_d_by_key = false;            // resolve objects by (type,id,version) instead of by address
uint64_t g_touch = 0;

int resolve_obj(const osmium::OSMObject& o) {
    if (g_d_by_key) {
        for (std::size_t i = 0; i < g_dobjs.size(); ++i)
            if (DTYPE[g_dobjs[i].type] == o.type() && g_dobjs[i].id == o.id() && g_dobjs[i].version == o.version()) return static_cast<int>(i);
        return -1;
    }
    const auto* p = reinterpret_cast<const unsigned char*>(&o);
    for (std::size_t i = 0; i < g_dobjs.size(); ++i) if (g_dobjs[i].addr == p) {
        // the reference must really show that object
        if (DTYPE[g_dobjs[i].type] != o.type() || g_dobjs[i].id != o.id() || g_dobjs[i].version != o.version()) return -2;
        return static_cast<int>(i);
    }
    return -1;
}
void touch(const osmium::OSMObject& o) {   // read the whole object so that a stale pointer is seen by ASan
    for (const auto& tag : o.tags()) g_touch += std::strlen(tag.key()) + std::strlen(tag.value());
    g_touch += std::strlen(o.user());
}
void rec_diff(int h, Cb cb, const osmium::DiffObject& d) {
    DiffEv e;
    e.h = static_cast<uint8_t>(h);
    e.cb = cb;
    e.first = d.first();
    e.last = d.last();
    e.curr = static_cast<int16_t>(resolve_obj(d.curr()));
    e.prev = static_cast<int16_t>(resolve_obj(d.prev()));
    e.next = static_cast<int16_t>(resolve_obj(d.next()));
    touch(d.prev()); touch(d.curr()); touch(d.next());
    g_dlog.push_back(e);
}
Cb dcb(item_type t) { return t == item_type::node ? CB_NODE : t == item_type::way ? CB_WAY : CB_REL; }

struct DHFull : osmium::diff_handler::DiffHandler {
    int h; explicit DHFull(int h_) : h(h_) {}
    void node(const osmium::DiffNode& d) { g_touch += d.curr().location().valid(); rec_diff(h, CB_NODE, d); }
    void way(const osmium::DiffWay& d) { g_touch += d.curr().nodes().size() + d.prev().nodes().size() + d.next().nodes().size(); rec_diff(h, CB_WAY, d); }
    void relation(const osmium::DiffRelation& d) { g_touch += d.curr().members().size(); rec_diff(h, CB_REL, d); }
};
struct DHPart : osmium::diff_handler::DiffHandler {   // only ways
    int h; explicit DHPart(int h_) : h(h_) {}
    void way(const osmium::DiffWay& d) { rec_diff(h, CB_WAY, d); }
};
struct DHPlain {   // not derived from DiffHandler, const member functions
    int h; explicit DHPlain(int h_) : h(h_) {}
    void node(const osmium::DiffNode& d) const { rec_diff(h, CB_NODE, d); }
    void way(const osmium::DiffWay& d) const { rec_diff(h, CB_WAY, d); }
    void relation(const osmium::DiffRelation& d) const { rec_diff(h, CB_REL, d); }
};
enum DK { DK_FULL, DK_PART, DK_PLAIN };
const char* const DKNAME[] = {"DiffHandler(node,way,relation)", "DiffHandler(way only)", "plain class(node,way,relation)"};
struct DList { int len; int kinds[4]; };
const DList DLISTS[] = {{1, {DK_FULL}}, {1, {DK_PART}}, {1, {DK_PLAIN}}, {2, {DK_FULL, DK_PART}}, {2, {DK_PLAIN, DK_FULL}},
                        {3, {DK_FULL, DK_PLAIN, DK_PART}}, {4, {DK_PART, DK_FULL, DK_PLAIN, DK_FULL}}};
constexpr int NDLISTS = 7;

template <typename It>
void run_apply_diff(int li, It b, It e) {
    DHFull f0(0), f1(1), f3(3); DHPart p0(0), p1(1), p2(2); DHPlain q0(0), q1(1), q2(2);
    switch (li) {
        case 0: osmium::apply_diff(b, e, f0); break;
        case 1: osmium::apply_diff(b, e, p0); break;
        case 2: osmium::apply_diff(b, e, q0); break;
        case 3: osmium::apply_diff(b, e, f0, p1); break;
        case 4: osmium::apply_diff(b, e, q0, f1); break;
        case 5: osmium::apply_diff(b, e, f0, q1, p2); break;
        default: osmium::apply_diff(b, e, p0, f1, q2, f3); break;
    }
}
template <typename Source>
void run_apply_diff_source(int li, Source& src) {
    DHFull f0(0), f1(1), f3(3); DHPart p0(0), p1(1), p2(2); DHPlain q0(0), q1(1), q2(2);
    switch (li) {
        case 0: osmium::apply_diff(src, f0); break;
        case 1: osmium::apply_diff(src, p0); break;
        case 2: osmium::apply_diff(src, q0); break;
        case 3: osmium::apply_diff(src, f0, p1); break;
        case 4: osmium::apply_diff(src, q0, f1); break;
        case 5: osmium::apply_diff(src, f0, q1, p2); break;
        default: osmium::apply_diff(src, p0, f1, q2, f3); break;
    }
}
// manual iteration; style 0: *it with pre-increment, 1: it-> with pre-increment, 2: post-increment, deref the old copy
template <typename It>
void run_manual(int style, It b, It e) {
    auto it = osmium::make_diff_iterator(b, e);
    const auto end = osmium::make_diff_iterator(e, e);
    while (it != end) {
        if (style == 0) { const osmium::DiffObject& d = *it; rec_diff(0, dcb(d.type()), d); ++it; }
        else if (style == 1) { rec_diff(0, dcb(it->type()), *it.operator->()); ++it; }
        else { auto old = it++; const osmium::DiffObject& d = *old; rec_diff(0, dcb(d.type()), d); }
    }
}

bool same_object(const DObj& a, const DObj& b) { return a.type == b.type && a.id == b.id; }

// type_filter: -1 all objects, else only objects of that type are yielded by the underlying iterator
void diff_model(const DList& L, int type_filter, std::vector<DiffEv>& out) {
    out.clear();
    std::vector<int> idx;
    for (std::size_t i = 0; i < g_dobjs.size(); ++i) if (type_filter < 0 || g_dobjs[i].type == type_filter) idx.push_back(static_cast<int>(i));
    for (std::size_t k = 0; k < idx.size(); ++k) {
        const int i = idx[k];
        const int pv = (k > 0 && same_object(g_dobjs[idx[k - 1]], g_dobjs[i])) ? idx[k - 1] : i;
        const int nx = (k + 1 < idx.size() && same_object(g_dobjs[idx[k + 1]], g_dobjs[i])) ? idx[k + 1] : i;
        for (int p = 0; p < L.len; ++p) {
            if (L.kinds[p] == DK_PART && g_dobjs[i].type != 1) continue;
            DiffEv e;
            e.h = static_cast<uint8_t>(p);
            e.cb = dcb(DTYPE[g_dobjs[i].type]);
            e.curr = static_cast<int16_t>(i); e.prev = static_cast<int16_t>(pv); e.next = static_cast<int16_t>(nx);
            e.first = pv == i; e.last = nx == i;
            out.push_back(e);
        }
    }
}
std::string dobj_str(int i) {
    if (i < 0 || i >= static_cast<int>(g_dobjs.size())) return i == -2 ? "(right address, wrong content)" : "(unknown object)";
    return vh::fmt("%c%lldv%u", DCH[g_dobjs[i].type], (long long)g_dobjs[i].id, g_dobjs[i].version);
}
std::string dev_str(const DiffEv& e) {
    return vh::fmt("h%u.%s[%s<%s>%s%s%s]", e.h, CBNAME[e.cb], dobj_str(e.prev).c_str(), dobj_str(e.curr).c_str(), dobj_str(e.next).c_str(), e.first ? " first" : "", e.last ? " last" : "");
}
std::string history_str() {
    std::string s;
    for (std::size_t i = 0; i < g_dobjs.size(); ++i) { if (i) s += ' '; s += dobj_str(static_cast<int>(i)); }
    return s.empty() ? "(empty)" : s;
}

void check_diff_run(const char* what, const DList& L, int type_filter, const std::string& extra) {
    static std::vector<DiffEv> exp;
    diff_model(L, type_filter, exp);
    vh::count("diff_runs");
    vh::count("diff_visits_checked", g_dlog.size());
    vh::count("distinct_by_construction");
    vh::evaluated();
    if (g_dlog == exp) return;
    std::size_t i = 0;
    while (i < g_dlog.size() && i < exp.size() && g_dlog[i] == exp[i]) ++i;
    std::string problem;
    if (i >= exp.size()) problem = "more visits than object versions";
    else if (i >= g_dlog.size()) problem = "object version never presented";
    else {
        const DiffEv& a = g_dlog[i]; const DiffEv& e = exp[i];
        const char* where = e.first && e.last ? "single-version object" : e.first ? "first version of an object" : e.last ? "last version of an object" : "inner version of an object";
        if (a.curr != e.curr || a.h != e.h || a.cb != e.cb) problem = a.curr == e.curr && a.h == e.h ? "wrong callback for the object type" : "wrong current object or handler order";
        else if (a.prev != e.prev) problem = std::string("wrong prev() at the ") + where;
        else if (a.next != e.next) problem = std::string("wrong next() at the ") + where;
        else if (a.first != e.first) problem = std::string("first() wrong at the ") + where;
        else problem = std::string("last() wrong at the ") + where;
    }
    std::string d = "history=" + history_str() + " handlers=[";
    for (int p = 0; p < L.len; ++p) { if (p) d += ", "; d += DKNAME[L.kinds[p]]; }
    d += "] " + extra + "\n expected:";
    for (const auto& x : exp) d += " " + dev_str(x);
    d += "\n actual  :";
    for (const auto& x : g_dlog) d += " " + dev_str(x);
    vh::violation(vh::fmt("diff over %s: %s", what, problem.c_str()), d);
}

// ---- enumeration of sorted version histories

struct Skel { std::vector<std::pair<int, int64_t>> objs; };   // (type, id), strictly ascending
std::vector<Skel> g_skels;
std::vector<uint64_t> g_skel_first;   // first case index of each skeleton
uint64_t g_diff_total = 0;

void gen_skels(Skel& cur, int kmax) {
    if (!cur.objs.empty()) g_skels.push_back(cur);
    if (static_cast<int>(cur.objs.size()) == kmax) return;
    if (cur.objs.empty()) {
        for (int t = 0; t < 3; ++t) { cur.objs.push_back({t, 5}); gen_skels(cur, kmax); cur.objs.pop_back(); }
        return;
    }
    const auto last = cur.objs.back();
    const std::pair<int, int64_t> steps[4] = {{last.first, last.second + 1}, {last.first + 1, last.second}, {last.first + 1, last.second + 2}, {last.first + 2, last.second}};
    for (const auto& st : steps) {
        if (st.first > 2) continue;
        cur.objs.push_back(st); gen_skels(cur, kmax); cur.objs.pop_back();
    }
}
void init_skels(int kmax) {
    Skel cur;
    g_skels.clear();
    g_skels.push_back(Skel{});   // the empty history
    gen_skels(cur, kmax);
    std::stable_sort(g_skels.begin(), g_skels.end(), [](const Skel& a, const Skel& b) { return a.objs.size() < b.objs.size(); });
    g_skel_first.clear();
    g_diff_total = 0;
    for (const auto& s : g_skels) { g_skel_first.push_back(g_diff_total); g_diff_total += 2 * ipow(4, s.objs.size()); }
}
const uint32_t GAPPY[4] = {3, 4, 7, 9};

// decode case -> history; returns number of objects (k)
int decode_history(uint64_t index, std::vector<DObj>& out, std::string& desc) {
    std::size_t si = std::upper_bound(g_skel_first.begin(), g_skel_first.end(), index) - g_skel_first.begin() - 1;
    const Skel& sk = g_skels[si];
    uint64_t code = index - g_skel_first[si];
    const int scheme = static_cast<int>(code & 1U);
    code >>= 1;
    out.clear();
    desc.clear();
    for (const auto& o : sk.objs) {
        const int runlen = static_cast<int>(code % 4) + 1;
        code /= 4;
        for (int v = 0; v < runlen; ++v) out.push_back(DObj{o.first, o.second, scheme == 0 ? static_cast<uint32_t>(v + 1) : GAPPY[v], nullptr});
        desc += vh::fmt("%c%lldx%d ", DCH[o.first], (long long)o.second, runlen);
    }
    desc += scheme == 0 ? "versions 1.." : "versions 3,4,7,9";
    return static_cast<int>(sk.objs.size());
}

void build_dobj(Buffer& b, DObj& o, int idx) {
    using namespace osmium::builder;
    const std::size_t off = b.committed();
    if (o.type == 0) {
        NodeBuilder nb{b};
        nb.set_id(o.id).set_version(o.version).set_location(osmium::Location{1.0, 2.0});
        nb.set_user("u");
        add_tags(nb, idx);
    } else if (o.type == 1) {
        WayBuilder wb{b};
        wb.set_id(o.id).set_version(o.version);
        wb.set_user("u");
        { WayNodeListBuilder nl{wb}; for (int i = 0; i <= idx % 3; ++i) nl.add_node_ref(100 + i); }
        add_tags(wb, idx);
    } else {
        RelationBuilder rb{b};
        rb.set_id(o.id).set_version(o.version);
        rb.set_user("u");
        { RelationMemberListBuilder ml{rb}; ml.add_member(item_type::node, 5, "role"); }
        add_tags(rb, idx);
    }
    b.commit();
    o.addr = b.data() + off;
}

// split patterns for the mock source: boundary after object i iff pattern says so
bool split_after(int pattern, std::size_t i, uint64_t rnd) {
    switch (pattern) {
        case 0: return false;                    // one buffer
        case 1: return true;                     // one object per buffer
        case 2: return i % 2 == 0;
        case 3: return i % 2 == 1;
        case 4: return i % 3 == 0;
        case 5: return i % 3 == 1;
        case 6: return i % 3 == 2;
        default: return (rnd >> (i % 60)) & 1U;  // seeded random
    }
}
constexpr int NPATTERNS = 9;

// mode=diff: buffer- and mock-source-based diff iteration over one enumerated history
void case_diff(uint64_t case_no, vh::Rng& rng) {
    const uint64_t index = permute_case(case_no, g_diff_total);
    static Buffer buffer{256 * 1024, Buffer::auto_grow::no};
    static Buffer csbuf{4096, Buffer::auto_grow::no};
    static MockSource ms;
    std::string desc;
    const int k = decode_history(index, g_dobjs, desc);
    vh::set_case_desc("diff history: %s", desc.c_str());
    const unsigned div = static_cast<unsigned>(vh::arg_int("ddiv", 1));
    if (k >= 5 && div > 1 && vh::mix(vh::st().seed, index) % div != 0) { vh::count("diff_histories_skipped_by_sampling"); return; }
    buffer.clear();
    std::vector<std::size_t> offs;
    for (std::size_t i = 0; i < g_dobjs.size(); ++i) { offs.push_back(buffer.committed()); build_dobj(buffer, g_dobjs[i], static_cast<int>(i)); }
    offs.push_back(buffer.committed());
    if (csbuf.committed() == 0) build_item(csbuf, SY_C, 30);
    g_d_by_key = false;
    vh::count(vh::fmt("diff_histories_%d_objects", k));
    vh::count_max("max_history_versions", g_dobjs.size());
    const DList MANUAL{1, {DK_FULL}};
    using osmium::OSMObject;
    // manual iteration, three dereference styles, const and non-const iterators, typed iterator
    for (int style = 0; style < 3; ++style) {
        g_dlog.clear(); run_manual(style, buffer.begin<OSMObject>(), buffer.end<OSMObject>());
        check_diff_run("DiffIterator<Buffer::t_iterator<OSMObject>>", MANUAL, -1, vh::fmt("style=%d", style));
        g_dlog.clear(); run_manual(style, buffer.cbegin<OSMObject>(), buffer.cend<OSMObject>());
        check_diff_run("DiffIterator<Buffer::t_const_iterator<OSMObject>>", MANUAL, -1, vh::fmt("style=%d", style));
    }
    g_dlog.clear(); run_manual(0, buffer.begin<osmium::Node>(), buffer.end<osmium::Node>());
    check_diff_run("DiffIterator<Buffer::t_iterator<Node>>", MANUAL, 0, "");
    g_dlog.clear(); run_manual(1, buffer.cbegin<osmium::Way>(), buffer.cend<osmium::Way>());
    check_diff_run("DiffIterator<Buffer::t_const_iterator<Way>>", MANUAL, 1, "");
    g_dlog.clear(); run_manual(2, buffer.begin<osmium::Relation>(), buffer.end<osmium::Relation>());
    check_diff_run("DiffIterator<Buffer::t_iterator<Relation>>", MANUAL, 2, "");
    // apply_diff over iterator ranges with 1..4 handlers
    for (int li = 0; li < NDLISTS; ++li) {
        g_dlog.clear(); run_apply_diff(li, buffer.begin<OSMObject>(), buffer.end<OSMObject>());
        check_diff_run("apply_diff(begin<OSMObject>(), end)", DLISTS[li], -1, "");
        g_dlog.clear(); run_apply_diff(li, buffer.cbegin<OSMObject>(), buffer.cend<OSMObject>());
        check_diff_run("apply_diff(cbegin<OSMObject>(), cend)", DLISTS[li], -1, "");
        vh::count(vh::fmt("diff_handler_lists_len%d", DLISTS[li].len), 2);
    }
    // a source that delivers the history in several buffers (as a Reader does): prev/curr/next straddle buffers
    const uint64_t rnd = rng.next();
    for (int pat = 0; pat < NPATTERNS; ++pat) {
        auto fill = [&](bool extras) {
            ms.chunks.clear(); ms.next = 0;
            if (extras) { ms.chunks.push_back({nullptr, 0}); ms.chunks.push_back({csbuf.data(), csbuf.committed()}); }
            std::size_t start = 0;
            for (std::size_t i = 0; i < g_dobjs.size(); ++i) {
                if (i + 1 == g_dobjs.size() || split_after(pat == 8 ? 7 : pat, i, pat == 8 ? ~rnd : rnd)) {
                    ms.chunks.push_back({buffer.data() + offs[start], offs[i + 1] - offs[start]});
                    if (extras && i % 2 == 1) ms.chunks.push_back({csbuf.data(), csbuf.committed()});
                    if (extras && i % 3 == 0) ms.chunks.push_back({nullptr, 0});
                    start = i + 1;
                }
            }
            vh::count_max("max_diff_mock_buffers", ms.chunks.size());
            if (ms.chunks.size() > 1) vh::count("diff_mock_multi_buffer_runs");
        };
        const bool extras = (pat + index) % 2 == 1;
        const std::string extra = vh::fmt("split-pattern=%d%s", pat, extras ? " +buffers without objects" : "");
        const int li = static_cast<int>((index + pat) % NDLISTS);
        fill(extras);
        g_dlog.clear(); run_apply_diff_source(li, ms);
        check_diff_run("apply_diff(source) [InputIterator<source, OSMObject>]", DLISTS[li], -1, extra);
        fill(!extras);
        using It = osmium::io::InputIterator<MockSource, const OSMObject>;
        g_dlog.clear(); run_manual(pat % 3, It{ms}, It{});
        check_diff_run("DiffIterator<InputIterator<source, const OSMObject>>", MANUAL, -1, extra);
    }
    vh::count("diff_histories");
    if (index % 20011 == 7) vh::sample_str("diff history (type id x versions): " + desc);
}

// mode=diff_reader: the history as OPL text through a real Reader. Built with
// OSMIUM_VERIF_PARSER_BUFFER_SIZE=4096 the objects (1.5 KiB tags) are spread over several buffers.
void case_diff_reader(uint64_t case_no, vh::Rng&) {
    const uint64_t index = permute_case(case_no, g_diff_total);
    std::string desc;
    const int k = decode_history(index, g_dobjs, desc);
    vh::set_case_desc("diff through Reader, history: %s", desc.c_str());
    const unsigned div = static_cast<unsigned>(vh::arg_int("rddiv", 1));
    if (k >= 3 && div > 1 && vh::mix(vh::st().seed, index) % div != 0) { vh::count("diff_reader_histories_skipped_by_sampling"); return; }
    static const std::string big = [] {   // six tags of 250 bytes each (a tag value is limited to 1024 characters)
        std::string t;
        for (int j = 0; j < 6; ++j) t += (j ? ",k" : "k") + std::to_string(j) + "=" + std::string(250, 'x');
        return t;
    }();
    std::string opl;
    for (std::size_t i = 0; i < g_dobjs.size(); ++i) {
        const DObj& o = g_dobjs[i];
        opl += vh::fmt("%c%lld v%u dV c5 t2020-01-01T00:00:00Z i1 uu T%s,n=%zu", DCH[o.type], (long long)o.id, o.version, big.c_str(), i);
        opl += o.type == 0 ? " x1 y2\n" : o.type == 1 ? " Nn1,n2\n" : " Mn1@role\n";
    }
    g_d_by_key = true;
    const osmium::io::File file{opl.data(), opl.size(), "opl"};
    // pre-pass: how does the Reader cut the history into buffers?
    std::vector<std::size_t> per_buffer;
    {
        osmium::io::Reader reader{file};
        while (osmium::memory::Buffer b = reader.read()) {
            std::size_t n = 0;
            for (auto it = b.begin<osmium::OSMObject>(); it != b.end<osmium::OSMObject>(); ++it) ++n;
            per_buffer.push_back(n);
        }
        reader.close();
    }
    std::size_t total = 0;
    for (auto n : per_buffer) total += n;
    if (total != g_dobjs.size()) { vh::violation("harness: Reader pre-pass did not deliver the history", vh::fmt("%zu of %zu objects", total, g_dobjs.size())); return; }
    vh::count_max("max_diff_reader_buffers", per_buffer.size());
    if (per_buffer.size() > 1) {
        vh::count("diff_reader_multi_buffer_histories");
        // windows prev/curr/next of one object that straddle a buffer boundary
        std::vector<int> bufno;
        for (std::size_t b = 0; b < per_buffer.size(); ++b) for (std::size_t j = 0; j < per_buffer[b]; ++j) bufno.push_back(static_cast<int>(b));
        for (std::size_t i = 0; i + 1 < g_dobjs.size(); ++i)
            if (same_object(g_dobjs[i], g_dobjs[i + 1]) && bufno[i] != bufno[i + 1]) vh::count("diff_reader_same_object_neighbours_in_different_buffers");
    }
    const std::string extra = vh::fmt("reader buffers=%zu", per_buffer.size());
    const int li = static_cast<int>(index % NDLISTS);
    {
        osmium::io::Reader reader{file};
        g_dlog.clear(); run_apply_diff_source(li, reader);
        reader.close();
        check_diff_run("apply_diff(Reader)", DLISTS[li], -1, extra);
    }
    {
        osmium::io::Reader reader{file, (index & 1U) ? osmium::io::buffers_type::single : osmium::io::buffers_type::any};
        using It = osmium::io::InputIterator<osmium::io::Reader, osmium::OSMObject>;
        const DList MANUAL{1, {DK_FULL}};
        g_dlog.clear(); run_manual(static_cast<int>(index % 3), It{reader}, It{});
        reader.close();
        check_diff_run("DiffIterator<InputIterator<Reader, OSMObject>>", MANUAL, -1, extra);
    }
    vh::count("diff_reader_histories");
    if (index % 1013 == 3) vh::sample_str("diff through Reader (" + extra + "): " + desc);
}

#endif // PART(4)

// C20_PART3_MARKER
} // namespace

int main(int argc, char** argv) {
    vh::parse_args(argc, argv);
    const std::string mode = vh::arg("mode", "apply");
    if (mode == "apply") {
        const int maxlen = static_cast<int>(vh::arg_int("maxlen", 5));
        return vh::run_cases(argc, argv, sequences_upto(NSYM, maxlen), case_apply, at_end_apply);
    }
#if PART(4)
    if (mode == "diff" || mode == "diff_reader") {
        init_skels(static_cast<int>(vh::arg_int("kmax", 5)));
        if (vh::arg_int("print-total", 0)) { std::printf("%llu\n", (unsigned long long)g_diff_total); return 0; }
        return vh::run_cases(argc, argv, g_diff_total, mode == "diff" ? case_diff : case_diff_reader);
    }
#endif
    if (mode == "reader") {
        const int maxlen = static_cast<int>(vh::arg_int("maxlen", 5));
        return vh::run_cases(argc, argv, 2 * sequences_upto(4, maxlen), case_reader, at_end_apply);
    }
    return 2;
}
