// C20 - handler dispatch (osmium::apply / apply_item / apply_flush, DynamicHandler,
// ChainHandler, functors wrapped as handlers) and diff iteration (DiffIterator,
// apply_diff, DiffHandler).
//
// Oracle: every callback appends (handler index, callback, static param type,
// item index by address, dynamic item type, id, version) to an ordered log.
// The log is compared with a model computed from the item sequence: for every
// item the source yields, in order, for every handler in argument order,
// osm_object (OSM objects only) and then exactly the type callback; one flush
// per handler at the end. Not judged (documentation silent): whether removed
// items are yielded (both alternatives accepted, dispatch rules must hold
// either way), whether DynamicHandler/ChainHandler forward osm_object and
// sub-item callbacks to the wrapped handlers, functors with a non-const call
// operator and functors taking `const Item&` (counted as information).
//
// The TU is built several times; C20_PART selects what is compiled:
//   1 = apply over non-const sources   2 = apply over const sources
//   3 = apply over InputIterator sources (mock source), apply_item loops, real Reader
//   4 = DiffIterator / apply_diff (buffer, mock source, real Reader)
//   0 / undefined = everything

#include "vh.hpp"

#include <osmium/builder/osm_object_builder.hpp>
#include <osmium/diff_handler.hpp>
#include <osmium/diff_iterator.hpp>
#include <osmium/diff_visitor.hpp>
#include <osmium/dynamic_handler.hpp>
#include <osmium/handler.hpp>
#include <osmium/handler/chain.hpp>
#include <osmium/io/input_iterator.hpp>
#include <osmium/io/opl_input.hpp>
#include <osmium/io/reader.hpp>
#include <osmium/memory/buffer.hpp>
#include <osmium/osm.hpp>
#include <osmium/visitor.hpp>

#include "vh_hooks.hpp"

#include <array>
#include <memory>
#include <string>
#include <tuple>
#include <type_traits>
#include <utility>
#include <vector>

#ifndef C20_PART
# define C20_PART 0
#endif
#define PART(n) (C20_PART == 0 || C20_PART == (n))

namespace {

using osmium::item_type;
using osmium::memory::Buffer;
using osmium::memory::Item;

// ------------------------------------------------------------------ items

enum Sym : int { SY_N, SY_W, SY_R, SY_A, SY_C, SY_RN, SY_RC, SY_T, SY_L, SY_M, SY_O, SY_I, SY_D, NSYM };
const char SYMCH[] = "nwracNCtlmoid";

item_type sym_type(int s) {
    switch (s) {
        case SY_N: case SY_RN: return item_type::node;
        case SY_W: return item_type::way;
        case SY_R: return item_type::relation;
        case SY_A: return item_type::area;
        case SY_C: case SY_RC: return item_type::changeset;
        case SY_T: return item_type::tag_list;
        case SY_L: return item_type::way_node_list;
        case SY_M: return item_type::relation_member_list;
        case SY_O: return item_type::outer_ring;
        case SY_I: return item_type::inner_ring;
        default: return item_type::changeset_discussion;
    }
}
bool type_is_object(item_type t) { return t == item_type::node || t == item_type::way || t == item_type::relation || t == item_type::area; }
bool type_is_entity(item_type t) { return type_is_object(t) || t == item_type::changeset; }

struct ItemInfo {
    int sym = 0;
    item_type type = item_type::undefined;
    bool removed = false;
    int64_t id = 0;        // 0 for non-entities
    uint32_t version = 0;  // num_changes for changesets
    const unsigned char* addr = nullptr;
};

void add_tags(osmium::builder::Builder& parent, int idx) {
    osmium::builder::TagListBuilder tb{parent};
    tb.add_tag("k" + std::to_string(idx), "value");
    tb.add_tag("name", "x");
}

// Appends one top-level item of kind `s` to the buffer. Entities carry nested
// sub-items (which apply() must NOT dispatch).
ItemInfo build_item(Buffer& b, int s, int idx) {
    using namespace osmium::builder;
    ItemInfo info;
    info.sym = s;
    info.type = sym_type(s);
    info.removed = (s == SY_RN || s == SY_RC);
    const std::size_t off = b.committed();
    const int64_t id = idx + 1;
    const uint32_t ver = static_cast<uint32_t>(7 * (idx + 1) + s);
    switch (info.type) {
        case item_type::node: {
            NodeBuilder nb{b};
            nb.set_id(id).set_version(ver).set_location(osmium::Location{1.0 + idx, 2.0});
            nb.set_user("u");
            add_tags(nb, idx);
            break;
        }
        case item_type::way: {
            WayBuilder wb{b};
            wb.set_id(id).set_version(ver);
            wb.set_user("u");
            {
                WayNodeListBuilder nl{wb};
                for (int i = 0; i <= idx; ++i) nl.add_node_ref(100 + i);
            }
            add_tags(wb, idx);
            break;
        }
        case item_type::relation: {
            RelationBuilder rb{b};
            rb.set_id(id).set_version(ver);
            rb.set_user("u");
            {
                RelationMemberListBuilder ml{rb};
                ml.add_member(item_type::node, 5, "role");
                ml.add_member(item_type::way, 6, "");
            }
            add_tags(rb, idx);
            break;
        }
        case item_type::area: {
            AreaBuilder ab{b};
            ab.set_id(id).set_version(ver);
            ab.set_user("u");
            add_tags(ab, idx);
            {
                OuterRingBuilder ob{ab};
                ob.add_node_ref(1, osmium::Location{0.0, 0.0});
                ob.add_node_ref(2, osmium::Location{0.0, 3.0});
                ob.add_node_ref(3, osmium::Location{3.0, 3.0});
                ob.add_node_ref(1, osmium::Location{0.0, 0.0});
            }
            {
                InnerRingBuilder ib{ab};
                ib.add_node_ref(4, osmium::Location{1.0, 1.0});
                ib.add_node_ref(5, osmium::Location{1.0, 2.0});
                ib.add_node_ref(6, osmium::Location{2.0, 2.0});
                ib.add_node_ref(4, osmium::Location{1.0, 1.0});
            }
            break;
        }
        case item_type::changeset: {
            ChangesetBuilder cb{b};
            cb.set_id(static_cast<osmium::changeset_id_type>(id)).set_num_changes(ver);
            cb.set_user("u");
            add_tags(cb, idx);
            {
                ChangesetDiscussionBuilder db{cb};
                db.add_comment(osmium::Timestamp{uint32_t{1000}}, 3, "user");
                db.add_comment_text("text");
            }
            break;
        }
        case item_type::tag_list: {
            TagListBuilder tb{b};
            tb.add_tag("top", "level");
            break;
        }
        case item_type::way_node_list: {
            WayNodeListBuilder nl{b};
            nl.add_node_ref(7);
            nl.add_node_ref(8);
            break;
        }
        case item_type::relation_member_list: {
            RelationMemberListBuilder ml{b};
            ml.add_member(item_type::relation, 9, "r");
            break;
        }
        case item_type::outer_ring: {
            OuterRingBuilder ob{b};
            ob.add_node_ref(1);
            ob.add_node_ref(2);
            break;
        }
        case item_type::inner_ring: {
            InnerRingBuilder ib{b};
            ib.add_node_ref(3);
            break;
        }
        default: {
            ChangesetDiscussionBuilder db{b};
            db.add_comment(osmium::Timestamp{uint32_t{2000}}, 4, "someone");
            db.add_comment_text("hello");
            break;
        }
    }
    b.commit();
    if (info.removed) b.get<Item>(off).set_removed(true);
    if (type_is_entity(info.type)) { info.id = id; info.version = ver; }
    info.addr = b.data() + off;   // fixed up by the caller when the buffer can still grow
    return info;
}

// ------------------------------------------------------------------ callback log

enum Cb : uint8_t { CB_OBJ, CB_NODE, CB_WAY, CB_REL, CB_AREA, CB_CS, CB_TAGS, CB_WNL, CB_RML, CB_OUTER, CB_INNER, CB_DISC, CB_FLUSH, CB_CALL, NCB };
const char* const CBNAME[] = {"osm_object", "node", "way", "relation", "area", "changeset", "tag_list", "way_node_list",
                              "relation_member_list", "outer_ring", "inner_ring", "changeset_discussion", "flush", "operator()"};
// static parameter type through which a functor was called
enum St : uint8_t { ST_NONE, ST_NODE, ST_WAY, ST_REL, ST_AREA, ST_CS, ST_OBJ, ST_ENTITY, ST_ITEM, ST_OTHER };
const char* const STNAME[] = {"", "Node", "Way", "Relation", "Area", "Changeset", "OSMObject", "OSMEntity", "Item", "other"};

template <typename T> constexpr St st_of() {
    using U = std::decay_t<T>;
    return std::is_same<U, osmium::Node>::value ? ST_NODE : std::is_same<U, osmium::Way>::value ? ST_WAY :
           std::is_same<U, osmium::Relation>::value ? ST_REL : std::is_same<U, osmium::Area>::value ? ST_AREA :
           std::is_same<U, osmium::Changeset>::value ? ST_CS : std::is_same<U, osmium::OSMObject>::value ? ST_OBJ :
           std::is_same<U, osmium::OSMEntity>::value ? ST_ENTITY : std::is_same<U, Item>::value ? ST_ITEM : ST_OTHER;
}

struct Ev {
    uint8_t h = 0;      // handler index: 4 * position in the argument list + sub-handler
    uint8_t cb = 0;
    uint8_t st = 0;
    int8_t item = -1;   // index of the item in the sequence (-1: flush / unknown address)
    uint16_t type = 0;  // dynamic item type as read through the reference the callback got
    int64_t id = 0;
    uint32_t ver = 0;
    bool operator==(const Ev& o) const { return h == o.h && cb == o.cb && st == o.st && item == o.item && type == o.type && id == o.id && ver == o.ver; }
};

constexpr std::size_t MAXLOG = 4096;
Ev g_log[MAXLOG];
std::size_t g_nlog = 0;
bool g_log_overflow = false;
// address -> item index of the current sequence; g_by_id: resolve by entity id (real Reader)
const unsigned char* g_addr[40];
int g_naddr = 0;
bool g_by_id = false;

void rec(int h, Cb cb, St st, const Item* it) {
    if (g_nlog >= MAXLOG) { g_log_overflow = true; return; }
    Ev& e = g_log[g_nlog++];
    e = Ev{};
    e.h = static_cast<uint8_t>(h);
    e.cb = cb;
    e.st = st;
    if (!it) return;
    const item_type t = it->type();
    e.type = static_cast<uint16_t>(t);
    if (type_is_object(t)) {
        const auto* o = static_cast<const osmium::OSMObject*>(it);
        e.id = o->id();
        e.ver = o->version();
    } else if (t == item_type::changeset) {
        const auto* c = static_cast<const osmium::Changeset*>(it);
        e.id = c->id();
        e.ver = c->num_changes();
    }
    if (g_by_id) {
        e.item = static_cast<int8_t>(e.id - 1);
    } else {
        const auto* p = reinterpret_cast<const unsigned char*>(it);
        for (int i = 0; i < g_naddr; ++i) if (g_addr[i] == p) { e.item = static_cast<int8_t>(i); break; }
    }
}

// ------------------------------------------------------------------ handler kinds

#define C20_FULL_CALLBACKS(CQ, MQ) \
    void osm_object(CQ osmium::OSMObject& o) MQ { rec(h, CB_OBJ, ST_NONE, &o); } \
    void node(CQ osmium::Node& o) MQ { rec(h, CB_NODE, ST_NONE, &o); } \
    void way(CQ osmium::Way& o) MQ { rec(h, CB_WAY, ST_NONE, &o); } \
    void relation(CQ osmium::Relation& o) MQ { rec(h, CB_REL, ST_NONE, &o); } \
    void area(CQ osmium::Area& o) MQ { rec(h, CB_AREA, ST_NONE, &o); } \
    void changeset(CQ osmium::Changeset& o) MQ { rec(h, CB_CS, ST_NONE, &o); } \
    void tag_list(CQ osmium::TagList& o) MQ { rec(h, CB_TAGS, ST_NONE, &o); } \
    void way_node_list(CQ osmium::WayNodeList& o) MQ { rec(h, CB_WNL, ST_NONE, &o); } \
    void relation_member_list(CQ osmium::RelationMemberList& o) MQ { rec(h, CB_RML, ST_NONE, &o); } \
    void outer_ring(CQ osmium::OuterRing& o) MQ { rec(h, CB_OUTER, ST_NONE, &o); } \
    void inner_ring(CQ osmium::InnerRing& o) MQ { rec(h, CB_INNER, ST_NONE, &o); } \
    void changeset_discussion(CQ osmium::ChangesetDiscussion& o) MQ { rec(h, CB_DISC, ST_NONE, &o); } \
    void flush() MQ { rec(h, CB_FLUSH, ST_NONE, nullptr); }

struct RecS : osmium::handler::Handler {    // const-reference parameters
    int h;
    explicit RecS(int h_) : h(h_) {}
    C20_FULL_CALLBACKS(const, )
};
struct RecSN : osmium::handler::Handler {   // non-const reference parameters
    int h;
    explicit RecSN(int h_) : h(h_) {}
    C20_FULL_CALLBACKS(, )
};
struct RecSC : osmium::handler::Handler {   // const member functions, used through a const lvalue
    int h;
    explicit RecSC(int h_) : h(h_) {}
    C20_FULL_CALLBACKS(const, const)
};
struct RecP : osmium::handler::Handler {    // overrides only three callbacks and flush
    int h;
    explicit RecP(int h_) : h(h_) {}
    void way(const osmium::Way& o) { rec(h, CB_WAY, ST_NONE, &o); }
    void changeset(const osmium::Changeset& o) { rec(h, CB_CS, ST_NONE, &o); }
    void inner_ring(const osmium::InnerRing& o) { rec(h, CB_INNER, ST_NONE, &o); }
    void flush() { rec(h, CB_FLUSH, ST_NONE, nullptr); }
};
struct FunD {   // visitor-style functor for DynamicHandler (no named callbacks, no flush)
    int h;
    explicit FunD(int h_) : h(h_) {}
    void operator()(const osmium::Node& o) { rec(h, CB_CALL, ST_NODE, &o); }
    void operator()(const osmium::Way& o) { rec(h, CB_CALL, ST_WAY, &o); }
    void operator()(const Item& o) { rec(h, CB_CALL, ST_ITEM, &o); }
};
struct Fun2 {   // function object with two call operators, wrapped by apply()
    int h;
    void operator()(const osmium::Node& o) const { rec(h, CB_CALL, ST_NODE, &o); }
    void operator()(osmium::Relation& o) const { rec(h, CB_CALL, ST_REL, &o); }
};

enum Kind : int {
    K_S, K_SN, K_SC, K_ST, K_P, K_D0, K_DS, K_DF,
    K_LcN, K_LnN, K_LcW, K_LnW, K_LcR, K_LnR, K_LcA, K_LnA, K_LcC, K_LnC, K_LcO, K_LnO, K_LcE, K_LnE,
    K_LG, K_LL, K_F2, K_LM, K_LI, K_CH2, K_CH3, K_CHN, NKIND
};
const char* const KINDNAME[] = {
    "static handler", "static handler (non-const parameters)", "const static handler", "temporary static handler",
    "partial static handler", "empty DynamicHandler", "DynamicHandler(handler)", "DynamicHandler(functor)",
    "lambda(const Node&)", "lambda(Node&)", "lambda(const Way&)", "lambda(Way&)", "lambda(const Relation&)", "lambda(Relation&)",
    "lambda(const Area&)", "lambda(Area&)", "lambda(const Changeset&)", "lambda(Changeset&)", "lambda(const OSMObject&)",
    "lambda(OSMObject&)", "lambda(const OSMEntity&)", "lambda(OSMEntity&)", "generic lambda(const auto&)", "lvalue lambda(const Node&)",
    "functor(const Node&|Relation&)", "mutable lambda(const Way&)", "lambda(const Item&)",
    "ChainHandler<static,static>", "ChainHandler<static,DynamicHandler,static-nonconst>", "ChainHandler<ChainHandler<static,static>,static>"};

template <int K> struct Holder;

template <> struct Holder<K_S> { RecS s; explicit Holder(int p) : s(p * 4) {} RecS& arg() { return s; } };
template <> struct Holder<K_SN> { RecSN s; explicit Holder(int p) : s(p * 4) {} RecSN& arg() { return s; } };
template <> struct Holder<K_SC> { const RecSC s; explicit Holder(int p) : s(p * 4) {} const RecSC& arg() { return s; } };
template <> struct Holder<K_ST> { int h; explicit Holder(int p) : h(p * 4) {} RecS arg() { return RecS{h}; } };
template <> struct Holder<K_P> { RecP s; explicit Holder(int p) : s(p * 4) {} RecP& arg() { return s; } };
template <> struct Holder<K_D0> { osmium::handler::DynamicHandler d; explicit Holder(int) {} osmium::handler::DynamicHandler& arg() { return d; } };
template <> struct Holder<K_DS> {
    osmium::handler::DynamicHandler d;
    explicit Holder(int p) { d.set<RecS>(p * 4); }
    osmium::handler::DynamicHandler& arg() { return d; }
};
template <> struct Holder<K_DF> {
    osmium::handler::DynamicHandler d;
    explicit Holder(int p) { d.set<FunD>(p * 4); }
    osmium::handler::DynamicHandler& arg() { return d; }
};

#define C20_LAMBDA_HOLDER(K, PARAM, ST) \
    template <> struct Holder<K> { int h; explicit Holder(int p) : h(p * 4) {} \
        auto arg() { const int hh = h; return [hh](PARAM x) { rec(hh, CB_CALL, ST, &x); }; } };
C20_LAMBDA_HOLDER(K_LcN, const osmium::Node&, ST_NODE)
C20_LAMBDA_HOLDER(K_LnN, osmium::Node&, ST_NODE)
C20_LAMBDA_HOLDER(K_LcW, const osmium::Way&, ST_WAY)
C20_LAMBDA_HOLDER(K_LnW, osmium::Way&, ST_WAY)
C20_LAMBDA_HOLDER(K_LcR, const osmium::Relation&, ST_REL)
C20_LAMBDA_HOLDER(K_LnR, osmium::Relation&, ST_REL)
C20_LAMBDA_HOLDER(K_LcA, const osmium::Area&, ST_AREA)
C20_LAMBDA_HOLDER(K_LnA, osmium::Area&, ST_AREA)
C20_LAMBDA_HOLDER(K_LcC, const osmium::Changeset&, ST_CS)
C20_LAMBDA_HOLDER(K_LnC, osmium::Changeset&, ST_CS)
C20_LAMBDA_HOLDER(K_LcO, const osmium::OSMObject&, ST_OBJ)
C20_LAMBDA_HOLDER(K_LnO, osmium::OSMObject&, ST_OBJ)
C20_LAMBDA_HOLDER(K_LcE, const osmium::OSMEntity&, ST_ENTITY)
C20_LAMBDA_HOLDER(K_LnE, osmium::OSMEntity&, ST_ENTITY)
C20_LAMBDA_HOLDER(K_LI, const Item&, ST_ITEM)
template <> struct Holder<K_LG> { int h; explicit Holder(int p) : h(p * 4) {}
    auto arg() { const int hh = h; return [hh](const auto& x) { rec(hh, CB_CALL, st_of<decltype(x)>(), &x); }; } };
template <> struct Holder<K_LM> { int h; explicit Holder(int p) : h(p * 4) {}
    auto arg() { const int hh = h; int calls = 0; return [hh, calls](const osmium::Way& x) mutable { ++calls; rec(hh, CB_CALL, ST_WAY, &x); }; } };
inline auto make_lvalue_lambda(int h) { return [h](const osmium::Node& x) { rec(h, CB_CALL, ST_NODE, &x); }; }
template <> struct Holder<K_LL> { decltype(make_lvalue_lambda(0)) l; explicit Holder(int p) : l(make_lvalue_lambda(p * 4)) {} auto& arg() { return l; } };
template <> struct Holder<K_F2> { Fun2 f; explicit Holder(int p) : f{p * 4} {} Fun2& arg() { return f; } };

template <> struct Holder<K_CH2> {
    RecS a, b;
    osmium::handler::ChainHandler<RecS, RecS> c;
    explicit Holder(int p) : a(p * 4), b(p * 4 + 1), c(a, b) {}
    auto& arg() { return c; }
};
template <> struct Holder<K_CH3> {
    RecS a;
    osmium::handler::DynamicHandler d;
    RecSN n;
    osmium::handler::ChainHandler<RecS, osmium::handler::DynamicHandler, RecSN> c;
    explicit Holder(int p) : a(p * 4), n(p * 4 + 2), c(a, d, n) { d.set<RecS>(p * 4 + 1); }
    auto& arg() { return c; }
};
template <> struct Holder<K_CHN> {
    RecS a, b, e;
    osmium::handler::ChainHandler<RecS, RecS> inner;
    osmium::handler::ChainHandler<osmium::handler::ChainHandler<RecS, RecS>, RecS> c;
    explicit Holder(int p) : a(p * 4), b(p * 4 + 1), e(p * 4 + 2), inner(a, b), c(inner, e) {}
    auto& arg() { return c; }
};

// ---- model side: what each kind is expected to log

enum Prof : uint8_t { PF_FULL, PF_ENT, PF_P, PF_LAMBDA, PF_GENERIC, PF_DF, PF_UNJUDGED };
enum : uint8_t { TB_N = 1, TB_W = 2, TB_R = 4, TB_A = 8, TB_C = 16, TB_OBJ = 15, TB_ENT = 31 };
struct Overload { uint8_t mask; bool pconst; uint8_t st; };
struct SubSpec { uint8_t sub; Prof prof; Overload ov[2]; int nov; };
struct KindSpec { std::vector<SubSpec> subs; bool needs_nonconst; bool is_handler; };

SubSpec lam(uint8_t mask, bool pconst, uint8_t st) { return SubSpec{0, PF_LAMBDA, {{mask, pconst, st}, {0, false, 0}}, 1}; }
SubSpec sp(uint8_t sub, Prof p) { return SubSpec{sub, p, {{0, false, 0}, {0, false, 0}}, 0}; }

const KindSpec& kind_spec(int k) {
    static std::vector<KindSpec> specs = [] {
        std::vector<KindSpec> v(NKIND);
        v[K_S] = {{sp(0, PF_FULL)}, false, true};
        v[K_SN] = {{sp(0, PF_FULL)}, true, true};
        v[K_SC] = {{sp(0, PF_FULL)}, false, true};
        v[K_ST] = {{sp(0, PF_FULL)}, false, true};
        v[K_P] = {{sp(0, PF_P)}, false, true};
        v[K_D0] = {{}, false, true};
        v[K_DS] = {{sp(0, PF_ENT)}, false, true};
        v[K_DF] = {{sp(0, PF_DF)}, false, true};
        v[K_LcN] = {{lam(TB_N, true, ST_NODE)}, false, false};
        v[K_LnN] = {{lam(TB_N, false, ST_NODE)}, false, false};
        v[K_LcW] = {{lam(TB_W, true, ST_WAY)}, false, false};
        v[K_LnW] = {{lam(TB_W, false, ST_WAY)}, false, false};
        v[K_LcR] = {{lam(TB_R, true, ST_REL)}, false, false};
        v[K_LnR] = {{lam(TB_R, false, ST_REL)}, false, false};
        v[K_LcA] = {{lam(TB_A, true, ST_AREA)}, false, false};
        v[K_LnA] = {{lam(TB_A, false, ST_AREA)}, false, false};
        v[K_LcC] = {{lam(TB_C, true, ST_CS)}, false, false};
        v[K_LnC] = {{lam(TB_C, false, ST_CS)}, false, false};
        v[K_LcO] = {{lam(TB_OBJ, true, ST_OBJ)}, false, false};
        v[K_LnO] = {{lam(TB_OBJ, false, ST_OBJ)}, false, false};
        v[K_LcE] = {{lam(TB_ENT, true, ST_ENTITY)}, false, false};
        v[K_LnE] = {{lam(TB_ENT, false, ST_ENTITY)}, false, false};
        v[K_LG] = {{sp(0, PF_GENERIC)}, false, false};
        v[K_LL] = {{lam(TB_N, true, ST_NODE)}, false, false};
        v[K_F2] = {{SubSpec{0, PF_LAMBDA, {{TB_N, true, ST_NODE}, {TB_R, false, ST_REL}}, 2}}, false, false};
        v[K_LM] = {{sp(0, PF_UNJUDGED)}, false, false};
        v[K_LI] = {{sp(0, PF_UNJUDGED)}, false, false};
        v[K_CH2] = {{sp(0, PF_ENT), sp(1, PF_ENT)}, true, true};
        v[K_CH3] = {{sp(0, PF_ENT), sp(1, PF_ENT), sp(2, PF_ENT)}, true, true};
        v[K_CHN] = {{sp(0, PF_ENT), sp(1, PF_ENT), sp(2, PF_ENT)}, true, true};
        return v;
    }();
    return specs[k];
}

uint8_t type_bit(item_type t) {
    switch (t) {
        case item_type::node: return TB_N;
        case item_type::way: return TB_W;
        case item_type::relation: return TB_R;
        case item_type::area: return TB_A;
        case item_type::changeset: return TB_C;
        default: return 0;
    }
}
Cb type_cb(item_type t) {
    switch (t) {
        case item_type::node: return CB_NODE;
        case item_type::way: return CB_WAY;
        case item_type::relation: return CB_REL;
        case item_type::area: return CB_AREA;
        case item_type::changeset: return CB_CS;
        case item_type::tag_list: return CB_TAGS;
        case item_type::way_node_list: return CB_WNL;
        case item_type::relation_member_list: return CB_RML;
        case item_type::outer_ring: return CB_OUTER;
        case item_type::inner_ring: return CB_INNER;
        default: return CB_DISC;
    }
}
St type_st(item_type t) {
    switch (t) {
        case item_type::node: return ST_NODE;
        case item_type::way: return ST_WAY;
        case item_type::relation: return ST_REL;
        case item_type::area: return ST_AREA;
        case item_type::changeset: return ST_CS;
        default: return ST_OTHER;
    }
}

struct ListDesc { int len; int kinds[4]; };

Ev mk_ev(int h, Cb cb, uint8_t st, int idx, const ItemInfo* it) {
    Ev e;
    e.h = static_cast<uint8_t>(h); e.cb = cb; e.st = st;
    if (it) { e.item = static_cast<int8_t>(idx); e.type = static_cast<uint16_t>(it->type); e.id = it->id; e.ver = it->version; }
    return e;
}

// expected callbacks of the handler at argument position p for one item
void model_item(int kind, int p, int idx, const ItemInfo& it, bool src_const, std::vector<Ev>& out) {
    const item_type t = it.type;
    const uint8_t bit = type_bit(t);
    for (const SubSpec& s : kind_spec(kind).subs) {
        const int h = p * 4 + s.sub;
        switch (s.prof) {
            case PF_FULL:
                if (type_is_object(t)) out.push_back(mk_ev(h, CB_OBJ, ST_NONE, idx, &it));
                out.push_back(mk_ev(h, type_cb(t), ST_NONE, idx, &it));
                break;
            case PF_ENT:
                if (bit) out.push_back(mk_ev(h, type_cb(t), ST_NONE, idx, &it));
                break;
            case PF_P:
                if (t == item_type::way || t == item_type::changeset || t == item_type::inner_ring) out.push_back(mk_ev(h, type_cb(t), ST_NONE, idx, &it));
                break;
            case PF_LAMBDA:
                for (int i = 0; i < s.nov; ++i) {
                    if ((s.ov[i].mask & bit) && (s.ov[i].pconst || !src_const)) { out.push_back(mk_ev(h, CB_CALL, s.ov[i].st, idx, &it)); break; }
                }
                break;
            case PF_GENERIC:
                if (bit) out.push_back(mk_ev(h, CB_CALL, type_st(t), idx, &it));
                break;
            case PF_DF:
                if (bit) out.push_back(mk_ev(h, CB_CALL, t == item_type::node ? ST_NODE : t == item_type::way ? ST_WAY : ST_ITEM, idx, &it));
                break;
            case PF_UNJUDGED:
                break;
        }
    }
}
void model_flush(int kind, int p, std::vector<Ev>& out) {
    for (const SubSpec& s : kind_spec(kind).subs) {
        if (s.prof == PF_FULL || s.prof == PF_ENT || s.prof == PF_P) out.push_back(mk_ev(p * 4 + s.sub, CB_FLUSH, ST_NONE, -1, nullptr));
    }
}
// is this logged event one the property (and the documentation) lets us judge?
bool judged(const ListDesc& L, const Ev& e) {
    const int p = e.h / 4, sub = e.h % 4;
    if (p >= L.len) return true;
    for (const SubSpec& s : kind_spec(L.kinds[p]).subs) {
        if (s.sub != sub) continue;
        if (s.prof == PF_UNJUDGED) return false;
        if (s.prof == PF_ENT) return e.cb == CB_NODE || e.cb == CB_WAY || e.cb == CB_REL || e.cb == CB_AREA || e.cb == CB_CS || e.cb == CB_FLUSH;
        if (s.prof == PF_GENERIC) return type_is_entity(static_cast<item_type>(e.type));
        return true;
    }
    return true;
}

std::string ev_str(const Ev& e) {
    std::string s = vh::fmt("h%u.%s", e.h, CBNAME[e.cb]);
    if (e.st) s += vh::fmt("<%s>", STNAME[e.st]);
    if (e.cb != CB_FLUSH) s += vh::fmt("(#%d %s id=%lld v=%u)", e.item, osmium::item_type_to_name(static_cast<item_type>(e.type)), static_cast<long long>(e.id), e.ver);
    return s;
}
std::string ev_class(const Ev* e) {   // categorical description for violation keys
    if (!e) return "nothing";
    if (e->cb == CB_FLUSH) return "flush";
    std::string s = CBNAME[e->cb];
    if (e->st) s += vh::fmt("<%s>", STNAME[e->st]);
    return s + "(" + osmium::item_type_to_name(static_cast<item_type>(e->type)) + ")";
}
std::string list_str(const ListDesc& L) {
    std::string s;
    for (int i = 0; i < L.len; ++i) { if (i) s += ", "; s += KINDNAME[L.kinds[i]]; }
    return s;
}
std::string seq_str(const std::vector<ItemInfo>& items) {
    std::string s;
    for (const auto& it : items) s += SYMCH[it.sym];
    return s.empty() ? "(empty)" : s;
}

enum Filter { F_ALL, F_ENTITY, F_OBJECT };
bool yields(Filter f, item_type t) { return f == F_ALL || (f == F_ENTITY && type_is_entity(t)) || (f == F_OBJECT && type_is_object(t)); }

uint64_t g_unjudged_events = 0, g_unjudged_expected_mutable = 0, g_unjudged_seen_mutable = 0, g_unjudged_expected_itemfn = 0, g_unjudged_seen_itemfn = 0;

// Compare the callback log of one apply() run with the model.
void check_apply_run(const char* srcname, Filter filter, bool src_const, bool with_flush, const ListDesc& L, const std::vector<ItemInfo>& items,
                     const std::string& extra) {
    static std::vector<Ev> act, exp[2];
    act.clear();
    for (std::size_t i = 0; i < g_nlog; ++i) {
        if (judged(L, g_log[i])) act.push_back(g_log[i]);
        else {
            ++g_unjudged_events;
            const int k = L.kinds[g_log[i].h / 4];
            if (k == K_LM) ++g_unjudged_seen_mutable;
            if (k == K_LI) ++g_unjudged_seen_itemfn;
        }
    }
    bool any_removed = false;
    for (const auto& it : items) if (it.removed && yields(filter, it.type)) any_removed = true;
    const int nalt = any_removed ? 2 : 1;
    for (int alt = 0; alt < nalt; ++alt) {
        exp[alt].clear();
        for (std::size_t i = 0; i < items.size(); ++i) {
            if (!yields(filter, items[i].type)) continue;
            if (alt == 1 && items[i].removed) continue;
            for (int p = 0; p < L.len; ++p) model_item(L.kinds[p], p, static_cast<int>(i), items[i], src_const, exp[alt]);
        }
        if (with_flush) for (int p = 0; p < L.len; ++p) model_flush(L.kinds[p], p, exp[alt]);
    }
    for (int p = 0; p < L.len; ++p) {
        if (L.kinds[p] != K_LM && L.kinds[p] != K_LI) continue;
        for (const auto& it : items) {
            if (!yields(filter, it.type)) continue;
            if (L.kinds[p] == K_LM && it.type == item_type::way) ++g_unjudged_expected_mutable;
            if (L.kinds[p] == K_LI) ++g_unjudged_expected_itemfn;
        }
    }
    vh::count("callbacks_checked", act.size());
    if (g_log_overflow) { vh::violation(std::string("apply over ") + srcname + ": callback log overflow (runaway dispatch)", seq_str(items)); return; }
    int ok = -1;
    for (int alt = 0; alt < nalt; ++alt) if (act == exp[alt]) { ok = alt; break; }
    if (ok >= 0) {
        if (any_removed) vh::count(ok == 0 ? "removed_items_visited_runs" : "removed_items_skipped_runs");
        return;
    }
    // classify against the alternative with the longer common prefix
    int best = 0; std::size_t bestpre = 0;
    for (int alt = 0; alt < nalt; ++alt) {
        std::size_t i = 0;
        while (i < act.size() && i < exp[alt].size() && act[i] == exp[alt][i]) ++i;
        if (i >= bestpre) { bestpre = i; best = alt; }
    }
    const Ev* e = bestpre < exp[best].size() ? &exp[best][bestpre] : nullptr;
    const Ev* a = bestpre < act.size() ? &act[bestpre] : nullptr;
    const int p = (e ? e->h : a ? a->h : 0) / 4;
    std::string what;
    if (e && a && ev_class(e) == ev_class(a) && e->h == a->h) what = "callback " + ev_class(e) + " received the wrong object (identity/id/version)";
    else if (e && a && ev_class(e) == ev_class(a)) what = "callback " + ev_class(e) + " reached the handlers in the wrong order";
    else what = "expected " + ev_class(e) + " but got " + ev_class(a);
    std::string key = vh::fmt("apply over %s, %s at list position %d of %d: %s", srcname, p < L.len ? KINDNAME[L.kinds[p]] : "?", p + 1, L.len, what.c_str());
    std::string d = "items=" + seq_str(items) + " handlers=[" + list_str(L) + "] " + extra + "\n expected:";
    for (const auto& x : exp[best]) d += " " + ev_str(x);
    d += "\n actual  :";
    for (const auto& x : act) d += " " + ev_str(x);
    vh::violation(key, d);
}

// ------------------------------------------------------------------ running handler lists

template <typename Src, int... Ks, std::size_t... Is>
void run_list_impl(Src& src, std::index_sequence<Is...>) {
    std::tuple<Holder<Ks>...> hs(static_cast<int>(Is)...);
    src.apply(std::get<Is>(hs).arg()...);
}

template <typename Src> struct ListEntry { ListDesc desc; void (*run)(Src&); };

template <typename Src, int... Ks> struct Runner {
    static void run(Src& s) { run_list_impl<Src, Ks...>(s, std::make_index_sequence<sizeof...(Ks)>{}); }
    static ListEntry<Src> entry() { return ListEntry<Src>{ListDesc{static_cast<int>(sizeof...(Ks)), {Ks...}}, &run}; }
};

constexpr std::size_t ipow(std::size_t b, std::size_t e) { return e == 0 ? 1 : b * ipow(b, e - 1); }

template <typename Src, const int* SET, std::size_t N, std::size_t Code, std::size_t... Is>
ListEntry<Src> coded_entry(std::index_sequence<Is...>) { return Runner<Src, SET[(Code / ipow(N, Is)) % N]...>::entry(); }

// all lists of length L over SET whose code is a multiple of STRIDE
template <typename Src, const int* SET, std::size_t N, std::size_t L, std::size_t STRIDE, std::size_t... Cs>
void add_lists_impl(std::vector<ListEntry<Src>>& v, std::index_sequence<Cs...>) {
    (v.push_back(coded_entry<Src, SET, N, Cs * STRIDE>(std::make_index_sequence<L>{})), ...);
}
template <typename Src, const int* SET, std::size_t N, std::size_t L, std::size_t STRIDE = 1>
void add_lists(std::vector<ListEntry<Src>>& v) {
    add_lists_impl<Src, SET, N, L, STRIDE>(v, std::make_index_sequence<(ipow(N, L) + STRIDE - 1) / STRIDE>{});
}

constexpr int ALL_NC[] = {K_S, K_SN, K_SC, K_ST, K_P, K_D0, K_DS, K_DF, K_LcN, K_LnN, K_LcW, K_LnW, K_LcR, K_LnR, K_LcA, K_LnA,
                          K_LcC, K_LnC, K_LcO, K_LnO, K_LcE, K_LnE, K_LG, K_LL, K_F2, K_LM, K_LI, K_CH2, K_CH3, K_CHN};
constexpr int ALL_C[] = {K_S, K_SC, K_ST, K_P, K_D0, K_DS, K_DF, K_LcN, K_LnN, K_LcW, K_LnW, K_LcR, K_LnR, K_LcA, K_LnA,
                         K_LcC, K_LnC, K_LcO, K_LnO, K_LcE, K_LnE, K_LG, K_LL, K_F2, K_LM, K_LI};
constexpr int PAIR_NC[] = {K_S, K_SN, K_ST, K_P, K_DS, K_DF, K_LcN, K_LnN, K_LcO, K_LG, K_CH2};
constexpr int PAIR_C[] = {K_S, K_SC, K_ST, K_P, K_DS, K_DF, K_LcN, K_LnN, K_LcO, K_LG};
constexpr int CORE_NC[] = {K_S, K_DS, K_LcO, K_LnW, K_CH2};
constexpr int CORE_C[] = {K_S, K_DS, K_LcO, K_LnW};
constexpr int HANDLERS_NC[] = {K_S, K_SN, K_SC, K_P, K_D0, K_DS, K_DF, K_CH2, K_CH3, K_CHN};
constexpr int HANDLERS_C[] = {K_S, K_SC, K_P, K_D0, K_DS, K_DF};
template <typename T, std::size_t N> constexpr std::size_t alen(const T (&)[N]) { return N; }

enum Level { LV_FULL, LV_MID, LV_HANDLERS };

template <typename Src>
const std::vector<ListEntry<Src>>& lists_for() {
    static const std::vector<ListEntry<Src>> lists = [] {
        std::vector<ListEntry<Src>> v;
        if constexpr (Src::level == LV_HANDLERS) {
            if constexpr (Src::is_const) {
                add_lists<Src, HANDLERS_C, alen(HANDLERS_C), 1>(v);
                add_lists<Src, HANDLERS_C, alen(HANDLERS_C), 2, 5>(v);
                add_lists<Src, HANDLERS_C, alen(HANDLERS_C), 3, 41>(v);
                add_lists<Src, HANDLERS_C, alen(HANDLERS_C), 4, 233>(v);
            } else {
                add_lists<Src, HANDLERS_NC, alen(HANDLERS_NC), 1>(v);
                add_lists<Src, HANDLERS_NC, alen(HANDLERS_NC), 2, 7>(v);
                add_lists<Src, HANDLERS_NC, alen(HANDLERS_NC), 3, 97>(v);
                add_lists<Src, HANDLERS_NC, alen(HANDLERS_NC), 4, 1033>(v);
            }
        } else if constexpr (Src::is_const) {
            add_lists<Src, ALL_C, alen(ALL_C), 1>(v);
            if constexpr (Src::level == LV_FULL) {
                add_lists<Src, PAIR_C, alen(PAIR_C), 2>(v);
                add_lists<Src, CORE_C, alen(CORE_C), 3>(v);
                add_lists<Src, CORE_C, alen(CORE_C), 4>(v);
            } else {
                add_lists<Src, CORE_C, alen(CORE_C), 2>(v);
                add_lists<Src, CORE_C, alen(CORE_C), 3, 5>(v);
                add_lists<Src, CORE_C, alen(CORE_C), 4, 11>(v);
            }
        } else {
            add_lists<Src, ALL_NC, alen(ALL_NC), 1>(v);
            if constexpr (Src::level == LV_FULL) {
                add_lists<Src, PAIR_NC, alen(PAIR_NC), 2>(v);
                add_lists<Src, CORE_NC, alen(CORE_NC), 3>(v);
                add_lists<Src, CORE_NC, alen(CORE_NC), 4>(v);
            } else {
                add_lists<Src, CORE_NC, alen(CORE_NC), 2>(v);
                add_lists<Src, CORE_NC, alen(CORE_NC), 3, 7>(v);
                add_lists<Src, CORE_NC, alen(CORE_NC), 4, 13>(v);
            }
        }
        return v;
    }();
    return lists;
}

// ------------------------------------------------------------------ sequences

struct Sequence {
    Buffer buffer{64 * 1024, Buffer::auto_grow::no};
    std::vector<ItemInfo> items;
    std::vector<std::size_t> offsets;   // offsets[i] .. offsets[i+1] = item i
};

void build_sequence(Sequence& s, const std::vector<int>& syms) {
    s.buffer.clear();
    s.items.clear();
    s.offsets.clear();
    for (std::size_t i = 0; i < syms.size(); ++i) {
        s.offsets.push_back(s.buffer.committed());
        s.items.push_back(build_item(s.buffer, syms[i], static_cast<int>(i)));
    }
    s.offsets.push_back(s.buffer.committed());
}
void use_addresses(const std::vector<ItemInfo>& items) {
    g_by_id = false;
    g_naddr = static_cast<int>(items.size());
    for (int i = 0; i < g_naddr; ++i) g_addr[i] = items[i].addr;
}

// decode a sequence index: all sequences over `nsym` symbols of length 0..maxlen, shortest first
std::vector<int> decode_sequence(uint64_t index, int nsym, const int* alphabet) {
    uint64_t count = 1;
    int len = 0;
    while (index >= count) { index -= count; count *= static_cast<uint64_t>(nsym); ++len; }
    std::vector<int> v(len);
    for (int i = len - 1; i >= 0; --i) { v[i] = alphabet[index % nsym]; index /= nsym; }
    return v;
}
uint64_t sequences_upto(int nsym, int maxlen) {
    uint64_t total = 0, c = 1;
    for (int l = 0; l <= maxlen; ++l) { total += c; c *= static_cast<uint64_t>(nsym); }
    return total;
}

// ------------------------------------------------------------------ sources (apply)

// A source that hands out views of chunks of a sequence buffer, as a Reader hands out buffers.
struct MockSource {
    struct Chunk { unsigned char* data; std::size_t size; };
    std::vector<Chunk> chunks;
    std::size_t next = 0;
    Buffer read() {
        if (next < chunks.size()) {
            const Chunk& c = chunks[next++];
            if (c.size == 0) return Buffer{64, Buffer::auto_grow::no};   // valid buffer without any item
            return Buffer{c.data, c.size};
        }
        return Buffer{};   // invalid buffer = end of input
    }
};
inline osmium::io::InputIterator<MockSource> begin(MockSource& s) { return osmium::io::InputIterator<MockSource>{s}; }
inline osmium::io::InputIterator<MockSource> end(MockSource&) { return {}; }

// split mask: bit i set = buffer boundary after item i; bit 8 = add buffers without items
void fill_mock(MockSource& m, Sequence& s, unsigned mask) {
    m.chunks.clear();
    m.next = 0;
    const bool empties = mask & 256U;
    if (empties) m.chunks.push_back({nullptr, 0});
    std::size_t start = 0;
    const std::size_t n = s.items.size();
    for (std::size_t i = 0; i < n; ++i) {
        if (i + 1 == n || (mask >> i) & 1U) {
            m.chunks.push_back({s.buffer.data() + s.offsets[start], s.offsets[i + 1] - s.offsets[start]});
            if (empties && (i % 2 == 0)) m.chunks.push_back({nullptr, 0});
            start = i + 1;
        }
    }
    if (empties) m.chunks.push_back({nullptr, 0});
}

#define C20_SRC_COMMON(NAME, CONST, FILTER, LEVEL, MOCK) \
    static constexpr const char* name = NAME; static constexpr bool is_const = CONST; static constexpr Filter filter = FILTER; \
    static constexpr Level level = LEVEL; static constexpr bool mock = MOCK; static constexpr bool with_flush = true; \
    Sequence* seq; MockSource* ms;

struct SrcCBuf { C20_SRC_COMMON("const Buffer", true, F_ENTITY, LV_FULL, false)
    template <typename... H> void apply(H&&... h) { const Buffer& b = seq->buffer; osmium::apply(b, std::forward<H>(h)...); } };
struct SrcBuf { C20_SRC_COMMON("Buffer", false, F_ENTITY, LV_FULL, false)
    template <typename... H> void apply(H&&... h) { osmium::apply(seq->buffer, std::forward<H>(h)...); } };
struct SrcItItem { C20_SRC_COMMON("iterator range begin<Item>()", false, F_ALL, LV_FULL, false)
    template <typename... H> void apply(H&&... h) { osmium::apply(seq->buffer.begin<Item>(), seq->buffer.end<Item>(), std::forward<H>(h)...); } };
struct SrcCItItem { C20_SRC_COMMON("iterator range cbegin<Item>()", true, F_ALL, LV_FULL, false)
    template <typename... H> void apply(H&&... h) { osmium::apply(seq->buffer.cbegin<Item>(), seq->buffer.cend<Item>(), std::forward<H>(h)...); } };
struct SrcItObj { C20_SRC_COMMON("iterator range begin<OSMObject>()", false, F_OBJECT, LV_MID, false)
    template <typename... H> void apply(H&&... h) { osmium::apply(seq->buffer.begin<osmium::OSMObject>(), seq->buffer.end<osmium::OSMObject>(), std::forward<H>(h)...); } };
struct SrcCItObj { C20_SRC_COMMON("iterator range cbegin<OSMObject>()", true, F_OBJECT, LV_MID, false)
    template <typename... H> void apply(H&&... h) { osmium::apply(seq->buffer.cbegin<osmium::OSMObject>(), seq->buffer.cend<osmium::OSMObject>(), std::forward<H>(h)...); } };
struct SrcSelItem { C20_SRC_COMMON("ItemIteratorRange select<Item>()", false, F_ALL, LV_MID, false)
    template <typename... H> void apply(H&&... h) { auto r = seq->buffer.select<Item>(); osmium::apply(r, std::forward<H>(h)...); } };
struct SrcCSelEnt { C20_SRC_COMMON("const ItemIteratorRange select<OSMEntity>()", true, F_ENTITY, LV_MID, false)
    template <typename... H> void apply(H&&... h) { const auto r = seq->buffer.select<osmium::OSMEntity>(); osmium::apply(r, std::forward<H>(h)...); } };

struct SrcMockItem { C20_SRC_COMMON("InputIterator<source, Item> via apply(source)", false, F_ALL, LV_MID, true)
    template <typename... H> void apply(H&&... h) { osmium::apply(*ms, std::forward<H>(h)...); } };
struct SrcMockCItem { C20_SRC_COMMON("InputIterator<source, const Item> range", true, F_ALL, LV_MID, true)
    template <typename... H> void apply(H&&... h) { using It = osmium::io::InputIterator<MockSource, const Item>; osmium::apply(It{*ms}, It{}, std::forward<H>(h)...); } };
struct SrcMockObj { C20_SRC_COMMON("InputIteratorRange<source, OSMObject>", false, F_OBJECT, LV_MID, true)
    template <typename... H> void apply(H&&... h) { auto r = osmium::io::make_input_iterator_range<osmium::OSMObject>(*ms); osmium::apply(r, std::forward<H>(h)...); } };
struct SrcMockCEnt { C20_SRC_COMMON("InputIterator<source, const OSMEntity> range", true, F_ENTITY, LV_MID, true)
    template <typename... H> void apply(H&&... h) { using It = osmium::io::InputIterator<MockSource, const osmium::OSMEntity>; osmium::apply(It{*ms}, It{}, std::forward<H>(h)...); } };

// apply_item() per item followed by apply_flush(): the documented building blocks of apply()
#define C20_ITEMLOOP(STRUCT, NAME, CONST, FILTER, TYPE) \
    struct STRUCT { C20_SRC_COMMON(NAME, CONST, FILTER, LV_HANDLERS, false) \
        template <typename... H> void apply(H&&... h) { \
            auto r = seq->buffer.select<TYPE>(); \
            for (auto& item : r) osmium::apply_item(item, h...); \
            osmium::apply_flush(h...); } };
C20_ITEMLOOP(SrcLoopItem, "apply_item(Item&) loop + apply_flush", false, F_ALL, Item)
C20_ITEMLOOP(SrcLoopCItem, "apply_item(const Item&) loop + apply_flush", true, F_ALL, const Item)
C20_ITEMLOOP(SrcLoopEnt, "apply_item(OSMEntity&) loop + apply_flush", false, F_ENTITY, osmium::OSMEntity)
C20_ITEMLOOP(SrcLoopCEnt, "apply_item(const OSMEntity&) loop + apply_flush", true, F_ENTITY, const osmium::OSMEntity)
C20_ITEMLOOP(SrcLoopObj, "apply_item(OSMObject&) loop + apply_flush", false, F_OBJECT, osmium::OSMObject)
C20_ITEMLOOP(SrcLoopCObj, "apply_item(const OSMObject&) loop + apply_flush", true, F_OBJECT, const osmium::OSMObject)

// slice control: a (sequence, list) pair is run iff (list index + salt) % divisor == 0
struct Effort { unsigned divisor; uint64_t salt; bool all_masks; };

template <typename Src>
void run_source(Sequence& seq, const Effort& ef, uint64_t case_index) {
    static MockSource ms;
    Src src{&seq, &ms};
    const auto& lists = lists_for<Src>();
    const std::size_t n = seq.items.size();
    uint64_t runs = 0;
    for (std::size_t li = 0; li < lists.size(); ++li) {
        if ((li + ef.salt) % ef.divisor != 0) continue;
        const ListDesc& L = lists[li].desc;
        unsigned mask_lo = 0, mask_hi = 1;
        if (Src::mock) {
            const unsigned nm = n > 1 ? (1U << (n - 1)) : 1U;
            if (ef.all_masks) { mask_lo = 0; mask_hi = 2 * nm; }
            else { mask_lo = static_cast<unsigned>(vh::mix(case_index, li) % (2 * nm)); mask_hi = mask_lo + 1; }
        }
        for (unsigned mm = mask_lo; mm < mask_hi; ++mm) {
            std::string extra;
            if (Src::mock) {
                const unsigned nm = n > 1 ? (1U << (n - 1)) : 1U;
                const unsigned mask = (mm % nm) | (mm >= nm ? 256U : 0U);
                fill_mock(ms, seq, mask);
                extra = vh::fmt("split-mask=0x%x buffers=%zu", mask, ms.chunks.size());
                vh::count_max("max_mock_buffers", ms.chunks.size());
            }
            g_nlog = 0;
            g_log_overflow = false;
            lists[li].run(src);
            check_apply_run(Src::name, Src::filter, Src::is_const, Src::with_flush, L, seq.items, extra);
            ++runs;
            vh::count(vh::fmt("lists_len%d", L.len));
        }
    }
    vh::count(std::string("runs[") + Src::name + "]", runs);
    vh::count("apply_runs", runs);
    vh::count("distinct_by_construction", runs);
    vh::evaluated(runs);
}

const int FULL_ALPHABET[NSYM] = {SY_N, SY_W, SY_R, SY_A, SY_C, SY_RN, SY_RC, SY_T, SY_L, SY_M, SY_O, SY_I, SY_D};

// mode=apply: case index = index of the item sequence (all sequences of length 0..maxlen)
void case_apply(uint64_t index, vh::Rng&) {
    static Sequence seq;
    const std::vector<int> syms = decode_sequence(index, NSYM, FULL_ALPHABET);
    build_sequence(seq, syms);
    use_addresses(seq.items);
    vh::set_case_desc("apply sequence=%s", seq_str(seq.items).c_str());
    const int len = static_cast<int>(syms.size());
    // complete product up to full_len; above that every list sees a rotating 1/div share of the sequences
    const int full_len = static_cast<int>(vh::arg_int("full_len", 3));
    Effort ef{1, 0, true};
    if (len > full_len) {
        const unsigned div = static_cast<unsigned>(vh::arg_int(len == full_len + 1 ? "div1" : "div2", len == full_len + 1 ? 16 : 64));
        ef = Effort{div, vh::mix(vh::st().seed, index) % div, div == 1};
    }
    vh::count(vh::fmt("sequences_len%d", len));
    bool nonentity = false, removed = false;
    for (const auto& it : seq.items) { if (!type_is_entity(it.type)) nonentity = true; if (it.removed) removed = true; }
    if (nonentity) vh::count("sequences_with_top_level_non_entity_items");
    if (removed) vh::count("sequences_with_removed_items");
#if PART(1)
    run_source<SrcBuf>(seq, ef, index);
    run_source<SrcItItem>(seq, ef, index);
    run_source<SrcItObj>(seq, ef, index);
    run_source<SrcSelItem>(seq, ef, index);
#endif
#if PART(2)
    run_source<SrcCBuf>(seq, ef, index);
    run_source<SrcCItItem>(seq, ef, index);
    run_source<SrcCItObj>(seq, ef, index);
    run_source<SrcCSelEnt>(seq, ef, index);
#endif
#if PART(3)
    run_source<SrcMockItem>(seq, ef, index);
    run_source<SrcMockCItem>(seq, ef, index);
    run_source<SrcMockObj>(seq, ef, index);
    run_source<SrcMockCEnt>(seq, ef, index);
    run_source<SrcLoopItem>(seq, ef, index);
    run_source<SrcLoopCItem>(seq, ef, index);
    run_source<SrcLoopEnt>(seq, ef, index);
    run_source<SrcLoopCEnt>(seq, ef, index);
    run_source<SrcLoopObj>(seq, ef, index);
    run_source<SrcLoopCObj>(seq, ef, index);
#endif
    if (index % 9973 == 5) vh::sample_str(vh::fmt("apply: sequence '%s' (n w r a c = entities, N C = removed node/changeset, t l m o i d = top-level sub-items)", seq_str(seq.items).c_str()));
}

void at_end_apply() {
    vh::count("unjudged_events", g_unjudged_events);
    if (g_unjudged_expected_mutable) vh::info(vh::fmt("not judged: functor with non-const call operator (mutable lambda taking const Way&): called %llu times for %llu ways offered", (unsigned long long)g_unjudged_seen_mutable, (unsigned long long)g_unjudged_expected_mutable));
    if (g_unjudged_expected_itemfn) vh::info(vh::fmt("not judged: lambda taking const Item&: called %llu times for %llu items offered", (unsigned long long)g_unjudged_seen_itemfn, (unsigned long long)g_unjudged_expected_itemfn));
    vh::count("info_mutable_lambda_ways_offered", g_unjudged_expected_mutable);
    vh::count("info_mutable_lambda_calls", g_unjudged_seen_mutable);
}

// C20_PART3_MARKER
} // namespace

int main(int argc, char** argv) {
    vh::parse_args(argc, argv);
    const std::string mode = vh::arg("mode", "apply");
    if (mode == "apply") {
        const int maxlen = static_cast<int>(vh::arg_int("maxlen", 5));
        return vh::run_cases(argc, argv, sequences_upto(NSYM, maxlen), case_apply, at_end_apply);
    }
    return 2;
}
