// C18 - Web-Mercator projection and tile numbers are accurate, in range and monotone.
//
// Every oracle is the direct evaluation of an inequality of the statement on
// values returned by the real library functions (lonlat_to_mercator,
// mercator_to_lonlat, MercatorProjection, detail::lat_to_y / lat_to_y_with_tan,
// Tile(zoom, Location), Tile(zoom, Coordinates)). long double is only used for
// the reference value of the canonical formulas.
//
// Judged domains (decided from what the library documents):
//   * tile clauses: every valid Location ([-180,180] x [-90,90], poles and +-180
//     included) and every zoom 0..Tile::max_zoom.
//   * round trip, strict monotonicity, agreement with the canonical formulas:
//     the documented domain of lonlat_to_mercator, |lat| <= MERCATOR_MAX_LAT
//     (85.0511288), lon in [-180,180]. Outside of it the same expressions are
//     evaluated and *counted* (not judged).
//   * fast formula vs. tangent formula (1 cm, 1/4 coordinate step): every
//     representable latitude in [-90,90] (the statement says so and both are
//     total functions; identical results, also identical infinities, are "within").
//
// modes (case = deterministic function of (seed, index)):
//   lat    : case i = fixed-point latitudes [-90e7 + i*2^20, +2^20) (clipped), --stride s
//            (s == 1: every value; s > 1: random offset per case, every sample with both
//            neighbours). One longitude per case (boundary table or random).
//   latnb  : complete neighbourhoods (+-10^4 steps) of 0, +-78, +-85.05, +-MERCATOR_MAX_LAT,
//            +-89.99, +-90 degrees; 8 chunks per centre.
//   lon    : case i = fixed-point longitudes [-180e7 + i*2^20, +2^20), --stride s; one
//            latitude per case.
//   lonnb  : neighbourhoods of 0, +-45, +-90, +-135, +-180 degrees.
//   bound  : windows of 8 consecutive fixed-point values across exact tile boundaries
//            (lon and lat) of every zoom.
//   pairs  : random pairs of locations, second one east / south / south-east of the first.

#include "vh.hpp"

#include <osmium/geom/coordinates.hpp>
#include <osmium/geom/mercator_projection.hpp>
#include <osmium/geom/tile.hpp>
#include <osmium/geom/util.hpp>
#include <osmium/osm/location.hpp>

#include <algorithm>
#include <cmath>
#include <cstdlib>
#include <string>

namespace {

using osmium::Location;
using osmium::geom::Coordinates;
using osmium::geom::Tile;
namespace od = osmium::geom::detail;

constexpr int32_t LAT_MIN = -900000000, LAT_MAX = 900000000;
constexpr int32_t LON_MIN = -1800000000, LON_MAX = 1800000000;
constexpr int32_t FAST_LAT = 780000000;          // the fast formula is used for |lat| <= 78 (only for the class names)
constexpr uint32_t ZMAX = Tile::max_zoom;         // "any zoom level up to the maximum"
static_assert(ZMAX <= 31, "tile arrays are sized for zoom <= 31");
constexpr int BLOCK_BITS = 20;
constexpr int64_t BLOCK = int64_t{1} << BLOCK_BITS;

int32_t DOC_LAT = 0;  // MERCATOR_MAX_LAT in fixed-point units, set in main()

constexpr long double R_L = 6378137.0L;           // EPSG:3857 sphere radius
constexpr long double PI_L = 3.14159265358979323846264338327950288L;
constexpr double REF_TOL = 1e-4;                  // metres; double evaluation errors are < 1e-7 m inside the documented domain

// ---------------------------------------------------------------- local statistics

struct Local {
    uint64_t lat_values = 0, lon_values = 0, pairs = 0, bound_windows = 0;
    uint64_t rt_judged = 0, rt_outside = 0, rt_outside_mismatch = 0;
    uint64_t acc_checked = 0, acc_fast_region = 0, acc_tan_region = 0, acc_identical = 0;
    uint64_t ref_y = 0, ref_x = 0;
    uint64_t ystrict_judged = 0, ystrict_outside = 0, ystrict_outside_fail = 0, xstrict_judged = 0, xstrict_outside = 0;
    uint64_t loc_all = 0, loc_some = 0;
    uint64_t tile_points = 0, tile_range = 0, tile_nest = 0, tile_south = 0, tile_east = 0, tile_longrange = 0;
    uint64_t south_pole = 0, north_pole = 0, lon_p180 = 0, lon_m180 = 0, outside_doc_lat = 0;
    uint64_t info_nonfinite_y = 0, info_row_exceeds_int32 = 0, info_ref_tile = 0, info_ref_tile_differs = 0;
    double max_diff = 0, max_ratio = 0, max_ref_y = 0, max_ref_x = 0;
    uint64_t enumerated = 0;

    void flush() {
        auto c = [](const char* n, uint64_t v) { if (v) vh::count(n, v); };
        c("lat_values", lat_values); c("lon_values", lon_values); c("location_pairs", pairs); c("boundary_windows", bound_windows);
        c("roundtrip_judged", rt_judged); c("roundtrip_outside_documented_domain_not_judged", rt_outside);
        c("roundtrip_outside_documented_domain_mismatch_not_judged", rt_outside_mismatch);
        c("fast_vs_tan_checked", acc_checked); c("fast_vs_tan_in_fast_range", acc_fast_region); c("fast_vs_tan_in_tan_range", acc_tan_region);
        c("fast_vs_tan_identical_results", acc_identical);
        c("canonical_y_reference_checked", ref_y); c("canonical_x_reference_checked", ref_x);
        c("y_strict_pairs_judged", ystrict_judged); c("y_strict_pairs_outside_documented_domain_not_judged", ystrict_outside);
        c("y_strict_pairs_outside_documented_domain_failing_not_judged", ystrict_outside_fail);
        c("x_strict_pairs_judged", xstrict_judged); c("x_strict_pairs_outside_documented_domain_not_judged", xstrict_outside);
        c("tile_points_all_zooms", tile_points); c("tile_points_location_ctor_every_zoom", loc_all); c("tile_points_location_ctor_two_zooms", loc_some); c("tile_range_checks", tile_range); c("tile_nesting_checks", tile_nest);
        c("tile_south_pairs", tile_south); c("tile_east_pairs", tile_east); c("tile_longrange_pairs", tile_longrange);
        c("points_at_south_pole", south_pole); c("points_at_north_pole", north_pole); c("points_at_lon_plus_180", lon_p180);
        c("points_at_lon_minus_180", lon_m180); c("points_outside_mercator_max_lat", outside_doc_lat);
        c("info_points_with_nonfinite_y", info_nonfinite_y); c("info_tile_rows_exceeding_int32_before_clamp", info_row_exceeds_int32);
        c("info_reference_tile_compared", info_ref_tile); c("info_reference_tile_differs_not_judged", info_ref_tile_differs);
        c("distinct_by_construction", enumerated);
        vh::count_max("max_fast_vs_tan_diff_nanometre", static_cast<uint64_t>(max_diff * 1e9));
        vh::count_max("max_fast_vs_tan_diff_permille_of_step", static_cast<uint64_t>(max_ratio * 1000));
        vh::count_max("max_tan_vs_canonical_diff_picometre", static_cast<uint64_t>(max_ref_y * 1e12));
        vh::count_max("max_x_vs_canonical_diff_picometre", static_cast<uint64_t>(max_ref_x * 1e12));
        vh::evaluated(lat_values + lon_values + pairs + bound_windows);
    }
};

// ---------------------------------------------------------------- witness classes (for keys)

const char* lat_band(int32_t c) {
    if (c == LAT_MIN) return "at the south pole (lat -90)";
    if (c == LAT_MAX) return "at the north pole (lat +90)";
    const int32_t a = c < 0 ? -c : c;
    if (a <= FAST_LAT) return "|lat| <= 78";
    if (a <= DOC_LAT) return "78 < |lat| <= MERCATOR_MAX_LAT";
    if (c < -899900000) return "south of -89.99 deg (not the pole)";
    if (c > 899900000) return "north of +89.99 deg (not the pole)";
    return c < 0 ? "MERCATOR_MAX_LAT < |lat| <= 89.99, south" : "MERCATOR_MAX_LAT < |lat| <= 89.99, north";
}

std::string tiley_where(int32_t c, uint32_t z) {
    if (c == LAT_MIN || c == LAT_MAX) return lat_band(c);
    return std::string(lat_band(c)) + (z == ZMAX ? ", maximum zoom" : ", zoom below the maximum");
}

std::string tilex_where(int32_t c, uint32_t z) {
    const char* w = c == LON_MAX ? "at lon +180" : c == LON_MIN ? "at lon -180" : "-180 < lon < 180";
    return std::string(w) + (z == ZMAX ? ", maximum zoom" : ", zoom below the maximum");
}

std::string locstr(int32_t lonc, int32_t latc) {
    return vh::fmt("(lon %d, lat %d)*1e-7 deg", lonc, latc);
}

// ---------------------------------------------------------------- one location, all zooms

struct Point {
    int32_t lonc = 0, latc = 0;
    Coordinates m;                 // lonlat_to_mercator(Location)
    uint32_t tx[32], ty[32];       // Tile(z, Location) for the zooms in the mask given to eval_point (else a copy of cx/cy)
    uint32_t cx[32], cy[32];       // Tile(z, Coordinates m), always every zoom
};

constexpr uint32_t ALL_ZOOMS = ZMAX >= 31 ? 0xffffffffU : ((1U << (ZMAX + 1)) - 1U);

void check_tile_fields(const Tile& t, uint32_t z, int32_t lonc, int32_t latc, const char* ctor, Local& l) {
    const uint64_t n = uint64_t{1} << z;
    ++l.tile_range;
    if (t.z != z) vh::violation(std::string("Tile::z differs from the requested zoom: ") + ctor, vh::fmt("z=%u got %u %s", z, t.z, locstr(lonc, latc).c_str()));
    if (t.x >= n) vh::violation("tile x outside [0, 2^z): " + tilex_where(lonc, z) + ": " + ctor, vh::fmt("z=%u x=%u %s", z, t.x, locstr(lonc, latc).c_str()));
    if (t.y >= n) vh::violation("tile y outside [0, 2^z): " + tiley_where(latc, z) + ": " + ctor, vh::fmt("z=%u y=%u %s", z, t.y, locstr(lonc, latc).c_str()));
    if (t.x < n && t.y < n && t.z == z && !t.valid()) vh::violation("Tile::valid() false for an in-range tile", vh::fmt("z=%u x=%u y=%u", z, t.x, t.y));
}

// locmask: zooms at which Tile(zoom, Location) is called. That constructor projects the location
// again for every zoom, which dominates the cost of the 10^9-value sweeps; there it is called for
// every zoom on every 16th value and for two zooms (the maximum and one per case) on the others.
// Tile(zoom, Coordinates) on the projected location is always called for every zoom.
void eval_point(Point& p, int32_t lonc, int32_t latc, uint32_t locmask, Local& l) {
    p.lonc = lonc; p.latc = latc;
    const Location loc{lonc, latc};
    p.m = osmium::geom::lonlat_to_mercator(loc);
    if (locmask == ALL_ZOOMS) ++l.loc_all; else ++l.loc_some;
    for (uint32_t z = 0; z <= ZMAX; ++z) {
        const Tile u{z, p.m};
        check_tile_fields(u, z, lonc, latc, "Tile(zoom, Coordinates)", l);
        p.cx[z] = u.x; p.cy[z] = u.y;
        if (locmask & (1U << z)) {
            const Tile t{z, loc};
            check_tile_fields(t, z, lonc, latc, "Tile(zoom, Location)", l);
            p.tx[z] = t.x; p.ty[z] = t.y;
        } else {
            p.tx[z] = u.x; p.ty[z] = u.y;
        }
    }
    // the tile of a finer zoom lies inside the tile of the coarser zoom
    for (uint32_t z = 0; z < ZMAX; ++z) {
        ++l.tile_nest;
        if ((p.tx[z + 1] >> 1) != p.tx[z] || (p.cx[z + 1] >> 1) != p.cx[z])
            vh::violation("tile x of zoom z+1 not inside the tile of zoom z: " + tilex_where(lonc, z + 1),
                          vh::fmt("z=%u x=%u/%u, z+1: x=%u/%u (Location/Coordinates ctor) %s", z, p.tx[z], p.cx[z], p.tx[z + 1], p.cx[z + 1], locstr(lonc, latc).c_str()));
        if ((p.ty[z + 1] >> 1) != p.ty[z] || (p.cy[z + 1] >> 1) != p.cy[z])
            vh::violation("tile y of zoom z+1 not inside the tile of zoom z: " + tiley_where(latc, z + 1),
                          vh::fmt("z=%u y=%u/%u, z+1: y=%u/%u (Location/Coordinates ctor) %s mercator y=%.10g", z, p.ty[z], p.cy[z], p.ty[z + 1], p.cy[z + 1], locstr(lonc, latc).c_str(), p.m.y));
    }
    ++l.tile_points;
    if (latc == LAT_MIN) ++l.south_pole;
    if (latc == LAT_MAX) ++l.north_pole;
    if (lonc == LON_MAX) ++l.lon_p180;
    if (lonc == LON_MIN) ++l.lon_m180;
    if (latc > DOC_LAT || latc < -DOC_LAT) ++l.outside_doc_lat;
    if (!std::isfinite(p.m.y)) ++l.info_nonfinite_y;
    // informational: would the exact row number at the maximum zoom, (pi*R - y) / (2*pi*R / 2^zmax), fit an int32 before clamping?
    {
        static const double y_lo = static_cast<double>(PI_L * R_L - 2147483648.0L * (2 * PI_L * R_L / static_cast<long double>(uint64_t{1} << ZMAX)));
        static const double y_hi = static_cast<double>(PI_L * R_L + 2147483649.0L * (2 * PI_L * R_L / static_cast<long double>(uint64_t{1} << ZMAX)));
        if (!(p.m.y > y_lo && p.m.y < y_hi)) ++l.info_row_exceeds_int32;
    }
}

// b lies east of a on the same latitude (lon_a < lon_b), or south of it on the same
// longitude, or both: neither tile number may decrease.
void check_move(const Point& a, const Point& b, bool longrange, Local& l) {
    // the key names the component of the move that matters for the coordinate
    const char* xmove = b.lonc != a.lonc ? "east" : "south on one meridian";
    const char* ymove = b.latc != a.latc ? "south" : "east on one parallel";
    for (uint32_t z = 0; z <= ZMAX; ++z) {
        if (b.tx[z] < a.tx[z] || b.cx[z] < a.cx[z])
            vh::violation(std::string("tile x decreases moving ") + xmove + ": " + tilex_where(b.lonc, z),
                          vh::fmt("z=%u from %s x=%u/%u to %s x=%u/%u (Location/Coordinates ctor)", z, locstr(a.lonc, a.latc).c_str(), a.tx[z], a.cx[z],
                                  locstr(b.lonc, b.latc).c_str(), b.tx[z], b.cx[z]));
        if (b.ty[z] < a.ty[z] || b.cy[z] < a.cy[z])
            vh::violation(std::string("tile y decreases moving ") + ymove + ": " + tiley_where(b.latc, z),
                          vh::fmt("z=%u from %s y=%u/%u to %s y=%u/%u (Location/Coordinates ctor), mercator y %.10g -> %.10g", z, locstr(a.lonc, a.latc).c_str(),
                                  a.ty[z], a.cy[z], locstr(b.lonc, b.latc).c_str(), b.ty[z], b.cy[z], a.m.y, b.m.y));
    }
    if (longrange) ++l.tile_longrange;
}

// ---------------------------------------------------------------- projection clauses

bool in_doc(int32_t latc) { return latc >= -DOC_LAT && latc <= DOC_LAT; }
// Round trip and strict monotonicity are stated for every representable location, i.e. for every
// latitude in [-90, 90], not only for the documented domain of lonlat_to_mercator (the exhaustive
// thorough run over all 1.8e9 latitudes counted 0 mismatches outside of that domain on the
// unchanged tree before these clauses were judged there). Agreement with the canonical
// long-double formulas stays restricted to the documented domain (in_doc).
bool judged(int32_t latc) { return latc >= LAT_MIN && latc <= LAT_MAX; }

// mercator -> lon/lat -> Location (rounding to fixed point) must give back loc
void check_roundtrip(int32_t lonc, int32_t latc, const Coordinates& m, const char* via, Local& l) {
    const Coordinates back = osmium::geom::mercator_to_lonlat(m);
    bool ok = false;
    int32_t rx = 0, ry = 0;
    if (std::isfinite(back.x) && std::isfinite(back.y) && std::fabs(back.x) < 200.0 && std::fabs(back.y) < 100.0) {
        const Location r{back.x, back.y};
        rx = r.x(); ry = r.y();
        ok = rx == lonc && ry == latc;
    }
    if (judged(latc)) {
        ++l.rt_judged;
        if (!ok) {
            const bool lat_bad = ry != latc || !std::isfinite(back.y);
            vh::violation(std::string("round trip does not recover the fixed-point ") + (lat_bad ? "latitude: " : "longitude: ") + (lat_bad ? lat_band(latc) : "any lon") + ": " + via,
                          vh::fmt("%s -> mercator (%.12g, %.12g) -> (%.12f, %.12f) -> fixed (%d, %d)", locstr(lonc, latc).c_str(), m.x, m.y, back.x, back.y, rx, ry));
        }
    } else {
        ++l.rt_outside;
        if (!ok) ++l.rt_outside_mismatch;
    }
}

long double ref_y(double lat) {  // canonical formula R * ln(tan(pi/4 + phi/2))
    return R_L * logl(tanl(PI_L / 4 + static_cast<long double>(lat) * (PI_L / 360)));
}

struct LatVals { double lat, y_fast, y_tan; };

LatVals lat_vals(int32_t c) {
    LatVals v;
    v.lat = Location::fix_to_double(c);
    v.y_fast = od::lat_to_y(v.lat);
    v.y_tan = od::lat_to_y_with_tan(v.lat);
    return v;
}

// |fast - tan| < 1 cm and < 1/4 of the local coordinate step of the tan formula
void check_accuracy(int32_t c, const LatVals& cur, const double* ytan_prev, const double* ytan_next, Local& l) {
    ++l.acc_checked;
    if (c >= -FAST_LAT && c <= FAST_LAT) ++l.acc_fast_region; else ++l.acc_tan_region;
    if (cur.y_fast == cur.y_tan || (std::isnan(cur.y_fast) && std::isnan(cur.y_tan))) { ++l.acc_identical; return; }
    const double d = std::fabs(cur.y_fast - cur.y_tan);
    double step = 0;
    if (ytan_next) step = std::max(step, *ytan_next - cur.y_tan);
    if (ytan_prev) step = std::max(step, cur.y_tan - *ytan_prev);
    if (!(d < 0.01)) {
        vh::violation(std::string("fast lat_to_y differs from lat_to_y_with_tan by 1 cm or more: ") + lat_band(c),
                      vh::fmt("lat %d*1e-7: fast %.12g tan %.12g diff %.6g m", c, cur.y_fast, cur.y_tan, d));
    } else if (!(d < step / 4)) {
        vh::violation(std::string("fast lat_to_y differs from lat_to_y_with_tan by a quarter of the coordinate step or more: ") + lat_band(c),
                      vh::fmt("lat %d*1e-7: fast %.12g tan %.12g diff %.6g m, local step %.6g m", c, cur.y_fast, cur.y_tan, d, step));
    }
    if (d > l.max_diff) l.max_diff = d;
    if (step > 0 && d / step > l.max_ratio) l.max_ratio = d / step;
}

void check_ref_y(int32_t c, const LatVals& v, double y_api, Local& l) {
    if (!in_doc(c)) return;
    ++l.ref_y;
    const long double r = ref_y(v.lat);
    const double e = static_cast<double>(fabsl(static_cast<long double>(v.y_tan) - r));
    if (!(e < REF_TOL))
        vh::violation(std::string("lat_to_y_with_tan differs from the canonical formula R*ln(tan(pi/4+lat/2)): ") + lat_band(c),
                      vh::fmt("lat %d*1e-7: library %.12g reference %.12Lg", c, v.y_tan, r));
    if (e > l.max_ref_y) l.max_ref_y = e;
    // the y delivered by the public API must be as close to the canonical value as the fast formula may be
    const double ea = static_cast<double>(fabsl(static_cast<long double>(y_api) - r));
    if (!(ea < 0.01 + REF_TOL))
        vh::violation(std::string("lonlat_to_mercator y differs from the canonical formula by more than 1 cm: ") + lat_band(c),
                      vh::fmt("lat %d*1e-7: library %.12g reference %.12Lg", c, y_api, r));
}

void check_ref_x(int32_t lonc, int32_t latc, double x_api, Local& l) {
    if (!in_doc(latc)) return;
    ++l.ref_x;
    const long double r = R_L * static_cast<long double>(Location::fix_to_double(lonc)) * (PI_L / 180);
    const double e = static_cast<double>(fabsl(static_cast<long double>(x_api) - r));
    if (!(e < REF_TOL))
        vh::violation("lon_to_x differs from the canonical formula R*lon", vh::fmt("lon %d*1e-7: library %.12g reference %.12Lg", lonc, x_api, r));
    if (e > l.max_ref_x) l.max_ref_x = e;
}

// ---------------------------------------------------------------- latitude runs

// Examines every c = first, first+stride, ... <= last on the meridian lonc: each c
// with both neighbours c-1 and c+1 (as far as they are valid latitudes).
// sparse != 0: mask of the zooms for Tile(zoom, Location) on values that are not a multiple of 16
uint32_t mask_for(int32_t c, uint32_t sparse) { return (sparse == 0 || (c & 15) == 0) ? ALL_ZOOMS : sparse; }

void lat_run(int64_t first, int64_t last, int64_t stride, int32_t lonc, int64_t refevery, uint32_t sparse, Local& l) {
    if (first > last) return;
    const osmium::geom::MercatorProjection proj;
    Point cur, next, prev_sample;
    bool have_prev_sample = false;
    LatVals vcur{}, vnext{};
    double ytan_prev = 0;
    bool have_prev = false, have_cur = false;
    int64_t n = 0;
    for (int64_t c64 = first; c64 <= last; c64 += stride, ++n) {
        const int32_t c = static_cast<int32_t>(c64);
        const bool slide = stride == 1 && have_cur;
        if (slide) {
            ytan_prev = vcur.y_tan; have_prev = true;
            cur = next; vcur = vnext;
        } else {
            have_prev = c > LAT_MIN;
            if (have_prev) ytan_prev = od::lat_to_y_with_tan(Location::fix_to_double(c - 1));
            eval_point(cur, lonc, c, mask_for(c, sparse), l);
            vcur = lat_vals(c);
        }
        have_cur = true;
        const bool have_next = c < LAT_MAX;
        if (have_next) {
            eval_point(next, lonc, c + 1, mask_for(c + 1, sparse), l);
            vnext = lat_vals(c + 1);
        }
        ++l.lat_values;
        ++l.enumerated;
        // fast formula against the tangent formula
        check_accuracy(c, vcur, have_prev ? &ytan_prev : nullptr, have_next ? &vnext.y_tan : nullptr, l);
        if (cur.m.y != vcur.y_fast && !(std::isnan(cur.m.y) && std::isnan(vcur.y_fast))) {   // API value: same bounds
            const LatVals api{vcur.lat, cur.m.y, vcur.y_tan};
            check_accuracy(c, api, have_prev ? &ytan_prev : nullptr, have_next ? &vnext.y_tan : nullptr, l);
        }
        // round trips through both public entry points
        check_roundtrip(lonc, c, cur.m, "lonlat_to_mercator", l);
        if (sparse == 0 || (c & 3) == 0) check_roundtrip(lonc, c, proj(Location{lonc, c}), "MercatorProjection", l);
        // canonical reference
        if (refevery > 0 && n % refevery == 0) {
            check_ref_y(c, vcur, cur.m.y, l);
            check_ref_x(lonc, c, cur.m.x, l);
        }
        if (have_next) {
            // y strictly increasing with latitude
            const bool inc = cur.m.y < next.m.y && vcur.y_fast < vnext.y_fast && vcur.y_tan < vnext.y_tan;
            if (judged(c) && judged(c + 1)) {
                ++l.ystrict_judged;
                if (!inc)
                    vh::violation(std::string("projected y does not increase strictly with latitude: ") + lat_band(c),
                                  vh::fmt("lat %d -> %d (*1e-7): lonlat_to_mercator y %.17g -> %.17g, fast %.17g -> %.17g, tan %.17g -> %.17g", c, c + 1, cur.m.y, next.m.y,
                                          vcur.y_fast, vnext.y_fast, vcur.y_tan, vnext.y_tan));
            } else {
                ++l.ystrict_outside;
                if (!inc) ++l.ystrict_outside_fail;
            }
            // moving south from c+1 to c
            check_move(next, cur, false, l);
            ++l.tile_south;
        }
        if (stride > 1) {
            if (have_prev_sample) {
                check_move(cur, prev_sample, true, l);
                if (judged(c) && judged(prev_sample.latc) && !(prev_sample.m.y < cur.m.y))
                    vh::violation(std::string("projected y does not increase strictly with latitude: ") + lat_band(c),
                                  vh::fmt("lat %d -> %d (*1e-7): y %.17g -> %.17g", prev_sample.latc, c, prev_sample.m.y, cur.m.y));
            }
            prev_sample = cur;
            have_prev_sample = true;
        }
        if ((n & 0xffff) == 0) vh::heartbeat();
    }
}

void lon_run(int64_t first, int64_t last, int64_t stride, int32_t latc, int64_t refevery, uint32_t sparse, Local& l) {
    if (first > last) return;
    const osmium::geom::MercatorProjection proj;
    Point cur, next, prev_sample;
    bool have_prev_sample = false, have_cur = false;
    int64_t n = 0;
    for (int64_t c64 = first; c64 <= last; c64 += stride, ++n) {
        const int32_t c = static_cast<int32_t>(c64);
        if (stride == 1 && have_cur) cur = next; else eval_point(cur, c, latc, mask_for(c, sparse), l);
        have_cur = true;
        const bool have_next = c < LON_MAX;
        if (have_next) eval_point(next, c + 1, latc, mask_for(c + 1, sparse), l);
        ++l.lon_values;
        ++l.enumerated;
        check_roundtrip(c, latc, cur.m, "lonlat_to_mercator", l);
        if (sparse == 0 || (c & 3) == 0) check_roundtrip(c, latc, proj(Location{c, latc}), "MercatorProjection", l);
        if (refevery > 0 && n % refevery == 0) check_ref_x(c, latc, cur.m.x, l);
        if (have_next) {
            if (judged(latc)) {
                ++l.xstrict_judged;
                if (!(cur.m.x < next.m.x))
                    vh::violation("projected x does not increase strictly with longitude",
                                  vh::fmt("lon %d -> %d (*1e-7), lat %d: x %.17g -> %.17g", c, c + 1, latc, cur.m.x, next.m.x));
            } else {
                ++l.xstrict_outside;
            }
            check_move(cur, next, false, l);
            ++l.tile_east;
        }
        if (stride > 1) {
            if (have_prev_sample) {
                check_move(prev_sample, cur, true, l);
                if (judged(latc) && !(prev_sample.m.x < cur.m.x))
                    vh::violation("projected x does not increase strictly with longitude",
                                  vh::fmt("lon %d -> %d (*1e-7), lat %d: x %.17g -> %.17g", prev_sample.lonc, c, latc, prev_sample.m.x, cur.m.x));
            }
            prev_sample = cur;
            have_prev_sample = true;
        }
        if ((n & 0xffff) == 0) vh::heartbeat();
    }
}

// ---------------------------------------------------------------- value pickers

int32_t pick_lon(vh::Rng& rng) {
    static const int32_t T[] = {LON_MIN, LON_MIN + 1, LON_MAX, LON_MAX - 1, 0, -1, 1, 900000000, -900000000, 899999999, 1799999990, -1799999990};
    if (rng.chance(1, 2)) return rng.pick(T);
    return static_cast<int32_t>(rng.range(LON_MIN, LON_MAX));
}

int32_t pick_lat(vh::Rng& rng) {
    const int32_t T[] = {LAT_MIN, LAT_MIN + 1, LAT_MIN + 2, LAT_MAX, LAT_MAX - 1, 0, -1, 1, DOC_LAT, -DOC_LAT, DOC_LAT + 1, -DOC_LAT - 1,
                         DOC_LAT - 1, 1 - DOC_LAT, FAST_LAT, -FAST_LAT, FAST_LAT + 1, -FAST_LAT - 1, 899900000, -899900000, 850500000, -850500000};
    switch (rng.below(10)) {
        case 0: case 1: case 2: return rng.pick(T);
        case 3: return static_cast<int32_t>(LAT_MIN + rng.range(0, 200000));          // near the south pole
        case 4: return static_cast<int32_t>(LAT_MAX - rng.range(0, 200000));          // near the north pole
        case 5: return static_cast<int32_t>(rng.range(-DOC_LAT, DOC_LAT));
        default: return static_cast<int32_t>(rng.range(LAT_MIN, LAT_MAX));
    }
}

int32_t pick_lat_in_doc_mostly(vh::Rng& rng) {
    const int32_t T[] = {0, 1, -1, DOC_LAT, -DOC_LAT, FAST_LAT, -FAST_LAT, FAST_LAT + 1, 600000000, -600000000, LAT_MAX, LAT_MIN, DOC_LAT + 1, -899999999};
    if (rng.chance(1, 2)) return rng.pick(T);
    return static_cast<int32_t>(rng.range(-DOC_LAT, DOC_LAT));
}

// ---------------------------------------------------------------- cases

void case_lat(uint64_t i, vh::Rng& rng) {
    const int64_t stride = vh::arg_int("stride", 1009);
    const int64_t refevery = vh::arg_int("refevery", 1);
    const int32_t lonc = pick_lon(rng);
    const int64_t lo = LAT_MIN + static_cast<int64_t>(i) * BLOCK;
    const int64_t hi = std::min<int64_t>(lo + BLOCK - 1, LAT_MAX);
    const int64_t off = stride > 1 ? static_cast<int64_t>(rng.below(static_cast<uint64_t>(stride))) : 0;
    vh::set_case_desc("lat sweep block %" PRIu64 ": lat %" PRId64 "..%" PRId64 " (*1e-7 deg) stride %" PRId64 " offset %" PRId64 " on lon %d", i, lo, hi, stride, off, lonc);
    const uint32_t sparse = vh::arg_int("sparse", 0) ? ((1U << ZMAX) | (1U << rng.below(ZMAX + 1))) : 0;
    Local l;
    lat_run(lo + off, hi, stride, lonc, refevery, sparse, l);
    // the two ends of the whole range are always part of a sweep
    if (stride > 1 && lo == LAT_MIN) lat_run(LAT_MIN, LAT_MIN, 1, lonc, 1, 0, l);
    if (stride > 1 && hi == LAT_MAX) lat_run(LAT_MAX, LAT_MAX, 1, lonc, 1, 0, l);
    l.flush();
    if (i % 1000 == 7) vh::sample_str(vh::st().case_desc);
}

const int64_t NB_RADIUS = 10000;
const int NB_CHUNKS = 8;

std::vector<int32_t> lat_centres() {
    return {0, FAST_LAT, -FAST_LAT, 850500000, -850500000, DOC_LAT, -DOC_LAT, 899900000, -899900000, LAT_MAX, LAT_MIN};
}
std::vector<int32_t> lon_centres() {
    return {0, LON_MAX, LON_MIN, 900000000, -900000000, 450000000, -450000000, 1350000000, -1350000000};
}

void chunk_bounds(int32_t centre, int chunk, int64_t vmin, int64_t vmax, int64_t& lo, int64_t& hi) {
    const int64_t a = centre - NB_RADIUS, len = 2 * NB_RADIUS + 1;
    lo = a + len * chunk / NB_CHUNKS;
    hi = a + len * (chunk + 1) / NB_CHUNKS - 1;
    lo = std::max(lo, vmin);
    hi = std::min(hi, vmax);
}

void case_latnb(uint64_t i, vh::Rng& rng) {
    const auto cs = lat_centres();
    const int32_t centre = cs[i / NB_CHUNKS];
    int64_t lo, hi;
    chunk_bounds(centre, static_cast<int>(i % NB_CHUNKS), LAT_MIN, LAT_MAX, lo, hi);
    const int32_t lonc = pick_lon(rng);
    vh::set_case_desc("lat neighbourhood of %d: lat %" PRId64 "..%" PRId64 " (*1e-7 deg) on lon %d", centre, lo, hi, lonc);
    Local l;
    lat_run(lo, hi, 1, lonc, 1, 0, l);
    l.flush();
    if (i % NB_CHUNKS == 0 && i / NB_CHUNKS < 3) vh::sample_str(vh::st().case_desc);
}

void case_lon(uint64_t i, vh::Rng& rng) {
    const int64_t stride = vh::arg_int("stride", 1009);
    const int64_t refevery = vh::arg_int("refevery", 1);
    const int32_t latc = pick_lat_in_doc_mostly(rng);
    const int64_t lo = LON_MIN + static_cast<int64_t>(i) * BLOCK;
    const int64_t hi = std::min<int64_t>(lo + BLOCK - 1, LON_MAX);
    const int64_t off = stride > 1 ? static_cast<int64_t>(rng.below(static_cast<uint64_t>(stride))) : 0;
    vh::set_case_desc("lon sweep block %" PRIu64 ": lon %" PRId64 "..%" PRId64 " (*1e-7 deg) stride %" PRId64 " offset %" PRId64 " on lat %d", i, lo, hi, stride, off, latc);
    const uint32_t sparse = vh::arg_int("sparse", 0) ? ((1U << ZMAX) | (1U << rng.below(ZMAX + 1))) : 0;
    Local l;
    lon_run(lo + off, hi, stride, latc, refevery, sparse, l);
    if (stride > 1 && lo == LON_MIN) lon_run(LON_MIN, LON_MIN, 1, latc, 1, 0, l);
    if (stride > 1 && hi == LON_MAX) lon_run(LON_MAX, LON_MAX, 1, latc, 1, 0, l);
    l.flush();
    if (i % 2000 == 11) vh::sample_str(vh::st().case_desc);
}

void case_lonnb(uint64_t i, vh::Rng& rng) {
    const auto cs = lon_centres();
    const int32_t centre = cs[i / NB_CHUNKS];
    int64_t lo, hi;
    chunk_bounds(centre, static_cast<int>(i % NB_CHUNKS), LON_MIN, LON_MAX, lo, hi);
    const int32_t latc = pick_lat_in_doc_mostly(rng);
    vh::set_case_desc("lon neighbourhood of %d: lon %" PRId64 "..%" PRId64 " (*1e-7 deg) on lat %d", centre, lo, hi, latc);
    Local l;
    lon_run(lo, hi, 1, latc, 1, 0, l);
    l.flush();
    if (i % NB_CHUNKS == 0 && i / NB_CHUNKS < 2) vh::sample_str(vh::st().case_desc);
}

// windows across exact tile boundaries
void case_bound(uint64_t i, vh::Rng& rng) {
    const uint32_t z = static_cast<uint32_t>(i % (ZMAX + 1));
    const bool lat_axis = (i / (ZMAX + 1)) % 2 == 1;
    const uint64_t n = uint64_t{1} << z;
    vh::set_case_desc("tile boundaries of zoom %u on the %s axis", z, lat_axis ? "lat" : "lon");
    Local l;
    uint64_t h = vh::hash_u64(i);
    const int reps = static_cast<int>(vh::arg_int("reps", 24));
    for (int rep = 0; rep < reps; ++rep) {
        uint64_t k;
        switch (rng.below(6)) {
            case 0: k = 0; break;
            case 1: k = n; break;
            case 2: k = n / 2; break;
            case 3: k = n > 1 ? n - 1 : 0; break;
            case 4: k = std::min<uint64_t>(1, n); break;
            default: k = rng.below(n + 1); break;
        }
        const long double frac = static_cast<long double>(k) / static_cast<long double>(n);   // exact (n is a power of two)
        h = vh::hash_u64(k * 64 + z * 2 + (lat_axis ? 1 : 0), h);
        if (!lat_axis) {
            const long double lon_b = -180.0L + 360.0L * frac;
            const int64_t c0 = static_cast<int64_t>(floorl(lon_b * 1e7L));
            const int64_t lo = std::max<int64_t>(c0 - 3, LON_MIN), hi = std::min<int64_t>(c0 + 4, LON_MAX);
            const int32_t latc = pick_lat_in_doc_mostly(rng);
            lon_run(lo, hi, 1, latc, 1, 0, l);
            // informational only (the statement does not say *which* tile): compare with the exact column
            if (z <= 20 && k >= 1 && k <= n - 1) {
                const Tile w{z, Location{static_cast<int32_t>(lo), latc}}, e{z, Location{static_cast<int32_t>(hi), latc}};
                l.info_ref_tile += 2;
                if (w.x != k - 1) ++l.info_ref_tile_differs;
                if (e.x != k) ++l.info_ref_tile_differs;
            }
        } else {
            const long double yb = PI_L * R_L * (1.0L - 2.0L * frac);
            const long double lat_b = (2.0L * atanl(expl(yb / R_L)) - PI_L / 2) * (180.0L / PI_L);
            const int64_t c0 = static_cast<int64_t>(floorl(lat_b * 1e7L));
            const int64_t lo = std::max<int64_t>(c0 - 3, LAT_MIN), hi = std::min<int64_t>(c0 + 4, LAT_MAX);
            const int32_t lonc = pick_lon(rng);
            lat_run(lo, hi, 1, lonc, 1, 0, l);
            if (z <= 20 && k >= 1 && k <= n - 1) {
                const Tile s{z, Location{lonc, static_cast<int32_t>(lo)}}, nn{z, Location{lonc, static_cast<int32_t>(hi)}};
                l.info_ref_tile += 2;
                if (s.y != k) ++l.info_ref_tile_differs;
                if (nn.y != k - 1) ++l.info_ref_tile_differs;
            }
        }
        ++l.bound_windows;
    }
    // the windows are counted as cases, the values inside them are not new enumerated values
    l.enumerated = 0;
    l.lat_values = 0; l.lon_values = 0;
    l.flush();
    vh::distinct(h);
    if (i < 2) vh::sample_str(vh::st().case_desc);
}

void case_pairs(uint64_t i, vh::Rng& rng) {
    Local l;
    uint64_t h = 0;
    Point a, b;
    const int reps = static_cast<int>(vh::arg_int("reps", 16));
    for (int rep = 0; rep < reps; ++rep) {
        int32_t lon1 = pick_lon(rng), lon2 = pick_lon(rng), lat1 = pick_lat(rng), lat2 = pick_lat(rng);
        if (rng.chance(1, 4)) lon2 = static_cast<int32_t>(std::min<int64_t>(LON_MAX, int64_t{lon1} + rng.range(0, 50)));
        if (rng.chance(1, 4)) lat2 = static_cast<int32_t>(std::max<int64_t>(LAT_MIN, int64_t{lat1} - rng.range(0, 50)));
        if (lon1 > lon2) std::swap(lon1, lon2);   // second is east
        if (lat1 < lat2) std::swap(lat1, lat2);   // second is south
        const uint64_t kind = rng.below(3);
        const char* move = kind == 0 ? "east" : kind == 1 ? "south" : "south-east";
        if (kind == 0) lat2 = lat1;
        if (kind == 1) lon2 = lon1;
        vh::set_case_desc("pair %d of case %" PRIu64 ": %s -> %s (%s)", rep, i, locstr(lon1, lat1).c_str(), locstr(lon2, lat2).c_str(), move);
        eval_point(a, lon1, lat1, ALL_ZOOMS, l);
        eval_point(b, lon2, lat2, ALL_ZOOMS, l);
        check_move(a, b, false, l);
        check_roundtrip(lon1, lat1, a.m, "lonlat_to_mercator", l);
        check_roundtrip(lon2, lat2, b.m, "lonlat_to_mercator", l);
        if (judged(lat1) && judged(lat2)) {
            if (lon1 < lon2 && !(a.m.x < b.m.x))
                vh::violation("projected x does not increase strictly with longitude", vh::fmt("lon %d -> %d: x %.17g -> %.17g", lon1, lon2, a.m.x, b.m.x));
            if (lat2 < lat1 && !(b.m.y < a.m.y))
                vh::violation(std::string("projected y does not increase strictly with latitude: ") + lat_band(lat2), vh::fmt("lat %d -> %d: y %.17g -> %.17g", lat2, lat1, b.m.y, a.m.y));
        }
        ++l.pairs;
        if (kind == 0) ++l.tile_east; else if (kind == 1) ++l.tile_south; else { ++l.tile_east; ++l.tile_south; }
        h = vh::hash_u64((static_cast<uint64_t>(static_cast<uint32_t>(lon1)) << 32) | static_cast<uint32_t>(lat1), h);
        h = vh::hash_u64((static_cast<uint64_t>(static_cast<uint32_t>(lon2)) << 32) | static_cast<uint32_t>(lat2), h);
        vh::distinct(h);
    }
    l.flush();
    if (i < 2) vh::sample_str(vh::st().case_desc);
}

} // namespace

int main(int argc, char** argv) {
    vh::parse_args(argc, argv);
    DOC_LAT = static_cast<int32_t>(std::llround(osmium::geom::MERCATOR_MAX_LAT * 1e7));
    if (DOC_LAT < 850000000 || DOC_LAT > 851000000) {
        std::fprintf(stderr, "MERCATOR_MAX_LAT is not the documented 85.05...: %d\n", DOC_LAT);
        return 2;
    }
    const std::string mode = vh::arg("mode", "lat");
    const uint64_t lat_blocks = static_cast<uint64_t>((int64_t{LAT_MAX} - LAT_MIN + 1 + BLOCK - 1) / BLOCK);
    const uint64_t lon_blocks = static_cast<uint64_t>((int64_t{LON_MAX} - LON_MIN + 1 + BLOCK - 1) / BLOCK);
    if (mode == "lat") return vh::run_cases(argc, argv, lat_blocks, case_lat);
    if (mode == "lon") return vh::run_cases(argc, argv, lon_blocks, case_lon);
    if (mode == "latnb") return vh::run_cases(argc, argv, lat_centres().size() * NB_CHUNKS, case_latnb);
    if (mode == "lonnb") return vh::run_cases(argc, argv, lon_centres().size() * NB_CHUNKS, case_lonnb);
    if (mode == "bound") return vh::run_cases(argc, argv, 2 * (ZMAX + 1) * 8, case_bound);
    if (mode == "pairs") return vh::run_cases(argc, argv, 4000, case_pairs);
    if (mode == "blocks") { std::printf("%" PRIu64 " %" PRIu64 " %zu %zu\n", lat_blocks, lon_blocks, lat_centres().size() * NB_CHUNKS, lon_centres().size() * NB_CHUNKS); return 0; }
    std::fprintf(stderr, "unknown mode\n");
    return 2;
}
