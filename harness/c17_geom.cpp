// C17 - geometry exports (WKB / EWKB / hex, WKT / EWKT, GeoJSON) encode exactly
// the object's coordinates.
//
// Oracle: decoders for the three formats written from the format definitions
// (OGC SFS 1.1 WKB, PostGIS EWKB SRID flag, WKT grammar, RFC 7946 / RFC 8259),
// an expected geometry computed from a plain model of the input (vectors of
// fixed-point coordinates), exact integer arithmetic for "correctly rounded to
// `precision` decimals", and an independent Web-Mercator formula
// (R*asinh(tan(lat)), long double) with a relative tolerance of 1e-9.
//
// modes (case = deterministic function of (seed, index)):
//   d2s    : osmium::double2string directly. case = (precision 0..17) x (value class:
//            sign x number of integer digits 1..8, values rounding to zero, values in
//            (0,1), one special value each). One "cell" (precision / length of the
//            reference text / all-zero text) per case, so that a crash is attributed
//            to a cell (--skipcells of the other modes, see checks/c17.py).
//   small  : every node list of length 0..5 (thorough: 0..6) over {A,B,C,undefined,out-of-range,
//            half-undefined} x {unique,all} x {forward,backward} x {linestring,polygon}
//   line   : random node lists (0..40 nodes, rarely up to 400) with duplicate runs and
//            bad locations; linestring / polygon / point requests on one factory set
//   area   : ring structures O(I)* enumerated, then random areas
//
// Not judged (property leaves it open; counted): area rings with fewer than 4
// points or no points; whether create_multipolygon removes consecutive duplicate
// points (both sequences are accepted); closedness of polygons; zero stripping
// of double2string (only the numeric value is judged).

#include "vh.hpp"

#include <osmium/builder/osm_object_builder.hpp>
#include <osmium/geom/coordinates.hpp>
#include <osmium/geom/factory.hpp>
#include <osmium/geom/geojson.hpp>
#include <osmium/geom/mercator_projection.hpp>
#include <osmium/geom/wkb.hpp>
#include <osmium/geom/wkt.hpp>
#include <osmium/memory/buffer.hpp>
#include <osmium/osm/area.hpp>
#include <osmium/osm/location.hpp>
#include <osmium/osm/node.hpp>
#include <osmium/osm/node_ref.hpp>
#include <osmium/osm/way.hpp>
#include <osmium/util/double.hpp>

#include <algorithm>
#include <cmath>
#include <cstring>
#include <iterator>
#include <limits>
#include <set>
#include <string>
#include <vector>

namespace {

using u128 = unsigned __int128;

// ================================================================ exact decimals

u128 pow10u(int n) { u128 r = 1; while (n-- > 0) r *= 10; return r; }

std::string u128_str(u128 v) {
    if (v == 0) return "0";
    std::string s;
    while (v > 0) { s += static_cast<char>('0' + static_cast<int>(v % 10)); v /= 10; }
    std::reverse(s.begin(), s.end());
    return s;
}

// value = (neg ? -1 : 1) * digits * 10^exp10, digits without leading/trailing zeros ("" = 0)
struct Dec {
    bool neg = false;
    std::string digits;
    long exp10 = 0;
    bool zero() const { return digits.empty(); }
};

Dec dec_norm(bool neg, std::string digits, long exp10) {
    size_t nz = 0;
    while (nz < digits.size() && digits[nz] == '0') ++nz;
    digits.erase(0, nz);
    while (!digits.empty() && digits.back() == '0') { digits.pop_back(); ++exp10; }
    Dec d;
    d.neg = neg;
    d.digits = digits;
    d.exp10 = digits.empty() ? 0 : exp10;
    return d;
}

bool dec_eq(const Dec& a, const Dec& b) {
    if (a.zero() && b.zero()) return true;   // "-0" == "0"
    return a.neg == b.neg && a.digits == b.digits && a.exp10 == b.exp10;
}

bool isd(char c) { return c >= '0' && c <= '9'; }

// plain decimal number: -?D+(.D+)?([eE][+-]?D+)?   (json: additionally no leading zeros)
bool dec_from_token(const std::string& t, Dec& out, bool json) {
    size_t i = 0;
    bool neg = false;
    if (i < t.size() && t[i] == '-') { neg = true; ++i; }
    std::string ip, fp;
    while (i < t.size() && isd(t[i])) ip += t[i++];
    if (ip.empty()) return false;
    if (json && ip.size() > 1 && ip[0] == '0') return false;
    if (i < t.size() && t[i] == '.') {
        ++i;
        while (i < t.size() && isd(t[i])) fp += t[i++];
        if (fp.empty()) return false;
    }
    long e = 0;
    if (i < t.size() && (t[i] == 'e' || t[i] == 'E')) {
        ++i;
        bool eneg = false;
        if (i < t.size() && (t[i] == '+' || t[i] == '-')) { eneg = t[i] == '-'; ++i; }
        std::string ed;
        while (i < t.size() && isd(t[i])) ed += t[i++];
        if (ed.empty() || ed.size() > 4) return false;
        e = std::strtol(ed.c_str(), nullptr, 10);
        if (eneg) e = -e;
    }
    if (i != t.size()) return false;
    out = dec_norm(neg, ip + fp, e - static_cast<long>(fp.size()));
    return true;
}

Dec dec_from_scaled(bool neg, u128 R, int p) { return dec_norm(neg, u128_str(R), -p); }

// round(|d| * 10^p) computed exactly from the binary value of d; on an exact tie both
// neighbours are returned (out[0] = lower). Requires |d| < 2^62, 0 <= p <= 17.
int round_cands(double d, int p, u128 out[2]) {
    const double a = std::fabs(d);
    if (a == 0) { out[0] = 0; return 1; }
    int e = 0;
    const double m = std::frexp(a, &e);                       // a = m * 2^e, m in [0.5, 1)
    const auto M = static_cast<uint64_t>(std::ldexp(m, 53));  // exact integer < 2^53
    const int E = e - 53;                                      // a = M * 2^E
    const u128 num = static_cast<u128>(M) * pow10u(p);         // < 2^53 * 10^17 < 2^110
    if (E >= 0) { out[0] = num << E; return 1; }
    const int k = -E;
    if (k >= 120) { out[0] = 0; return 1; }                    // num / 2^k < 2^-10
    const u128 q = num >> k;
    const u128 rem = num & ((static_cast<u128>(1) << k) - 1);
    const u128 half = static_cast<u128>(1) << (k - 1);
    if (rem < half) { out[0] = q; return 1; }
    if (rem > half) { out[0] = q + 1; return 1; }
    out[0] = q; out[1] = q + 1;
    return 2;
}

// round(|x| * 10^-7 * 10^p) for the exact rational value of a fixed-point coordinate
int fixed_cands(int32_t x, int p, u128 out[2]) {
    const u128 a = static_cast<u128>(x < 0 ? -static_cast<int64_t>(x) : static_cast<int64_t>(x));
    if (p >= 7) { out[0] = a * pow10u(p - 7); return 1; }
    const u128 dv = pow10u(7 - p);
    const u128 q = a / dv, r = a % dv;
    if (2 * r < dv) { out[0] = q; return 1; }
    if (2 * r > dv) { out[0] = q + 1; return 1; }
    out[0] = q; out[1] = q + 1;
    return 2;
}

// reference text "%.*f" style (untrimmed) of a scaled value
std::string ref_text(bool neg, u128 R, int p) {
    std::string s = u128_str(R);
    if (static_cast<int>(s.size()) < p + 1) s.insert(0, static_cast<size_t>(p + 1) - s.size(), '0');
    if (p > 0) s.insert(s.size() - static_cast<size_t>(p), ".");
    if (neg) s.insert(0, "-");
    return s;
}

// "cell" of a formatting request: precision, length of the untrimmed reference text,
// and whether that text is just "0". All requests of one cell take the same path
// through any sprintf-into-a-buffer style formatter.
struct Cell { int p, len, zero; };

int cell_code(const Cell& c) { return (c.p * 100 + c.len) * 2 + c.zero; }

// cells of all admissible roundings; [0] is the round-half-even one
int cells_of(double d, int p, Cell out[2]) {
    u128 R[2];
    int n = round_cands(d, p, R);
    if (n == 2 && (R[0] & 1U)) std::swap(R[0], R[1]);
    const bool neg = std::signbit(d);
    for (int i = 0; i < n; ++i) {
        const std::string t = ref_text(neg, R[i], p);
        out[i] = Cell{p, static_cast<int>(t.size()), t == "0" ? 1 : 0};
    }
    return n;
}

std::set<int>& skip_cells() { static std::set<int> s; return s; }

void parse_skip_cells() {
    const std::string a = vh::arg("skipcells", "");
    size_t i = 0;
    while (i < a.size()) {
        int p = 0, l = 0, z = 0, used = 0;
        if (std::sscanf(a.c_str() + i, "%d/%d/%d%n", &p, &l, &z, &used) == 3) {
            skip_cells().insert(cell_code(Cell{p, l, z}));
            i += static_cast<size_t>(used);
        }
        while (i < a.size() && a[i] != ',') ++i;
        if (i < a.size()) ++i;
    }
}

bool in_skip_cell(double d, int p) {
    if (skip_cells().empty()) return false;
    if (!(std::fabs(d) < 4e18)) return false;
    Cell c[2];
    const int n = cells_of(d, p, c);
    for (int i = 0; i < n; ++i) if (skip_cells().count(cell_code(c[i]))) return true;
    return false;
}

// ---------------------------------------------------------------- textual number verdict

struct NumExpect {
    bool have_dw = false; double dw = 0;          // the double the projection produced (from the WKB encoding of the same object)
    bool have_fixed = false; int32_t fixed = 0;   // identity projection: fixed-point coordinate
    bool have_merc = false; long double merc = 0; // Mercator reference (only used when dw is not available)
};

enum class NumVerdict { ok, syntax, wrong };

NumVerdict check_number(const std::string& tok, int p, const NumExpect& ex, bool json, bool* was_tie = nullptr) {
    Dec t;
    if (!dec_from_token(tok, t, json)) return NumVerdict::syntax;
    u128 R[2];
    if (ex.have_dw) {
        const int n = round_cands(ex.dw, p, R);
        if (was_tie && n == 2) *was_tie = true;
        for (int i = 0; i < n; ++i) if (dec_eq(t, dec_from_scaled(std::signbit(ex.dw), R[i], p))) return NumVerdict::ok;
    }
    if (ex.have_fixed) {
        int n = fixed_cands(ex.fixed, p, R);
        if (was_tie && n == 2) *was_tie = true;
        for (int i = 0; i < n; ++i) if (dec_eq(t, dec_from_scaled(ex.fixed < 0, R[i], p))) return NumVerdict::ok;
        const double dm = static_cast<double>(ex.fixed) / 1e7;
        n = round_cands(dm, p, R);
        for (int i = 0; i < n; ++i) if (dec_eq(t, dec_from_scaled(ex.fixed < 0, R[i], p))) return NumVerdict::ok;
    }
    if (ex.have_merc && !ex.have_dw) {
        const long double v = std::strtold(tok.c_str(), nullptr);
        const long double tol = 1e-9L * fabsl(ex.merc) + 0.5000001L * powl(10.0L, -p);
        if (fabsl(v - ex.merc) <= tol) return NumVerdict::ok;
    }
    return NumVerdict::wrong;
}

// stable class of a wrong textual number (classification only, not a verdict)
std::string classify_number(const std::string& tok, int p, double d) {
    if (!(std::fabs(d) < 4e18)) return "number is not the correctly rounded value";
    u128 R[2];
    int n = round_cands(d, p, R);
    if (n == 2 && (R[0] & 1U)) std::swap(R[0], R[1]);
    for (int i = 0; i < n; ++i) {
        const std::string ref = ref_text(std::signbit(d), R[i], p);
        if (p == 0) {
            std::string s = ref;
            while (!s.empty() && s.back() == '0') s.pop_back();
            if (s != ref && tok == s) return "precision 0: zeros of the integer part are stripped ('180' -> '18', '-0' -> '-')";
        }
    }
    const std::string ref = ref_text(std::signbit(d), R[0], p);
    Dec parsed;
    const bool truncated = tok.size() < ref.size() && ref.compare(0, tok.size(), tok) == 0;
    if (ref.size() >= 20 && (truncated || !dec_from_token(tok, parsed, false))) return "text of a number that needs 20 or more characters is damaged";
    return "number is not the correctly rounded value";
}

// ================================================================ decoded geometry

struct Pt { double x = 0, y = 0; std::string tx, ty; };
using Ring = std::vector<Pt>;
using Poly = std::vector<Ring>;
struct Geom {
    int type = 0;   // 1 point, 2 linestring, 3 polygon, 6 multipolygon
    std::vector<Poly> polys;
};

struct Decoded {
    bool ok = false;
    std::string errclass;   // stable
    std::string err;        // witness
    Geom g;
};

// ---------------------------------------------------------------- WKB / EWKB (OGC 99-049, PostGIS ZMSgeoms.txt)

class WkbReader {
    const unsigned char* m_p;
    size_t m_n, m_pos = 0;
    int m_srid;
    bool m_ewkb;
public:
    std::string errclass, err;
    WkbReader(const std::string& s, bool ewkb, int srid) :
        m_p(reinterpret_cast<const unsigned char*>(s.data())), m_n(s.size()), m_srid(srid), m_ewkb(ewkb) {}
    bool fail(const char* cls, const std::string& detail) {
        if (errclass.empty()) { errclass = cls; err = detail + vh::fmt(" (at byte %zu of %zu)", m_pos, m_n); }
        return false;
    }
    bool u8(unsigned& v) { if (m_pos + 1 > m_n) return fail("encoding shorter than its count fields announce", "byte"); v = m_p[m_pos++]; return true; }
    bool u32(bool le, uint32_t& v) {
        if (m_pos + 4 > m_n) return fail("encoding shorter than its count fields announce", "uint32");
        v = 0;
        for (int i = 0; i < 4; ++i) v |= static_cast<uint32_t>(m_p[m_pos + (le ? i : 3 - i)]) << (8 * i);
        m_pos += 4;
        return true;
    }
    bool f64(bool le, double& d) {
        if (m_pos + 8 > m_n) return fail("encoding shorter than its count fields announce", "double");
        uint64_t v = 0;
        for (int i = 0; i < 8; ++i) v |= static_cast<uint64_t>(m_p[m_pos + (le ? i : 7 - i)]) << (8 * i);
        m_pos += 8;
        std::memcpy(&d, &v, 8);
        return true;
    }
    // header of a (sub)geometry; returns base type
    bool header(bool top, bool& le, uint32_t& base) {
        unsigned bo = 0;
        if (!u8(bo)) return false;
        if (bo > 1) return fail("byte order marker is neither 0 nor 1", vh::fmt("marker %u", bo));
        le = bo == 1;
        uint32_t type = 0;
        if (!u32(le, type)) return false;
        const bool has_srid = (type & 0x20000000U) != 0;
        if (type & 0xC0000000U) return fail("Z/M flag set in the geometry type", vh::fmt("type 0x%08x", type));
        base = type & 0x1FFFFFFFU;
        if (has_srid) {
            if (!m_ewkb) return fail("SRID flag set in plain WKB", vh::fmt("type 0x%08x", type));
            uint32_t srid = 0;
            if (!u32(le, srid)) return false;
            if (static_cast<int>(srid) != m_srid) return fail("EWKB SRID is not the projection's EPSG code", vh::fmt("srid %u, expected %d", srid, m_srid));
        } else if (m_ewkb && top) {
            return fail("EWKB without SRID flag", vh::fmt("type 0x%08x", type));
        }
        return true;
    }
    bool points(bool le, uint32_t n, Ring& r) {
        if (static_cast<uint64_t>(n) * 16 > m_n - m_pos) return fail("encoding shorter than its count fields announce", vh::fmt("point count %u", n));
        r.resize(n);
        for (uint32_t i = 0; i < n; ++i) if (!f64(le, r[i].x) || !f64(le, r[i].y)) return false;
        return true;
    }
    bool polygon_body(bool le, Poly& poly) {
        uint32_t nr = 0;
        if (!u32(le, nr)) return false;
        if (static_cast<uint64_t>(nr) * 4 > m_n - m_pos) return fail("encoding shorter than its count fields announce", vh::fmt("ring count %u", nr));
        poly.resize(nr);
        for (uint32_t i = 0; i < nr; ++i) {
            uint32_t np = 0;
            if (!u32(le, np) || !points(le, np, poly[i])) return false;
        }
        return true;
    }
    bool geometry(Geom& g) {
        bool le = true;
        uint32_t base = 0;
        if (!header(true, le, base)) return false;
        g.type = static_cast<int>(base);
        if (base == 1) {
            g.polys.assign(1, Poly(1, Ring(1)));
            if (!f64(le, g.polys[0][0][0].x) || !f64(le, g.polys[0][0][0].y)) return false;
        } else if (base == 2) {
            uint32_t n = 0;
            g.polys.assign(1, Poly(1));
            if (!u32(le, n) || !points(le, n, g.polys[0][0])) return false;
        } else if (base == 3) {
            g.polys.assign(1, Poly());
            if (!polygon_body(le, g.polys[0])) return false;
        } else if (base == 6) {
            uint32_t np = 0;
            if (!u32(le, np)) return false;
            if (static_cast<uint64_t>(np) * 9 > m_n - m_pos) return fail("encoding shorter than its count fields announce", vh::fmt("polygon count %u", np));
            g.polys.resize(np);
            for (uint32_t i = 0; i < np; ++i) {
                bool sle = true;
                uint32_t sb = 0;
                if (!header(false, sle, sb)) return false;
                if (sb != 3) return fail("member of a multipolygon is not a polygon", vh::fmt("member type %u", sb));
                if (!polygon_body(sle, g.polys[i])) return false;
            }
        } else {
            return fail("unexpected geometry type", vh::fmt("type %u", base));
        }
        if (m_pos != m_n) return fail("bytes left over after the last announced element", vh::fmt("%zu trailing bytes", m_n - m_pos));
        return true;
    }
};

bool unhex(const std::string& h, std::string& out) {
    if (h.size() % 2) return false;
    out.clear();
    auto val = [](char c) -> int {
        if (c >= '0' && c <= '9') return c - '0';
        if (c >= 'A' && c <= 'F') return c - 'A' + 10;
        if (c >= 'a' && c <= 'f') return c - 'a' + 10;
        return -1;
    };
    for (size_t i = 0; i < h.size(); i += 2) {
        const int a = val(h[i]), b = val(h[i + 1]);
        if (a < 0 || b < 0) return false;
        out += static_cast<char>(a * 16 + b);
    }
    return true;
}

Decoded decode_wkb(const std::string& data, bool ewkb, bool hex, int srid, std::string* raw = nullptr) {
    Decoded d;
    std::string bin;
    if (hex) {
        if (!unhex(data, bin)) { d.errclass = "hex output is not an even number of hex digits"; d.err = data.substr(0, 200); return d; }
    } else {
        bin = data;
    }
    if (raw) *raw = bin;
    WkbReader r{bin, ewkb, srid};
    d.ok = r.geometry(d.g);
    d.errclass = r.errclass;
    d.err = r.err;
    return d;
}

// ---------------------------------------------------------------- WKT / EWKT

class WktReader {
    const std::string& m_s;
    size_t m_i = 0;
public:
    std::string errclass, err;
    explicit WktReader(const std::string& s) : m_s(s) {}
    bool fail(const char* cls) {
        if (errclass.empty()) { errclass = cls; err = vh::fmt("at offset %zu", m_i); }
        return false;
    }
    void sp() { while (m_i < m_s.size() && m_s[m_i] == ' ') ++m_i; }
    bool ch(char c) { if (m_i < m_s.size() && m_s[m_i] == c) { ++m_i; return true; } return false; }
    bool peek(char c) const { return m_i < m_s.size() && m_s[m_i] == c; }
    std::string tok() {
        const size_t b = m_i;
        while (m_i < m_s.size() && m_s[m_i] != ' ' && m_s[m_i] != ',' && m_s[m_i] != '(' && m_s[m_i] != ')') ++m_i;
        return m_s.substr(b, m_i - b);
    }
    bool point(Pt& p) {
        p.tx = tok();
        if (!ch(' ')) return fail("text is not well-formed");
        sp();
        p.ty = tok();
        return true;
    }
    bool seq(Ring& r) {   // '(' point (',' point)* ')'
        if (!ch('(')) return fail("text is not well-formed");
        if (ch(')')) return true;
        for (;;) {
            Pt p;
            if (!point(p)) return false;
            r.push_back(p);
            sp();
            if (ch(',')) { sp(); continue; }
            if (ch(')')) return true;
            return fail("text is not well-formed");
        }
    }
    bool polybody(Poly& poly) {   // '(' seq (',' seq)* ')'
        if (!ch('(')) return fail("text is not well-formed");
        for (;;) {
            sp();
            Ring r;
            if (!seq(r)) return false;
            poly.push_back(r);
            sp();
            if (ch(',')) continue;
            if (ch(')')) return true;
            return fail("text is not well-formed");
        }
    }
    bool geometry(Geom& g, bool ewkt, int srid) {
        if (m_s.compare(0, 5, "SRID=") == 0) {
            if (!ewkt) return fail("SRID prefix in plain WKT");
            m_i = 5;
            const std::string n = [&] { size_t b = m_i; while (m_i < m_s.size() && (isd(m_s[m_i]) || m_s[m_i] == '-')) ++m_i; return m_s.substr(b, m_i - b); }();
            if (n != std::to_string(srid) || !ch(';')) return fail("EWKT SRID prefix is not the projection's EPSG code");
        } else if (ewkt) {
            return fail("EWKT without SRID prefix");
        }
        std::string kw;
        while (m_i < m_s.size() && ((m_s[m_i] >= 'A' && m_s[m_i] <= 'Z') || (m_s[m_i] >= 'a' && m_s[m_i] <= 'z'))) kw += static_cast<char>(std::toupper(m_s[m_i++]));
        sp();
        if (kw == "POINT") {
            g.type = 1;
            Ring r;
            if (!seq(r)) return false;
            if (r.size() != 1) return fail("POINT does not contain exactly one position");
            g.polys.assign(1, Poly(1, r));
        } else if (kw == "LINESTRING") {
            g.type = 2;
            g.polys.assign(1, Poly(1));
            if (!seq(g.polys[0][0])) return false;
        } else if (kw == "POLYGON") {
            g.type = 3;
            g.polys.assign(1, Poly());
            if (!polybody(g.polys[0])) return false;
        } else if (kw == "MULTIPOLYGON") {
            g.type = 6;
            if (!ch('(')) return fail("text is not well-formed");
            for (;;) {
                sp();
                Poly p;
                if (!polybody(p)) return false;
                g.polys.push_back(p);
                sp();
                if (ch(',')) continue;
                if (ch(')')) break;
                return fail("text is not well-formed");
            }
        } else {
            return fail("unknown geometry keyword");
        }
        if (m_i != m_s.size()) return fail("characters after the end of the geometry");
        return true;
    }
};

Decoded decode_wkt(const std::string& s, bool ewkt, int srid) {
    Decoded d;
    WktReader r{s};
    d.ok = r.geometry(d.g, ewkt, srid);
    d.errclass = r.errclass;
    d.err = r.err;
    return d;
}

// ---------------------------------------------------------------- GeoJSON (RFC 8259 syntax, RFC 7946 geometry objects)

struct JV {
    enum Kind { obj, arr, str, scalar } kind = scalar;
    std::vector<std::pair<std::string, JV>> members;
    std::vector<JV> items;
    std::string s;   // string value or raw scalar token (number / literal; validated later)
};

class JsonReader {
    const std::string& m_s;
    size_t m_i = 0;
    int m_depth = 0;
public:
    std::string err;
    explicit JsonReader(const std::string& s) : m_s(s) {}
    void ws() { while (m_i < m_s.size() && (m_s[m_i] == ' ' || m_s[m_i] == '\t' || m_s[m_i] == '\n' || m_s[m_i] == '\r')) ++m_i; }
    bool fail() { if (err.empty()) err = vh::fmt("at offset %zu", m_i); return false; }
    bool string(std::string& out) {
        if (m_i >= m_s.size() || m_s[m_i] != '"') return fail();
        ++m_i;
        while (m_i < m_s.size() && m_s[m_i] != '"') {
            if (m_s[m_i] == '\\') { if (m_i + 1 >= m_s.size()) return fail(); out += m_s[m_i + 1]; m_i += 2; }
            else out += m_s[m_i++];
        }
        if (m_i >= m_s.size()) return fail();
        ++m_i;
        return true;
    }
    bool value(JV& v) {
        if (++m_depth > 16) return fail();
        ws();
        if (m_i >= m_s.size()) return fail();
        const char c = m_s[m_i];
        bool ok = true;
        if (c == '{') {
            v.kind = JV::obj;
            ++m_i; ws();
            if (m_i < m_s.size() && m_s[m_i] == '}') { ++m_i; }
            else for (;;) {
                ws();
                std::string k;
                JV mv;
                if (!string(k)) { ok = false; break; }
                ws();
                if (m_i >= m_s.size() || m_s[m_i] != ':') { ok = fail(); break; }
                ++m_i;
                if (!value(mv)) { ok = false; break; }
                v.members.emplace_back(k, mv);
                ws();
                if (m_i < m_s.size() && m_s[m_i] == ',') { ++m_i; continue; }
                if (m_i < m_s.size() && m_s[m_i] == '}') { ++m_i; break; }
                ok = fail(); break;
            }
        } else if (c == '[') {
            v.kind = JV::arr;
            ++m_i; ws();
            if (m_i < m_s.size() && m_s[m_i] == ']') { ++m_i; }
            else for (;;) {
                JV iv;
                if (!value(iv)) { ok = false; break; }
                v.items.push_back(iv);
                ws();
                if (m_i < m_s.size() && m_s[m_i] == ',') { ++m_i; continue; }
                if (m_i < m_s.size() && m_s[m_i] == ']') { ++m_i; break; }
                ok = fail(); break;
            }
        } else if (c == '"') {
            v.kind = JV::str;
            ok = string(v.s);
        } else {
            // scalar token, possibly empty or malformed: judged by the number check
            v.kind = JV::scalar;
            const size_t b = m_i;
            while (m_i < m_s.size() && (m_s[m_i] == '\0' || !std::strchr(",[]{}\": \t\n\r", m_s[m_i]))) ++m_i;
            v.s = m_s.substr(b, m_i - b);
        }
        --m_depth;
        return ok;
    }
    bool document(JV& v) { if (!value(v)) return false; ws(); return m_i == m_s.size() ? true : fail(); }
};

bool json_position(const JV& v, Pt& p) {
    if (v.kind != JV::arr || v.items.size() != 2 || v.items[0].kind != JV::scalar || v.items[1].kind != JV::scalar) return false;
    p.tx = v.items[0].s;
    p.ty = v.items[1].s;
    return true;
}
bool json_ring(const JV& v, Ring& r) {
    if (v.kind != JV::arr) return false;
    for (const auto& it : v.items) { Pt p; if (!json_position(it, p)) return false; r.push_back(p); }
    return true;
}
bool json_poly(const JV& v, Poly& poly) {
    if (v.kind != JV::arr) return false;
    for (const auto& it : v.items) { Ring r; if (!json_ring(it, r)) return false; poly.push_back(r); }
    return true;
}

Decoded decode_geojson(const std::string& s) {
    Decoded d;
    JV root;
    JsonReader jr{s};
    if (!jr.document(root) || root.kind != JV::obj) { d.errclass = "text is not well-formed JSON"; d.err = jr.err; return d; }
    const JV* type = nullptr;
    const JV* coords = nullptr;
    for (const auto& m : root.members) {
        if (m.first == "type") type = &m.second;
        if (m.first == "coordinates") coords = &m.second;
    }
    if (!type || type->kind != JV::str || !coords) { d.errclass = "geometry object lacks \"type\" or \"coordinates\""; return d; }
    bool ok = false;
    if (type->s == "Point") {
        d.g.type = 1;
        Pt p;
        ok = json_position(*coords, p);
        d.g.polys.assign(1, Poly(1, Ring(1, p)));
    } else if (type->s == "LineString") {
        d.g.type = 2;
        d.g.polys.assign(1, Poly(1));
        ok = json_ring(*coords, d.g.polys[0][0]);
    } else if (type->s == "Polygon") {
        d.g.type = 3;
        d.g.polys.assign(1, Poly());
        ok = json_poly(*coords, d.g.polys[0]);
    } else if (type->s == "MultiPolygon") {
        d.g.type = 6;
        ok = coords->kind == JV::arr;
        if (ok) for (const auto& it : coords->items) { Poly p; if (!json_poly(it, p)) { ok = false; break; } d.g.polys.push_back(p); }
    } else {
        d.errclass = "unknown geometry type name";
        d.err = type->s;
        return d;
    }
    if (!ok) { d.errclass = "coordinates array nesting does not fit the geometry type"; return d; }
    d.ok = true;
    return d;
}

// ================================================================ model of the input and expected geometry

constexpr int32_t UNDEF = 2147483647;
constexpr int32_t LON_MAX = 1800000000, LAT_MAX = 900000000, MERC_LAT_MAX = 850511288;

struct MNode { int64_t id; int32_t x, y; };
using MRing = std::vector<MNode>;
using MPoly = std::vector<MRing>;
using MGeom = std::vector<MPoly>;

bool m_valid(const MNode& n) { return n.x >= -LON_MAX && n.x <= LON_MAX && n.y >= -LAT_MAX && n.y <= LAT_MAX; }
bool m_undef(const MNode& n) { return n.x == UNDEF && n.y == UNDEF; }
bool m_same(const MNode& a, const MNode& b) { return a.x == b.x && a.y == b.y; }

osmium::Location to_loc(const MNode& n) { return osmium::Location{n.x, n.y}; }

std::string node_str(const MNode& n) {
    if (m_undef(n)) return vh::fmt("%lld@undef", static_cast<long long>(n.id));
    return vh::fmt("%lld@%d/%d%s", static_cast<long long>(n.id), n.x, n.y, m_valid(n) ? "" : "!");
}
std::string nodes_str(const MRing& r, size_t maxn = 60) {
    std::string s = "[";
    for (size_t i = 0; i < r.size() && i < maxn; ++i) { if (i) s += ' '; s += node_str(r[i]); }
    if (r.size() > maxn) s += vh::fmt(" ...(%zu nodes)", r.size());
    return s + "]";
}

MRing dedupe(const MRing& in) {
    MRing out;
    for (const auto& n : in) if (out.empty() || !m_same(out.back(), n)) out.push_back(n);
    return out;
}

const long double PI_L = 3.14159265358979323846264338327950288L;
long double merc_x(int32_t x) { return 6378137.0L * (static_cast<long double>(x) / 1e7L) * PI_L / 180.0L; }
long double merc_y(int32_t y) { return 6378137.0L * asinhl(tanl((static_cast<long double>(y) / 1e7L) * PI_L / 180.0L)); }

struct Expect {
    int type = 0;                 // 1 point, 2 linestring, 3 polygon, 6 multipolygon
    bool must_throw = false;
    bool may_throw = false;       // property leaves open whether this input is rejected
    bool skip_output = false;     // output not judged at all
    bool undefined_prefix = false; // the only bad locations are undefined ones at the start of every iterated sequence that has one
    const char* reason = "";      // why it must throw
    std::vector<MGeom> cands;
    MRing all_nodes;              // every node of the input (for the skip predicate)
};

struct Outcome { int kind = 0; std::string out, what; };   // 0 ok, 1 geometry_error, 2 invalid_location, 3 other std::exception, 4 other

template <typename Fn>
Outcome call_lib(Fn&& fn) {
    Outcome o;
    try { o.out = fn(); }
    catch (const osmium::geometry_error& e) { o.kind = 1; o.what = e.what(); }
    catch (const osmium::invalid_location& e) { o.kind = 2; o.what = e.what(); }
    catch (const std::exception& e) { o.kind = 3; o.what = e.what(); }
    catch (...) { o.kind = 4; }
    return o;
}

struct Ctx {
    std::string call;        // e.g. create_linestring(unique,backward)
    std::string call_short;  // e.g. create_linestring(unique)
    bool merc = false;
    int p = 7;
    bool ewkt = false;
    std::string input;       // witness text
};

std::string show_out(const std::string& out, bool binary) {
    if (binary) return "hex:" + vh::hexdump(out, 400);
    std::string r;   // keep the witness printable (a damaged text may contain NUL bytes)
    for (size_t i = 0; i < out.size() && i < 800; ++i) {
        const unsigned char ch = static_cast<unsigned char>(out[i]);
        if (ch < 0x20 || ch >= 0x7f) r += vh::fmt("\\x%02x", ch); else r += out[i];
    }
    return r;
}

std::string witness(const Ctx& c, const char* fmtname, const Outcome& o, bool binary) {
    std::string r = vh::fmt("%s %s projection=%s precision=%d input=%s -> ", c.call.c_str(), fmtname, c.merc ? "mercator" : "identity", c.p, c.input.c_str());
    if (o.kind == 0) r += show_out(o.out, binary);
    else r += vh::fmt("exception(kind %d): %s", o.kind, o.what.c_str());
    return r;
}

// returns true if the output is to be decoded and compared
bool judge_throw(const Ctx& c, const char* fmtname, const Expect& ex, const Outcome& o, bool binary) {
    if (o.kind >= 3) {
        vh::violation(c.call + " " + fmtname + ": throws an exception that is neither geometry_error nor invalid_location", witness(c, fmtname, o, binary));
        return false;
    }
    if (ex.must_throw) {
        if (o.kind != 0) { vh::count(std::string("rejected_") + ex.reason); return false; }
        if (ex.undefined_prefix)
            vh::violation(c.call_short + ": undefined location(s) at the start of the iterated node sequence are silently dropped instead of rejected", witness(c, fmtname, o, binary));
        else
            vh::violation(c.call + " " + fmtname + ": degenerate input accepted (" + ex.reason + ")", witness(c, fmtname, o, binary));
        return false;
    }
    if (o.kind != 0) {
        if (ex.may_throw || ex.skip_output) { vh::count("not_judged_rejection_of_short_or_empty_area_ring"); return false; }
        vh::violation(c.call + " " + fmtname + ": valid input rejected", witness(c, fmtname, o, binary));
        return false;
    }
    if (ex.skip_output) { vh::count("not_judged_output_for_empty_area_ring"); return false; }
    return true;
}

// which candidate has the decoded shape; -1 and a class if none
int match_shape(const Geom& g, const Expect& ex, std::string& cls) {
    if (g.type != ex.type) { cls = "geometry type differs"; return -1; }
    for (size_t ci = 0; ci < ex.cands.size(); ++ci) {
        const MGeom& m = ex.cands[ci];
        std::string c;
        if (g.polys.size() != m.size()) c = "number of polygons differs from the object's";
        for (size_t i = 0; c.empty() && i < m.size(); ++i) {
            if (g.polys[i].size() != m[i].size()) { c = "rings are not grouped under the right polygon (ring counts differ)"; break; }
            for (size_t j = 0; j < m[i].size(); ++j)
                if (g.polys[i][j].size() != m[i][j].size()) { c = "number of points of a sequence differs from the expected one"; break; }
        }
        if (c.empty()) return static_cast<int>(ci);
        if (ci == 0) cls = c;
    }
    return -1;
}

double ulp_of(double d) { const double a = std::fabs(d); return std::nextafter(a, std::numeric_limits<double>::infinity()) - a; }

bool wkb_coord_ok(double d, int32_t fixed, bool merc, bool is_y) {
    if (!std::isfinite(d)) return false;
    if (!merc) {
        if (std::llround(d * 1e7) != fixed) return false;
        const long double exact = static_cast<long double>(fixed) / 1e7L;
        return fabsl(static_cast<long double>(d) - exact) <= static_cast<long double>(ulp_of(d));
    }
    const long double ref = is_y ? merc_y(fixed) : merc_x(fixed);
    return fabsl(static_cast<long double>(d) - ref) <= 1e-9L * fabsl(ref);
}

const char* const WKB_NAMES[4] = {"WKB", "WKB-hex", "EWKB", "EWKB-hex"};

template <class P>
struct FactorySet {
    osmium::geom::WKBFactory<P> w0{osmium::geom::wkb_type::wkb, osmium::geom::out_type::binary};
    osmium::geom::WKBFactory<P> w1{osmium::geom::wkb_type::wkb, osmium::geom::out_type::hex};
    osmium::geom::WKBFactory<P> w2{osmium::geom::wkb_type::ewkb, osmium::geom::out_type::binary};
    osmium::geom::WKBFactory<P> w3{osmium::geom::wkb_type::ewkb, osmium::geom::out_type::hex};
    osmium::geom::WKTFactory<P> wkt;
    osmium::geom::GeoJSONFactory<P> json;
    FactorySet(int p, bool ewkt) :
        wkt(p, ewkt ? osmium::geom::wkt_type::ewkt : osmium::geom::wkt_type::wkt),
        json(p) {}
    osmium::geom::WKBFactory<P>& w(int i) { return i == 0 ? w0 : i == 1 ? w1 : i == 2 ? w2 : w3; }
};

const char* type_name(int t) { return t == 1 ? "point" : t == 2 ? "linestring" : t == 3 ? "polygon" : "multipolygon"; }

// One request (one object, one parameter set) through all six factories.
// fn: generic callable (auto& factory) -> std::string
template <class P, class Fn>
void run_request(FactorySet<P>& fs, const Ctx& c, const Expect& ex, Fn&& fn) {
    const int srid = c.merc ? 3857 : 4326;
    const std::string base_desc = vh::fmt("%s projection=%s precision=%d input=%s", c.call.c_str(), c.merc ? "mercator" : "identity", c.p, c.input.c_str());
    vh::count(std::string("requests_") + type_name(ex.type));
    if (ex.must_throw) vh::count("requests_that_must_be_rejected");

    // ---- the four WKB flavours
    Geom g0;
    int cand0 = -1;
    bool have_g0 = false;
    for (int k = 0; k < 4; ++k) {
        const bool hex = (k & 1) != 0, ewkb = k >= 2;
        vh::set_case_desc("%s via %s", base_desc.c_str(), WKB_NAMES[k]);
        const Outcome o = call_lib([&] { return fn(fs.w(k)); });
        if (!judge_throw(c, WKB_NAMES[k], ex, o, !hex)) continue;
        const Decoded d = decode_wkb(o.out, ewkb, hex, srid);
        if (!d.ok) {
            vh::violation(vh::fmt("%s %s: not decodable: %s", c.call.c_str(), WKB_NAMES[k], d.errclass.c_str()), d.err + " | " + witness(c, WKB_NAMES[k], o, !hex));
            continue;
        }
        vh::count(ewkb ? (hex ? "ewkb_hex_decoded" : "ewkb_decoded") : (hex ? "wkb_hex_decoded" : "wkb_decoded"));
        std::string cls;
        const int ci = match_shape(d.g, ex, cls);
        if (ci < 0) {
            vh::violation(vh::fmt("%s %s: %s", c.call.c_str(), WKB_NAMES[k], cls.c_str()), witness(c, WKB_NAMES[k], o, !hex));
            continue;
        }
        if (ex.cands.size() > 1) vh::count(ci == 0 ? "area_duplicates_removed(not judged)" : "area_duplicates_kept(not judged)");
        const MGeom& m = ex.cands[static_cast<size_t>(ci)];
        bool coords_ok = true;
        for (size_t i = 0; coords_ok && i < m.size(); ++i)
            for (size_t j = 0; coords_ok && j < m[i].size(); ++j)
                for (size_t q = 0; q < m[i][j].size(); ++q) {
                    const Pt& pt = d.g.polys[i][j][q];
                    const MNode& n = m[i][j][q];
                    if (!wkb_coord_ok(pt.x, n.x, c.merc, false) || !wkb_coord_ok(pt.y, n.y, c.merc, true)) {
                        vh::violation(vh::fmt("%s %s: %s", c.call.c_str(), WKB_NAMES[k],
                                              c.merc ? "projected coordinate outside 1e-9 of the Mercator formula (or wrong point order)" : "coordinate sequence differs from the expected one"),
                                      vh::fmt("polygon %zu ring %zu point %zu: got (%.17g %.17g), expected node %s | ", i, j, q, pt.x, pt.y, node_str(n).c_str()) + witness(c, WKB_NAMES[k], o, !hex));
                        coords_ok = false;
                        break;
                    }
                    vh::count("wkb_coordinates_checked", 2);
                    if (c.merc) vh::count("mercator_coordinates_checked", 2);
                }
        if (!coords_ok) continue;
        if (k == 0) { g0 = d.g; cand0 = ci; have_g0 = true; }
        else if (have_g0 && ci == cand0) {
            // all flavours carry the very same doubles
            bool same = true;
            for (size_t i = 0; same && i < g0.polys.size(); ++i)
                for (size_t j = 0; same && j < g0.polys[i].size(); ++j)
                    for (size_t q = 0; q < g0.polys[i][j].size(); ++q)
                        if (std::memcmp(&g0.polys[i][j][q].x, &d.g.polys[i][j][q].x, 8) != 0 || std::memcmp(&g0.polys[i][j][q].y, &d.g.polys[i][j][q].y, 8) != 0) { same = false; break; }
            if (!same) vh::violation(vh::fmt("%s %s: coordinates differ from the plain binary WKB of the same object", c.call.c_str(), WKB_NAMES[k]), witness(c, WKB_NAMES[k], o, !hex));
            else vh::count("encodings_compared_bitwise");
        }
    }

    // ---- may the text formatters be called? (cells in which double2string crashed in part d2s are skipped)
    bool skip_text = false;
    if (!skip_cells().empty()) {
        if (have_g0) {
            for (const auto& poly : g0.polys) for (const auto& ring : poly) for (const auto& pt : ring)
                if (in_skip_cell(pt.x, c.p) || in_skip_cell(pt.y, c.p)) skip_text = true;
        } else {
            for (const auto& n : ex.all_nodes) {
                if (!m_valid(n)) continue;
                const double x = c.merc ? static_cast<double>(merc_x(n.x)) : static_cast<double>(n.x) / 1e7;
                const double y = c.merc ? static_cast<double>(merc_y(n.y)) : static_cast<double>(n.y) / 1e7;
                if (in_skip_cell(x, c.p) || in_skip_cell(y, c.p)) skip_text = true;
            }
        }
    }
    if (skip_text) { vh::count("text_requests_skipped(double2string crashes in this cell, see part d2s)"); return; }

    // ---- WKT and GeoJSON
    for (int k = 0; k < 2; ++k) {
        const bool json = k == 1;
        const char* name = json ? "GeoJSON" : (c.ewkt ? "EWKT" : "WKT");
        vh::set_case_desc("%s via %s", base_desc.c_str(), name);
        const Outcome o = json ? call_lib([&] { return fn(fs.json); }) : call_lib([&] { return fn(fs.wkt); });
        if (!judge_throw(c, name, ex, o, false)) continue;
        const Decoded d = json ? decode_geojson(o.out) : decode_wkt(o.out, c.ewkt, srid);
        if (!d.ok) {
            vh::violation(vh::fmt("%s %s: not decodable: %s", c.call.c_str(), name, d.errclass.c_str()), d.err + " | " + witness(c, name, o, false));
            continue;
        }
        vh::count(json ? "geojson_decoded" : (c.ewkt ? "ewkt_decoded" : "wkt_decoded"));
        std::string cls;
        const int ci = match_shape(d.g, ex, cls);
        if (ci < 0) {
            vh::violation(vh::fmt("%s %s: %s", c.call.c_str(), name, cls.c_str()), witness(c, name, o, false));
            continue;
        }
        const MGeom& m = ex.cands[static_cast<size_t>(ci)];
        const bool use_dw = have_g0 && ci == cand0;
        bool done = false;
        for (size_t i = 0; !done && i < m.size(); ++i)
            for (size_t j = 0; !done && j < m[i].size(); ++j)
                for (size_t q = 0; !done && q < m[i][j].size(); ++q) {
                    const Pt& pt = d.g.polys[i][j][q];
                    const MNode& n = m[i][j][q];
                    for (int ax = 0; ax < 2; ++ax) {
                        const std::string& tok = ax ? pt.ty : pt.tx;
                        const int32_t fixed = ax ? n.y : n.x;
                        NumExpect ne;
                        if (use_dw) { ne.have_dw = true; ne.dw = ax ? g0.polys[i][j][q].y : g0.polys[i][j][q].x; }
                        if (!c.merc) { ne.have_fixed = true; ne.fixed = fixed; }
                        else { ne.have_merc = true; ne.merc = ax ? merc_y(fixed) : merc_x(fixed); }
                        bool tie = false;
                        const NumVerdict v = check_number(tok, c.p, ne, json, &tie);
                        vh::count("text_numbers_checked");
                        if (tie) vh::count("text_numbers_at_exact_ties");
                        if (v != NumVerdict::ok) {
                            const double dd = ne.have_dw ? ne.dw : (c.merc ? static_cast<double>(ne.merc) : static_cast<double>(fixed) / 1e7);
                            vh::violation(vh::fmt("%s number: %s", json ? "GeoJSON" : "WKT", classify_number(tok, c.p, dd).c_str()),
                                          vh::fmt("polygon %zu ring %zu point %zu %s: token '%s', value %.17g (node %s), precision %d | ", i, j, q, ax ? "y" : "x",
                                                  vh::jesc(tok, 80).c_str(), dd, node_str(n).c_str(), c.p) + witness(c, name, o, false));
                            done = true;
                            break;
                        }
                    }
                }
    }
}

// ================================================================ expectations

Expect expect_line(const MRing& nodes, bool unique, bool backward, bool polygon) {
    Expect e;
    e.type = polygon ? 3 : 2;
    e.all_nodes = nodes;
    MRing seq = nodes;
    if (backward) std::reverse(seq.begin(), seq.end());
    bool any_bad = false;
    for (const auto& n : seq) if (!m_valid(n)) any_bad = true;
    if (any_bad) {
        e.must_throw = true;
        e.reason = "undefined_or_invalid_location";
        if (unique) {
            size_t k = 0;
            while (k < seq.size() && m_undef(seq[k])) ++k;
            bool rest_ok = true;
            for (size_t i = k; i < seq.size(); ++i) if (!m_valid(seq[i])) rest_ok = false;
            e.undefined_prefix = k > 0 && rest_ok;
        }
        return e;
    }
    const MRing s = unique ? dedupe(seq) : seq;
    if (s.size() < (polygon ? 4U : 2U)) {
        e.must_throw = true;
        e.reason = "too_few_points";
        return e;
    }
    e.cands.push_back(MGeom{MPoly{s}});
    return e;
}

struct MAreaRing { bool outer; MRing nodes; };

Expect expect_area(const std::vector<MAreaRing>& rings) {
    Expect e;
    e.type = 6;
    for (const auto& r : rings) e.all_nodes.insert(e.all_nodes.end(), r.nodes.begin(), r.nodes.end());
    if (rings.empty()) { e.must_throw = true; e.reason = "area_without_rings"; return e; }
    bool any_bad = false, prefix_only = true;
    for (const auto& r : rings) {
        bool bad_here = false;
        for (const auto& n : r.nodes) if (!m_valid(n)) bad_here = true;
        if (!bad_here) continue;
        any_bad = true;
        size_t k = 0;
        while (k < r.nodes.size() && m_undef(r.nodes[k])) ++k;
        if (k == 0) prefix_only = false;
        for (size_t i = k; i < r.nodes.size(); ++i) if (!m_valid(r.nodes[i])) prefix_only = false;
    }
    if (any_bad) { e.must_throw = true; e.reason = "undefined_or_invalid_location"; e.undefined_prefix = prefix_only; return e; }
    MGeom dd, full;
    bool dups = false;
    for (const auto& r : rings) {
        const MRing d = dedupe(r.nodes);
        if (d.size() != r.nodes.size()) dups = true;
        if (r.nodes.empty()) e.skip_output = true;
        if (d.size() < 4) e.may_throw = true;
        if (r.outer) { dd.emplace_back(); full.emplace_back(); }
        dd.back().push_back(d);
        full.back().push_back(r.nodes);
    }
    e.cands.push_back(dd);
    if (dups) e.cands.push_back(full);
    return e;
}

// ================================================================ building the real objects

const osmium::Way& build_way(osmium::memory::Buffer& buf, int64_t id, const MRing& nodes, bool with_list) {
    {
        osmium::builder::WayBuilder wb{buf};
        wb.set_id(id);
        wb.set_user("u");
        if (with_list) {
            osmium::builder::WayNodeListBuilder nl{wb};
            for (const auto& n : nodes) nl.add_node_ref(osmium::NodeRef{n.id, to_loc(n)});
        }
    }
    buf.commit();
    return buf.get<osmium::Way>(0);
}

const osmium::Area& build_area(osmium::memory::Buffer& buf, int64_t id, const std::vector<MAreaRing>& rings) {
    {
        osmium::builder::AreaBuilder ab{buf};
        ab.set_id(id);
        ab.set_user("u");
        for (const auto& r : rings) {
            if (r.outer) {
                osmium::builder::OuterRingBuilder rb{ab};
                for (const auto& n : r.nodes) rb.add_node_ref(osmium::NodeRef{n.id, to_loc(n)});
            } else {
                osmium::builder::InnerRingBuilder rb{ab};
                for (const auto& n : r.nodes) rb.add_node_ref(osmium::NodeRef{n.id, to_loc(n)});
            }
        }
    }
    buf.commit();
    return buf.get<osmium::Area>(0);
}

struct Config { bool merc; int p; bool ewkt; };

Ctx make_ctx(const Config& cfg, const std::string& call, const std::string& call_short, const std::string& input) {
    Ctx c;
    c.call = call; c.call_short = call_short; c.merc = cfg.merc; c.p = cfg.p; c.ewkt = cfg.ewkt; c.input = input;
    return c;
}

// api: 0 = Way overload, 1 = WayNodeList overload, 2 = Way overload with defaulted arguments (only unique+forward)
template <class P>
std::string do_line(FactorySet<P>& fs, const Config& cfg, const MRing& nodes, bool unique, bool backward, bool polygon, int api, bool with_list = true) {
    using osmium::geom::use_nodes;
    using osmium::geom::direction;
    osmium::memory::Buffer buf{1024, osmium::memory::Buffer::auto_grow::yes};
    const osmium::Way& way = build_way(buf, 17, nodes, with_list || !nodes.empty());
    const use_nodes un = unique ? use_nodes::unique : use_nodes::all;
    const direction dir = backward ? direction::backward : direction::forward;
    if (api == 2 && (!unique || backward)) api = 0;
    const char* fname = polygon ? "create_polygon" : "create_linestring";
    const Ctx c = make_ctx(cfg, vh::fmt("%s(%s,%s)", fname, unique ? "unique" : "all", backward ? "backward" : "forward"),
                           vh::fmt("%s(%s)", fname, unique ? "unique" : "all"), nodes_str(nodes));
    const Expect ex = expect_line(nodes, unique, backward, polygon);
    run_request(fs, c, ex, [&](auto& f) -> std::string {
        if (polygon) {
            if (api == 0) return f.create_polygon(way, un, dir);
            if (api == 1) return f.create_polygon(way.nodes(), un, dir);
            return f.create_polygon(way);
        }
        if (api == 0) return f.create_linestring(way, un, dir);
        if (api == 1) return f.create_linestring(way.nodes(), un, dir);
        return f.create_linestring(way);
    });
    vh::count(vh::fmt("calls_%s_%s_%s", polygon ? "polygon" : "linestring", unique ? "unique" : "all", backward ? "backward" : "forward"));
    return c.call + " api=" + std::to_string(api) + " " + c.input;
}

// api: 0 = Location, 1 = NodeRef, 2 = Node
template <class P>
std::string do_point(FactorySet<P>& fs, const Config& cfg, const MNode& n, int api) {
    osmium::memory::Buffer buf{1024, osmium::memory::Buffer::auto_grow::yes};
    {
        osmium::builder::NodeBuilder nb{buf};
        nb.set_id(n.id);
        nb.set_location(to_loc(n));
        nb.set_user("u");
    }
    buf.commit();
    const osmium::Node& node = buf.get<osmium::Node>(0);
    const osmium::NodeRef nr{n.id, to_loc(n)};
    const osmium::Location loc = to_loc(n);
    const Ctx c = make_ctx(cfg, "create_point", "create_point", node_str(n));
    Expect ex;
    ex.type = 1;
    ex.all_nodes = MRing{n};
    if (!m_valid(n)) { ex.must_throw = true; ex.reason = "undefined_or_invalid_location"; }
    else ex.cands.push_back(MGeom{MPoly{MRing{n}}});
    run_request(fs, c, ex, [&](auto& f) -> std::string {
        if (api == 0) return f.create_point(loc);
        if (api == 1) return f.create_point(nr);
        return f.create_point(node);
    });
    return c.call + " api=" + std::to_string(api) + " " + c.input;
}

std::string rings_str(const std::vector<MAreaRing>& rings) {
    std::string s;
    for (const auto& r : rings) { s += r.outer ? " O" : " I"; s += nodes_str(r.nodes, 14); }
    return s.empty() ? "(no rings)" : s.substr(1);
}

template <class P>
std::string do_area(FactorySet<P>& fs, const Config& cfg, const std::vector<MAreaRing>& rings) {
    osmium::memory::Buffer buf{4096, osmium::memory::Buffer::auto_grow::yes};
    const osmium::Area& area = build_area(buf, 34, rings);
    const Ctx c = make_ctx(cfg, "create_multipolygon", "create_multipolygon", rings_str(rings));
    const Expect ex = expect_area(rings);
    run_request(fs, c, ex, [&](auto& f) -> std::string { return f.create_multipolygon(area); });
    if (!ex.must_throw && !ex.skip_output) {
        size_t no = 0, ni = 0, maxi = 0, cur = 0;
        for (const auto& r : rings) { if (r.outer) { ++no; cur = 0; } else { ++ni; ++cur; maxi = std::max(maxi, cur); } }
        vh::cover("area_outer_x_inner", vh::fmt("%zu outer, %zu inner", no, ni));
        vh::count_max("max_inner_rings_of_one_polygon", maxi);
        vh::count_max("max_outer_rings", no);
        if (no > 1 && ni > 0) vh::count("areas_with_several_polygons_and_holes");
    }
    return c.call + " " + c.input;
}

// ================================================================ generators

int32_t pick_lon(vh::Rng& r) {
    static const int32_t B[] = {0, 1, -1, 5, -5, LON_MAX, -LON_MAX, LON_MAX - 1, -LON_MAX + 1, 1000000000, -1000000000, 999999999, -999999999,
                                100000000, -100000000, 99999999, 10000000, 9999999, 1234500000, -1200000000, 1799999995, 49999999, 50000000, 1};
    switch (r.below(4)) {
        case 0: return B[r.below(sizeof(B) / sizeof(B[0]))];
        case 1: { const int32_t k = static_cast<int32_t>(pow10u(static_cast<int>(r.range(1, 7)))); return static_cast<int32_t>(r.range(-LON_MAX / k, LON_MAX / k)) * k; }
        default: return static_cast<int32_t>(r.range(-LON_MAX, LON_MAX));
    }
}

int32_t pick_lat(vh::Rng& r, bool merc) {
    const int32_t mx = merc ? MERC_LAT_MAX : LAT_MAX;
    static const int32_t B[] = {0, 1, -1, 7, MERC_LAT_MAX, -MERC_LAT_MAX, MERC_LAT_MAX - 1, 780000000, -780000000, 780000001, -780000001, 100000000, 99999999, 850000000, -850000000, 5, 4};
    switch (r.below(4)) {
        case 0: {
            if (!merc && r.chance(1, 3)) { static const int32_t P[] = {LAT_MAX, -LAT_MAX, LAT_MAX - 1, -LAT_MAX + 1, 899999995, MERC_LAT_MAX + 1}; return P[r.below(6)]; }
            return B[r.below(sizeof(B) / sizeof(B[0]))];
        }
        case 1: { const int32_t k = static_cast<int32_t>(pow10u(static_cast<int>(r.range(1, 7)))); return static_cast<int32_t>(r.range(-mx / k, mx / k)) * k; }
        default: return static_cast<int32_t>(r.range(-mx, mx));
    }
}

MNode pick_node(vh::Rng& r, bool merc) { return MNode{r.range(1, 1000), pick_lon(r), pick_lat(r, merc)}; }

MNode bad_node(vh::Rng& r, int kind, bool merc) {
    MNode n{r.range(1, 1000), 0, 0};
    switch (kind) {
        case 0: n.x = UNDEF; n.y = UNDEF; break;
        case 1: n.x = UNDEF; n.y = pick_lat(r, merc); break;
        case 2: n.x = pick_lon(r); n.y = UNDEF; break;
        case 3: { static const int32_t V[] = {LON_MAX + 1, -LON_MAX - 1, 2000000000, std::numeric_limits<int32_t>::min(), UNDEF - 1}; n.x = V[r.below(5)]; n.y = pick_lat(r, merc); break; }
        default: { static const int32_t V[] = {LAT_MAX + 1, -LAT_MAX - 1, 1000000000, std::numeric_limits<int32_t>::min(), UNDEF - 1}; n.x = pick_lon(r); n.y = V[r.below(5)]; break; }
    }
    return n;
}
const char* const BAD_KIND[5] = {"undefined", "half_undefined_x", "half_undefined_y", "lon_out_of_range", "lat_out_of_range"};

// node list with runs of duplicate locations, repeats of earlier locations and near-duplicates
MRing gen_nodes(vh::Rng& r, bool merc, size_t target) {
    MRing out;
    std::vector<MNode> used;
    while (out.size() < target) {
        MNode n;
        const uint64_t how = r.below(10);
        if (how < 2 && !used.empty()) {
            n = used[r.below(used.size())];                  // revisit an earlier location
            if (r.coin()) n.id = r.range(1, 1000);
        } else if (how < 4 && !out.empty()) {
            n = out.back();                                   // neighbour one unit away: must NOT be merged
            if (r.coin()) n.x += (n.x < LON_MAX ? 1 : -1); else n.y += (n.y < (merc ? MERC_LAT_MAX : LAT_MAX) ? 1 : -1);
        } else {
            n = pick_node(r, merc);
        }
        used.push_back(n);
        size_t run = 1;
        if (r.chance(3, 10)) run = static_cast<size_t>(r.range(2, 5));
        for (size_t k = 0; k < run && out.size() < target; ++k) {
            MNode m = n;
            if (k > 0 && r.coin()) m.id = r.range(1, 1000);  // same location, other node id: still a duplicate point
            out.push_back(m);
        }
    }
    if (out.size() >= 2) {
        if (r.chance(1, 4)) { out[1] = out[0]; }                                        // duplicate run at the start
        if (r.chance(1, 4)) { out[out.size() - 1] = out[out.size() - 2]; }              // duplicate run at the end
        if (r.chance(1, 30)) for (auto& n : out) { n.x = out[0].x; n.y = out[0].y; }    // all the same location
    }
    return out;
}

void count_dup_positions(const MRing& nodes) {
    if (nodes.size() < 2) return;
    if (m_same(nodes[0], nodes[1])) vh::count("lists_with_duplicate_run_at_start");
    if (m_same(nodes[nodes.size() - 1], nodes[nodes.size() - 2])) vh::count("lists_with_duplicate_run_at_end");
    for (size_t i = 2; i + 1 < nodes.size(); ++i) if (m_same(nodes[i], nodes[i - 1])) { vh::count("lists_with_duplicate_run_in_middle"); break; }
}

// put a bad location into the list; returns a tag for coverage
void inject_bad(vh::Rng& r, MRing& nodes, bool merc) {
    const int kind = static_cast<int>(r.below(5));
    const MNode b = bad_node(r, kind, merc);
    const uint64_t where = r.below(4);
    const char* pos;
    if (nodes.empty()) { nodes.push_back(b); pos = "only"; }
    else if (where == 0) { if (r.coin()) nodes.insert(nodes.begin(), b); else nodes[0] = b; pos = "first"; }
    else if (where == 1) { if (r.coin()) nodes.push_back(b); else nodes.back() = b; pos = "last"; }
    else if (nodes.size() >= 3) { nodes[static_cast<size_t>(r.range(1, static_cast<int64_t>(nodes.size()) - 2))] = b; pos = "middle"; }
    else { nodes.push_back(b); pos = "last"; }
    if (r.chance(1, 5)) {   // a run of the same bad location
        for (size_t i = 0; i < nodes.size(); ++i) if (m_same(nodes[i], b)) { nodes.insert(nodes.begin() + static_cast<long>(i), b); break; }
    }
    vh::count(std::string("bad_location_") + pos);
    vh::cover("bad_location_kind_x_position", std::string(BAD_KIND[kind]) + " " + pos);
}

// ================================================================ mode d2s : double2string directly

void d2s_check(double v, int p) {
    Cell c[2];
    cells_of(v, p, c);
    vh::set_case_desc("double2string cell=%d/%d/%d value=%.17g precision=%d", c[0].p, c[0].len, c[0].zero, v, p);
    std::string out;
    osmium::double2string(out, v, p);
    char raw[128];
    std::memset(raw, 0x7f, sizeof(raw));
    char* const end = osmium::double2string(&raw[0], v, p);
    const std::string out2(raw, static_cast<size_t>(end - raw));
    NumExpect ne;
    ne.have_dw = true;
    ne.dw = v;
    bool tie = false;
    const NumVerdict verdict = check_number(out, p, ne, false, &tie);
    vh::count("d2s_values");
    if (tie) vh::count("d2s_exact_ties");
    if (v < 0) vh::count("d2s_negative_values");
    vh::count_max("max_d2s_reference_length", static_cast<uint64_t>(c[0].len));
    if (verdict != NumVerdict::ok)
        vh::violation("double2string: " + classify_number(out, p, v),
                      vh::fmt("double2string(%.17g, precision %d) = '%s', correctly rounded: %s", v, p, vh::jesc(out, 80).c_str(),
                              [&] { u128 R[2]; int n = round_cands(v, p, R); std::string s = ref_text(std::signbit(v), R[0], p); if (n == 2) s += " or " + ref_text(std::signbit(v), R[1], p); return s; }().c_str()));
    if (out2 != out)
        vh::violation("double2string: iterator overload and std::string overload disagree", vh::fmt("value %.17g precision %d: '%s' vs '%s'", v, p, vh::jesc(out, 80).c_str(), vh::jesc(out2, 80).c_str()));
    if (verdict == NumVerdict::ok) {
        const bool stripped = out.find('.') == std::string::npos || out.back() != '0';
        vh::count(stripped ? "d2s_no_superfluous_zeros(not judged)" : "d2s_superfluous_zeros_left(not judged)");
    }
}

const double D2S_SPECIAL[] = {180.0, -180.0, 90.0, -90.0, 85.0511288, -85.0511288, 20037508.34, -20037508.34, 20037508.342789244, -20037508.342789244,
                              179.9999999, -179.9999999, 0.1, -0.1, 1e-7, 123.4567891, 100.0, -100.0, 10.0, 1000000.0, 20000000.0, -20000000.0, 1.0, -1.0,
                              99.99999995, -9.99999995, 19971868.880408563, -0.011131949078186243};
constexpr size_t D2S_NSPECIAL = sizeof(D2S_SPECIAL) / sizeof(D2S_SPECIAL[0]);
constexpr size_t D2S_NCLASS = 16 + 4 + D2S_NSPECIAL;
constexpr size_t D2S_CASES = 18 * D2S_NCLASS;

// reference (half-even) scaled value and text length
void d2s_ref(double v, int p, u128& R, int& len) {
    u128 c[2];
    const int n = round_cands(v, p, c);
    R = (n == 2 && (c[0] & 1U)) ? c[1] : c[0];
    len = static_cast<int>(ref_text(std::signbit(v), R, p).size());
}

void case_d2s(uint64_t idx, vh::Rng& rng) {
    const int p = static_cast<int>(idx % 18);
    const size_t cls = idx / 18;
    const int reps = static_cast<int>(vh::arg_int("reps", vh::thorough() ? 3000 : 60));
    vh::count("distinct_by_construction");
    vh::evaluated();
    vh::cover("d2s_precision", std::to_string(p));
    if (cls >= 20) { d2s_check(D2S_SPECIAL[cls - 20], p); return; }
    std::vector<double> vals;
    const bool neg = cls < 16 ? (cls & 1U) != 0 : (cls & 1U) != 0;
    const double sg = neg ? -1.0 : 1.0;
    int want_len = 0;
    bool want_zero = false;
    if (cls < 16) {
        const int nd = static_cast<int>(cls / 2) + 1;
        const double lo = static_cast<double>(pow10u(nd - 1));
        const double hi = nd == 8 ? 20037508.35 : static_cast<double>(pow10u(nd));
        want_len = (neg ? 1 : 0) + nd + (p ? p + 1 : 0);
        for (double f : {1.0, 1.2, 1.5, 2.0}) if (lo * f < hi) vals.push_back(std::floor(lo * f));
        vals.push_back(lo + 0.5); vals.push_back(lo + 0.25); vals.push_back(lo + 1e-7); vals.push_back(lo + 0.1); vals.push_back(lo + 0.123456789012);
        vals.push_back(std::floor(hi) - 1.0); vals.push_back(std::nextafter(hi, 0.0));
        for (int i = 0; i < reps; ++i) {
            const double u = lo + (hi - lo) * (static_cast<double>(rng.below(1ULL << 53)) / 9007199254740992.0);
            switch (rng.below(4)) {
                case 0: { const double sc = static_cast<double>(pow10u(static_cast<int>(rng.range(0, 9)))); vals.push_back(std::round(u * sc) / sc); break; }
                case 1: { const double sc = std::ldexp(1.0, p + 1); vals.push_back((2.0 * std::floor(u * sc / 2.0) + 1.0) / sc); break; }   // exact tie at precision p
                case 2: { const double k = static_cast<double>(pow10u(static_cast<int>(rng.range(0, nd - 1)))); vals.push_back(std::floor(u / k) * k); break; }  // integer with trailing zeros
                default: vals.push_back(u);
            }
        }
    } else if (cls < 18) {
        want_zero = true;
        vals = {0.0, 1e-9, 1e-18, 1e-30, 1e-300, std::numeric_limits<double>::denorm_min(), 4.9 * std::pow(10.0, -(p + 1)), 0.4999 * std::pow(10.0, -p), 0.5 * std::pow(10.0, -p),
                std::ldexp(1.0, -(p + 1)), 1e-7 * (p < 7 ? 1 : 0), 0.3 * std::pow(10.0, -p)};
        for (int i = 0; i < reps / 4; ++i) vals.push_back(0.5 * std::pow(10.0, -p) * (static_cast<double>(rng.below(1ULL << 53)) / 9007199254740992.0));
    } else {
        want_len = (neg ? 1 : 0) + 1 + (p ? p + 1 : 0);
        vals = {0.5, 0.1, 0.25, 0.125, 0.75, 0.9999999, 0.99999999999, 1e-7, 3e-7, 0.0000005, std::pow(10.0, -p), 0.6 * std::pow(10.0, -p), 0.5 * std::pow(10.0, -p),
                1.5 * std::pow(10.0, -p), 0.011131949078186241, 0.3, 0.7};
        for (int i = 0; i < reps; ++i) {
            const double u = static_cast<double>(rng.below(1ULL << 53)) / 9007199254740992.0;
            switch (rng.below(3)) {
                case 0: { const double sc = static_cast<double>(pow10u(static_cast<int>(rng.range(1, 9)))); vals.push_back(std::round(u * sc) / sc); break; }
                case 1: { const double sc = std::ldexp(1.0, p + 1); vals.push_back((2.0 * std::floor(u * sc / 2.0) + 1.0) / sc); break; }
                default: vals.push_back(u);
            }
        }
    }
    uint64_t h = vh::hash_u64(idx);
    for (double a : vals) {
        const double v = sg * a;
        u128 R;
        int len;
        d2s_ref(v, p, R, len);
        if (want_zero) { if (R != 0) { vh::count("d2s_values_outside_their_class(skipped)"); continue; } }
        else if (R == 0 || len != want_len) { vh::count("d2s_values_outside_their_class(skipped)"); continue; }
        d2s_check(v, p);
        uint64_t bits; std::memcpy(&bits, &v, 8);
        h = vh::hash_u64(bits, h);
    }
    vh::distinct(h);
    if (idx == 100) vh::sample_str(vh::fmt("d2s precision %d class %zu: %zu values, e.g. %.17g", p, cls, vals.size(), sg * vals[0]));
}

// ================================================================ mode small : every short node list

const MNode SMALL_SYM[6] = {{1, 100000000, 200000000}, {2, 100000001, 200000000}, {3, -1799999999, -850000000},
                            {4, UNDEF, UNDEF}, {5, LON_MAX + 1, 0}, {6, UNDEF, 5}};
const char SMALL_NAME[7] = "ABCUIH";
constexpr uint64_t SMALL_CASES = 1 + 6 + 36 + 216 + 1296 + 7776;   // length <= 5; --to 55987 adds length 6

void case_small(uint64_t idx, vh::Rng&) {
    size_t len = 0;
    uint64_t rest = idx, block = 1;
    while (rest >= block) { rest -= block; block *= 6; ++len; }
    MRing nodes;
    std::string name;
    for (size_t i = 0; i < len; ++i) { nodes.push_back(SMALL_SYM[rest % 6]); name += SMALL_NAME[rest % 6]; rest /= 6; }
    FactorySet<osmium::geom::IdentityProjection> fi{7, false};
    FactorySet<osmium::geom::MercatorProjection> fm{3, true};
    const Config ci{false, 7, false}, cm{true, 3, true};
    for (int combo = 0; combo < 8; ++combo) {
        const bool unique = combo & 1, backward = combo & 2, polygon = combo & 4;
        do_line(fi, ci, nodes, unique, backward, polygon, combo % 3, len > 0 || (idx & 1U));
        do_line(fm, cm, nodes, unique, backward, polygon, (combo + 1) % 3);
        vh::count("distinct_by_construction", 2);
    }
    vh::count("enumerated_small_sequences");
    vh::evaluated();
    if (idx == 4005) vh::sample_str("small: node list " + name + " x {unique,all} x {forward,backward} x {linestring,polygon} x {identity p=7, mercator p=3}");
}

// ================================================================ mode line : random node lists

Config gen_config(vh::Rng& rng) {
    Config cfg;
    cfg.merc = rng.coin();
    cfg.p = static_cast<int>(rng.range(0, 17));
    cfg.ewkt = rng.chance(1, 3);
    vh::cover("precision", std::to_string(cfg.p));
    vh::cover("projection_x_precision", vh::fmt("%s p=%d", cfg.merc ? "mercator" : "identity", cfg.p));
    vh::count(cfg.merc ? "cases_mercator" : "cases_identity");
    return cfg;
}

template <class P>
void line_case(vh::Rng& rng, const Config& cfg, uint64_t idx) {
    FactorySet<P> fs{cfg.p, cfg.ewkt};
    const int nreq = static_cast<int>(rng.range(1, 3));
    uint64_t h = vh::hash_u64(static_cast<uint64_t>(cfg.p) * 4 + (cfg.merc ? 2 : 0) + (cfg.ewkt ? 1 : 0));
    std::string first;
    for (int q = 0; q < nreq; ++q) {
        size_t target;
        const uint64_t lk = rng.below(100);
        if (lk < 30) target = static_cast<size_t>(rng.range(0, 5));
        else if (lk < 98) target = static_cast<size_t>(rng.range(0, 40));
        else target = static_cast<size_t>(rng.range(41, 400));
        MRing nodes = gen_nodes(rng, cfg.merc, target);
        const uint64_t kind = rng.below(100);
        std::string d;
        if (kind < 12) {
            if (nodes.empty() || rng.chance(1, 4)) nodes.push_back(rng.chance(1, 2) ? bad_node(rng, static_cast<int>(rng.below(5)), cfg.merc) : pick_node(rng, cfg.merc));
            const size_t np = std::min<size_t>(nodes.size(), 3);
            for (size_t i = 0; i < np; ++i) d += do_point(fs, cfg, nodes[rng.below(nodes.size())], static_cast<int>(rng.below(3))) + ";";
        } else {
            const bool polygon = kind >= 62;
            if (polygon && !nodes.empty() && rng.chance(3, 5)) nodes.push_back(nodes.front());   // closed ring
            if (rng.chance(1, 4)) inject_bad(rng, nodes, cfg.merc);
            count_dup_positions(nodes);
            vh::count_max("max_nodes_in_list", nodes.size());
            if (nodes.empty()) vh::count("empty_node_lists");
            const bool unique = rng.coin(), backward = rng.coin();
            d = do_line(fs, cfg, nodes, unique, backward, polygon, static_cast<int>(rng.below(3)), rng.coin());
        }
        h = vh::hash_str(d, h);
        if (q == 0) first = d;
    }
    vh::distinct(h);
    vh::evaluated();
    if (idx % 17001 == 3) vh::sample_str(vh::fmt("line: %s p=%d %s: ", cfg.merc ? "mercator" : "identity", cfg.p, cfg.ewkt ? "ewkt" : "wkt") + first);
}

void case_line(uint64_t idx, vh::Rng& rng) {
    const Config cfg = gen_config(rng);
    if (cfg.merc) line_case<osmium::geom::MercatorProjection>(rng, cfg, idx);
    else line_case<osmium::geom::IdentityProjection>(rng, cfg, idx);
}

// ================================================================ mode area

constexpr uint64_t AREA_ENUM = 63 * 2;

MRing simple_ring(int k, size_t npts) {   // closed ring with distinct corners, different for every k
    MRing r;
    const int32_t bx = -1700000000 + k * 97000003, by = -800000000 + k * 43000001;
    for (size_t i = 0; i + 1 < npts; ++i) r.push_back(MNode{k * 100 + static_cast<int64_t>(i), bx + static_cast<int32_t>(i) * 1000003, by + static_cast<int32_t>((i * i) % 7) * 900001});
    r.push_back(r.front());
    return r;
}

MRing gen_ring(vh::Rng& rng, bool merc, bool& has_short) {
    const uint64_t k = rng.below(100);
    MRing r;
    if (k < 1) { has_short = true; return r; }                                                    // empty ring: not judged
    if (k < 8) { has_short = true; const size_t n = static_cast<size_t>(rng.range(1, 3)); for (size_t i = 0; i < n; ++i) r.push_back(pick_node(rng, merc)); return r; }
    const size_t n = static_cast<size_t>(rng.range(3, 11));
    while (r.size() < n) {
        MNode c = pick_node(rng, merc);
        if (!r.empty() && m_same(r.back(), c)) continue;
        if (r.size() + 1 == n && m_same(r.front(), c)) continue;
        r.push_back(c);
    }
    r.push_back(r.front());
    if (rng.chance(15, 100)) {   // consecutive duplicates (which sequence is encoded is not judged)
        const size_t at = rng.below(r.size());
        r.insert(r.begin() + static_cast<long>(at), r[at]);
        vh::count("area_rings_with_consecutive_duplicates");
    }
    return r;
}

std::vector<MAreaRing> gen_area(vh::Rng& rng, bool merc) {
    std::vector<MAreaRing> rings;
    if (rng.chance(3, 100)) { vh::count("areas_without_rings"); return rings; }
    const int nouter = static_cast<int>(rng.range(1, 5));
    bool has_short = false;
    for (int o = 0; o < nouter; ++o) {
        rings.push_back(MAreaRing{true, gen_ring(rng, merc, has_short)});
        const int ninner = rng.chance(1, 3) ? 0 : static_cast<int>(rng.range(0, 4));
        for (int i = 0; i < ninner; ++i) rings.push_back(MAreaRing{false, gen_ring(rng, merc, has_short)});
    }
    if (has_short) vh::count("areas_with_short_or_empty_ring(rejection not judged)");
    if (rng.chance(1, 5)) {
        MAreaRing& r = rings[rng.below(rings.size())];
        inject_bad(rng, r.nodes, merc);
        vh::count("areas_with_bad_location");
    }
    return rings;
}

template <class P>
void area_case(vh::Rng& rng, const Config& cfg, uint64_t idx) {
    FactorySet<P> fs{cfg.p, cfg.ewkt};
    if (idx < AREA_ENUM) {
        uint64_t s = idx / 2, len = 1, block = 1;
        while (s >= block) { s -= block; block *= 2; ++len; }
        std::vector<MAreaRing> rings;
        rings.push_back(MAreaRing{true, simple_ring(0, 5)});
        for (uint64_t i = 1; i < len; ++i) { rings.push_back(MAreaRing{(s & 1U) != 0, simple_ring(static_cast<int>(i), 5 + i % 2)}); s >>= 1; }
        const std::string d = do_area(fs, cfg, rings);
        // the same factories once more: state of the first call must not leak
        do_area(fs, cfg, std::vector<MAreaRing>{MAreaRing{true, simple_ring(9, 5)}});
        vh::count("enumerated_ring_structures");
        vh::count("distinct_by_construction");
        vh::evaluated();
        (void)d;
        return;
    }
    const int nreq = static_cast<int>(rng.range(1, 3));
    uint64_t h = vh::hash_u64(static_cast<uint64_t>(cfg.p) * 4 + (cfg.merc ? 2 : 0) + (cfg.ewkt ? 1 : 0));
    std::string first;
    for (int q = 0; q < nreq; ++q) {
        std::string d;
        if (q > 0 && rng.chance(1, 4)) {
            MRing nodes = gen_nodes(rng, cfg.merc, static_cast<size_t>(rng.range(0, 12)));
            d = do_line(fs, cfg, nodes, rng.coin(), rng.coin(), rng.coin(), static_cast<int>(rng.below(3)));
        } else {
            d = do_area(fs, cfg, gen_area(rng, cfg.merc));
        }
        h = vh::hash_str(d, h);
        if (q == 0) first = d;
    }
    vh::distinct(h);
    vh::evaluated();
    if (idx % 5003 == 5) vh::sample_str(vh::fmt("area: %s p=%d: ", cfg.merc ? "mercator" : "identity", cfg.p) + first);
}

void case_area(uint64_t idx, vh::Rng& rng) {
    Config cfg;
    if (idx < AREA_ENUM) { cfg.merc = (idx & 1U) != 0; cfg.p = cfg.merc ? 2 : 7; cfg.ewkt = cfg.merc; }
    else cfg = gen_config(rng);
    if (cfg.merc) area_case<osmium::geom::MercatorProjection>(rng, cfg, idx);
    else area_case<osmium::geom::IdentityProjection>(rng, cfg, idx);
}

} // namespace

int main(int argc, char** argv) {
    vh::parse_args(argc, argv);
    parse_skip_cells();
    const std::string mode = vh::arg("mode", "line");
    if (mode == "d2s") return vh::run_cases(argc, argv, D2S_CASES, case_d2s);
    if (mode == "small") return vh::run_cases(argc, argv, SMALL_CASES, case_small);
    if (mode == "line") return vh::run_cases(argc, argv, 20000, case_line);
    if (mode == "area") return vh::run_cases(argc, argv, 8000, case_area);
    if (mode == "sizes") { std::printf("%zu %llu %llu\n", D2S_CASES, static_cast<unsigned long long>(SMALL_CASES), static_cast<unsigned long long>(AREA_ENUM)); return 0; }
    std::fprintf(stderr, "unknown mode\n");
    return 2;
}
