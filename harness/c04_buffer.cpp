// C04 - buffers and builders keep objects intact across growth, commit,
// rollback, purge.
//
// A *history* is a deterministic program of builder / buffer operations
// generated from (seed, history index) and stored as a vector of ops, so it can
// be replayed identically. It is executed
//   * once in a large non-growing external (zero-filled) buffer: the REFERENCE
//     run. The committed items are walked by an explicit-bounds walker written
//     from the documented layout (oracle c), compared field by field through
//     the public accessors with the model of what was passed in, on exact-fit
//     heap copies (oracle d), and their bytes are stored per model item;
//   * then again for every initial capacity 64, 72, 80, ... peak+8 in each of
//     the modes auto_grow::no (internal and external memory), auto_grow::yes,
//     auto_grow::internal (nested buffers) and through a CallbackBuffer.
//     After every op: written()-committed() must equal what the same calls
//     reserved in the reference run. At the end and after
//     purge/clear/swap/move/buffer_is_full+rollback/delivery: the visible
//     committed stream (nested / delivered buffers oldest first) must be
//     byte-identical to the concatenation of the model items' reference bytes
//     (oracle a+b; the 2 never-written tail padding bytes of RelationMember and
//     ChangesetComment structs are masked). Everything runs under ASan
//     (oracle e) - a stale pointer across a reallocation is a use-after-free.
//
// Case index i = history * 4 + part; part 0 = reference checks + auto_grow::no,
// 1 = yes, 2 = internal, 3 = CallbackBuffer. (A sanitizer crash only loses the
// rest of one part of one history.)

#include "vh.hpp"

#include <osmium/builder/attr.hpp>
#include <osmium/builder/osm_object_builder.hpp>
#include <osmium/memory/buffer.hpp>
#include <osmium/memory/callback_buffer.hpp>
#include <osmium/osm/area.hpp>
#include <osmium/osm/changeset.hpp>
#include <osmium/osm/node.hpp>
#include <osmium/osm/relation.hpp>
#include <osmium/osm/way.hpp>

#include <algorithm>
#include <cerrno>
#include <limits>
#include <memory>
#include <new>
#include <string>
#include <sys/wait.h>
#include <utility>
#include <vector>

namespace {

using osmium::memory::Buffer;
using uchar = unsigned char;

static_assert(sizeof(osmium::memory::Item) == 8, "layout");
static_assert(sizeof(osmium::OSMObject) == 32, "layout");
static_assert(sizeof(osmium::Node) == 40, "layout");
static_assert(sizeof(osmium::Changeset) == 56, "layout");
static_assert(sizeof(osmium::RelationMember) == 16, "layout");
static_assert(sizeof(osmium::ChangesetComment) == 16, "layout");
static_assert(sizeof(osmium::NodeRef) == 16, "layout");

// ------------------------------------------------------------------ model

enum TopKind : uint8_t { T_NODE, T_WAY, T_REL, T_AREA, T_CS, T_LIST };
enum SubKind : uint8_t { S_TAGS, S_NODES, S_MEMBERS, S_DISC, S_OUTER, S_INNER };
const char* TOPN[] = {"node", "way", "relation", "area", "changeset", "list"};
const char* SUBN[] = {"TagList", "WayNodeList", "RelationMemberList", "ChangesetDiscussion", "OuterRing", "InnerRing"};

struct MTag { std::string k, v; };
struct MNR { int64_t ref; int32_t x, y; };
struct MMember { uint16_t type; int64_t ref; std::string role; int full; };
struct MComment { uint32_t date, uid; std::string user, text; };
struct MSub {
    SubKind kind = S_TAGS;
    std::vector<MTag> tags;
    std::vector<MNR> nodes;
    std::vector<MMember> members;
    std::vector<MComment> comments;
    int pool = -1;   // >= 0: copied with Builder::add_item from pool list
};
struct OpRange { uint8_t code; uint32_t lo, hi; };
struct MObj {
    TopKind kind = T_NODE;
    int64_t id = 0;
    uint32_t version = 0;
    bool visible = true;
    uint32_t ts = 0, uid = 0, cs = 0;
    std::string user;
    int32_t x = 0, y = 0;
    uint32_t created = 0, closed = 0, num_changes = 0, num_comments = 0;
    int32_t bx1 = 0, by1 = 0, bx2 = 0, by2 = 0;
    bool removed = false;
    bool via_attr = false;
    int init_from = -1;
    std::vector<MSub> subs;
    // filled by the reference run
    std::string bytes;                                   // canonical (mask bytes zeroed)
    std::vector<std::pair<uint32_t, uint32_t>> mask;     // don't-care byte ranges
    std::vector<OpRange> ranges;                         // which call reserved which bytes
};

enum OpCode : uint8_t {
    O_OPEN_OBJ, O_ATTRS, O_USER, O_INIT_FROM, O_OPEN_SUB, O_TAG, O_NODEREF, O_MEMBER, O_COMMENT, O_COMMENT_TEXT,
    O_SUB_ITEM, O_CLOSE_SUB, O_CLOSE_OBJ, O_ATTR_OBJ,
    O_COMMIT, O_ROLLBACK, O_CLEAR, O_ADD_BUFFER, O_PUSH_BACK, O_BUF_ADD_ITEM, O_SWAP, O_MOVE_CTOR, O_MOVE_ASSIGN,
    O_SET_REMOVED, O_PURGE, O_GROW, O_DRAIN, O_CB_POSSIBLY, O_CB_FLUSH, O_CB_READ, O_CB_SETCB, O_NCODES
};
const char* OPN[] = {
    "object builder constructor", "attribute setters", "set_user", "AreaBuilder::initialize_from_object",
    "sub-builder constructor", "TagListBuilder::add_tag", "NodeRefListBuilder::add_node_ref",
    "RelationMemberListBuilder::add_member", "ChangesetDiscussionBuilder::add_comment",
    "ChangesetDiscussionBuilder::add_comment_text", "Builder::add_item", "sub-builder destructor",
    "object builder destructor", "osmium::builder::add_<object>(attr)",
    "commit", "rollback", "clear", "add_buffer", "push_back", "Buffer::add_item", "swap", "move construction",
    "move assignment", "set_removed", "purge_removed", "grow", "get_last_nested", "CallbackBuffer::possibly_flush",
    "CallbackBuffer::flush", "CallbackBuffer::read", "CallbackBuffer::set_callback"};

struct Op {
    uint8_t code;
    uint8_t variant;
    int32_t a, b, c;
    int64_t n;
};

struct History {
    uint64_t index = 0;
    std::vector<MObj> objs;
    std::vector<Op> ops;
    bool entity_only = true;
    // filled by the reference run
    std::vector<uint32_t> delta;
    size_t peak = 0;
    bool ref_ok = false;
};

// the pool: prebuilt objects that histories copy (full members, add_item,
// push_back, add_buffer, initialize_from_object)
struct Pool {
    std::vector<MObj> objs;            // entities
    std::vector<size_t> off;
    std::unique_ptr<Buffer> buf;
    std::vector<MObj> lists;           // standalone TagLists
    std::vector<size_t> list_off;
    std::unique_ptr<Buffer> list_buf;
    std::vector<std::vector<int>> groups;
    std::vector<std::unique_ptr<Buffer>> group_bufs;
    std::vector<int> osmobjects;       // indexes of node/way/relation objects (full members)
    std::vector<int> way_or_rel;       // for initialize_from_object
};
Pool* pool = nullptr;

// ------------------------------------------------------------------ generators

const int LENS[] = {0, 1, 2, 3, 4, 5, 6, 7, 8, 9, 10, 12, 13, 14, 15, 16, 17, 23, 24, 25, 31, 32, 33, 63, 64, 65};

std::string gen_str(vh::Rng& r, bool allow_long = true) {
    size_t len;
    unsigned d = static_cast<unsigned>(r.below(100));
    if (d < 62) len = static_cast<size_t>(LENS[r.below(sizeof(LENS) / sizeof(LENS[0]))]);
    else if (d < 88) len = static_cast<size_t>(r.range(0, 40));
    else if (d < 99 || !allow_long) len = static_cast<size_t>(r.range(66, 300));
    else len = r.chance(1, 3) ? static_cast<size_t>(osmium::max_osm_string_length)   // longer strings are refused (documented)
                              : static_cast<size_t>(r.range(301, osmium::max_osm_string_length));
    std::string s(len, 'x');
    for (auto& c : s) {
        c = r.below(12) == 0 ? static_cast<char>(r.range(0x80, 0xff)) : static_cast<char>(r.range(0x20, 0x7e));
    }
    return s;
}

int64_t gen_id(vh::Rng& r, bool moderate = false) {
    if (moderate) return r.range(-(1LL << 40), 1LL << 40);
    static const int64_t B[] = {0, 1, -1, 2, 1LL << 31, -(1LL << 31), (1LL << 32) + 5, std::numeric_limits<int64_t>::max(),
                                std::numeric_limits<int64_t>::min() + 1, 123456789012LL};
    return r.chance(1, 2) ? B[r.below(sizeof(B) / sizeof(B[0]))] : static_cast<int64_t>(r.next());
}

uint32_t gen_u32(vh::Rng& r) {
    static const uint32_t B[] = {0, 1, 2, 0x7fffffffU, 0x80000000U, 0xfffffffeU, 0xffffffffU};
    return r.chance(1, 2) ? B[r.below(sizeof(B) / sizeof(B[0]))] : static_cast<uint32_t>(r.next());
}

int32_t gen_coord(vh::Rng& r) {
    static const int32_t B[] = {0, 1, -1, 1800000000, -1800000000, 900000000, std::numeric_limits<int32_t>::max(),
                                std::numeric_limits<int32_t>::min()};
    return r.chance(1, 2) ? B[r.below(sizeof(B) / sizeof(B[0]))] : static_cast<int32_t>(r.next());
}

MSub gen_sub(vh::Rng& r, SubKind kind, bool in_pool) {
    MSub s;
    s.kind = kind;
    size_t n = r.chance(1, 8) ? 0 : static_cast<size_t>(r.range(1, r.chance(1, 6) ? 9 : 4));
    switch (kind) {
        case S_TAGS:
            for (size_t i = 0; i < n; ++i) s.tags.push_back(MTag{gen_str(r), gen_str(r)});
            break;
        case S_NODES: case S_OUTER: case S_INNER:
            for (size_t i = 0; i < n; ++i) {
                bool undef = r.chance(1, 4);
                s.nodes.push_back(MNR{gen_id(r), undef ? osmium::Location::undefined_coordinate : gen_coord(r),
                                      undef ? osmium::Location::undefined_coordinate : gen_coord(r)});
            }
            break;
        case S_MEMBERS:
            for (size_t i = 0; i < n; ++i) {
                MMember m;
                m.type = static_cast<uint16_t>(r.range(1, 3));
                m.ref = gen_id(r);
                m.role = gen_str(r, false);
                m.full = -1;
                if (!in_pool && pool && r.chance(1, 3)) {
                    m.full = r.pick(pool->osmobjects);
                    m.type = static_cast<uint16_t>(pool->objs[static_cast<size_t>(m.full)].kind + 1);
                    m.ref = pool->objs[static_cast<size_t>(m.full)].id;
                }
                s.members.push_back(std::move(m));
            }
            break;
        case S_DISC:
            for (size_t i = 0; i < n; ++i) s.comments.push_back(MComment{gen_u32(r), gen_u32(r), gen_str(r), gen_str(r)});
            break;
    }
    return s;
}

MObj gen_obj(vh::Rng& r, TopKind kind, bool in_pool) {
    MObj o;
    o.kind = kind;
    if (kind == T_LIST) {
        static const SubKind K[] = {S_TAGS, S_TAGS, S_NODES, S_MEMBERS, S_DISC, S_OUTER, S_INNER};
        o.subs.push_back(gen_sub(r, r.pick(K), in_pool));
        return o;
    }
    o.id = gen_id(r, in_pool);
    o.uid = gen_u32(r);
    o.user = r.chance(1, 10) ? std::string{} : gen_str(r);
    o.removed = !in_pool && r.chance(1, 12);
    if (kind == T_CS) {
        o.id = gen_u32(r);
        o.created = gen_u32(r); o.closed = gen_u32(r); o.num_changes = gen_u32(r); o.num_comments = gen_u32(r);
        o.bx1 = gen_coord(r); o.by1 = gen_coord(r); o.bx2 = gen_coord(r); o.by2 = gen_coord(r);
        if (o.bx1 > o.bx2) std::swap(o.bx1, o.bx2);   // precondition of osmium::Box
        if (o.by1 > o.by2) std::swap(o.by1, o.by2);
    } else {
        o.version = gen_u32(r) & 0x7fffffffU;
        o.visible = !r.chance(1, 4);
        o.ts = gen_u32(r);
        o.cs = gen_u32(r);
        o.x = gen_coord(r); o.y = gen_coord(r);
    }
    // sub items
    std::vector<SubKind> ks;
    bool tags = r.chance(2, 3);
    switch (kind) {
        case T_NODE: break;
        case T_WAY: if (r.chance(4, 5)) ks.push_back(S_NODES); break;
        case T_REL: if (r.chance(4, 5)) ks.push_back(S_MEMBERS); break;
        case T_CS: if (r.chance(3, 4)) ks.push_back(S_DISC); break;
        case T_AREA: {
            int outers = static_cast<int>(r.range(0, 2));
            for (int i = 0; i < outers; ++i) {
                ks.push_back(S_OUTER);
                int inners = static_cast<int>(r.range(0, 2));
                for (int j = 0; j < inners; ++j) ks.push_back(S_INNER);
            }
            break;
        }
        default: break;
    }
    size_t tagpos = tags ? r.below(ks.size() + 1) : ~size_t{0};
    if (kind == T_AREA && tags && !r.chance(1, 3)) tagpos = 0;
    for (size_t i = 0; i <= ks.size(); ++i) {
        if (i == tagpos) {
            if (!in_pool && pool && r.chance(1, 5)) {
                int pi = static_cast<int>(r.below(pool->lists.size()));
                MSub s = pool->lists[static_cast<size_t>(pi)].subs[0];
                s.pool = pi;
                o.subs.push_back(std::move(s));
            } else {
                o.subs.push_back(gen_sub(r, S_TAGS, in_pool));
            }
        }
        if (i < ks.size()) o.subs.push_back(gen_sub(r, ks[i], in_pool));
    }
    return o;
}

void derive_area_from(MObj& o, const MObj& src) {
    int64_t a = (src.id < 0 ? -src.id : src.id) * 2 + (src.kind == T_REL ? 1 : 0);
    o.id = src.id < 0 ? -a : a;
    o.version = src.version; o.cs = src.cs; o.ts = src.ts; o.visible = src.visible; o.uid = src.uid; o.user = src.user;
}

// emits the builder ops for objs[a]
void compile_obj(vh::Rng& r, History& h, int a) {
    const MObj& o = h.objs[static_cast<size_t>(a)];
    auto emit = [&](OpCode c, unsigned variant = 0, int b = 0, int cc = 0, int64_t n = 0) {
        h.ops.push_back(Op{static_cast<uint8_t>(c), static_cast<uint8_t>(variant), a, b, cc, n});
    };
    if (o.via_attr) { emit(O_ATTR_OBJ, static_cast<unsigned>(r.below(2))); return; }
    emit(O_OPEN_OBJ);
    auto emit_elems = [&](const MSub& s, int b) {
        size_t n = std::max({s.tags.size(), s.nodes.size(), s.members.size(), s.comments.size()});
        for (size_t e = 0; e < n; ++e) {
            switch (s.kind) {
                case S_TAGS: emit(O_TAG, static_cast<unsigned>(r.below(4)), b, static_cast<int>(e)); break;
                case S_NODES: case S_OUTER: case S_INNER: emit(O_NODEREF, static_cast<unsigned>(r.below(2)), b, static_cast<int>(e)); break;
                case S_MEMBERS: emit(O_MEMBER, static_cast<unsigned>(r.below(3)), b, static_cast<int>(e)); break;
                case S_DISC:
                    emit(O_COMMENT, 0, b, static_cast<int>(e));
                    emit(O_COMMENT_TEXT, static_cast<unsigned>(r.below(2)), b, static_cast<int>(e));
                    break;
            }
        }
    };
    if (o.kind == T_LIST) {
        emit_elems(o.subs[0], 0);
        emit(O_CLOSE_OBJ);
        return;
    }
    int attrs_at = static_cast<int>(r.below(3));   // 0 before user, 1 after user, 2 after the sub items
    if (o.init_from >= 0) {
        emit(O_INIT_FROM);
        attrs_at = -1;
    } else {
        if (attrs_at == 0) emit(O_ATTRS, static_cast<unsigned>(r.below(2)));
        if (!(o.user.empty() && r.chance(1, 2))) emit(O_USER, static_cast<unsigned>(r.below(3)));
        if (attrs_at == 1) emit(O_ATTRS, static_cast<unsigned>(r.below(2)));
    }
    for (size_t b = 0; b < o.subs.size(); ++b) {
        const MSub& s = o.subs[b];
        if (s.pool >= 0) { emit(O_SUB_ITEM, 0, static_cast<int>(b)); continue; }
        emit(O_OPEN_SUB, static_cast<unsigned>(r.below(2)), static_cast<int>(b));
        emit_elems(s, static_cast<int>(b));
        emit(O_CLOSE_SUB, 0, static_cast<int>(b));
    }
    if (attrs_at == 2) emit(O_ATTRS, static_cast<unsigned>(r.below(2)));
    emit(O_CLOSE_OBJ);
}

void gen_history(vh::Rng& r, History& h) {
    h.entity_only = r.chance(3, 4);
    size_t nobj = static_cast<size_t>(r.range(1, r.chance(1, 5) ? 9 : 5));
    h.objs.reserve(nobj);
    bool pending = false;
    auto emit = [&](OpCode c, unsigned variant = 0, int a = 0, int64_t n = 0) {
        h.ops.push_back(Op{static_cast<uint8_t>(c), static_cast<uint8_t>(variant), a, 0, 0, n});
    };
    for (size_t k = 0; k < nobj; ++k) {
        unsigned d = static_cast<unsigned>(r.below(100));
        if (d < 72) {
            static const TopKind K[] = {T_NODE, T_NODE, T_WAY, T_WAY, T_REL, T_REL, T_AREA, T_CS, T_CS};
            TopKind kind = (!h.entity_only && r.chance(1, 4)) ? T_LIST : r.pick(K);
            MObj o = gen_obj(r, kind, false);
            if (kind != T_LIST && r.chance(1, 7)) {
                // through the attr.hpp helpers: fixed sub item structure
                o.via_attr = true;
                o.removed = false;
                o.subs.clear();
                o.subs.push_back(gen_sub(r, S_TAGS, true));
                if (kind == T_WAY) o.subs.push_back(gen_sub(r, S_NODES, true));
                if (kind == T_REL) o.subs.push_back(gen_sub(r, S_MEMBERS, true));
                if (kind == T_CS) {
                    o.subs.push_back(gen_sub(r, S_DISC, true));
                    o.bx1 = o.by1 = o.bx2 = o.by2 = osmium::Location::undefined_coordinate;   // no attr for the bounds
                }
                if (kind == T_AREA) { o.subs.push_back(gen_sub(r, S_OUTER, true)); o.subs.push_back(gen_sub(r, S_INNER, true)); }
            } else if (kind == T_AREA && r.chance(1, 3)) {
                o.init_from = r.pick(pool->way_or_rel);
                derive_area_from(o, pool->objs[static_cast<size_t>(o.init_from)]);
            }
            h.objs.push_back(std::move(o));
            compile_obj(r, h, static_cast<int>(h.objs.size() - 1));
            pending = !h.objs.back().via_attr;
        } else if (d < 80) {
            emit(O_PUSH_BACK, 0, static_cast<int>(r.below(pool->objs.size())));
            pending = false;
        } else if (d < 90) {
            emit(O_BUF_ADD_ITEM, 0, static_cast<int>(r.below(pool->objs.size())));
            pending = true;
        } else {
            emit(O_ADD_BUFFER, 0, static_cast<int>(r.below(pool->groups.size())));
            pending = true;
        }
        if (pending && r.chance(4, 5)) { emit(O_COMMIT); pending = false; }
        // buffer level operations between objects
        int extra = static_cast<int>(r.below(3));
        for (int e = 0; e < extra; ++e) {
            unsigned x = static_cast<unsigned>(r.below(100));
            if (x < 8) { emit(O_ROLLBACK); pending = false; }
            else if (x < 11) { emit(O_CLEAR); pending = false; }
            else if (x < 30) { emit(O_SET_REMOVED, static_cast<unsigned>(r.chance(4, 5)), static_cast<int>(r.below(1000))); }
            else if (x < 42) { if (!pending) emit(O_PURGE, static_cast<unsigned>(r.below(3) != 0)); }
            else if (x < 50) { emit(O_SWAP, static_cast<unsigned>(r.below(3)), static_cast<int>(r.below(pool->objs.size())), r.range(0, 6)); }
            else if (x < 56) { emit(O_MOVE_CTOR); }
            else if (x < 62) { emit(O_MOVE_ASSIGN, static_cast<unsigned>(r.below(2)), static_cast<int>(r.below(pool->objs.size()))); }
            else if (x < 68) { static const int64_t G[] = {-8, 0, 1, 8, 9, 64, 200}; emit(O_GROW, 0, 0, r.pick(G)); }
            else if (x < 78) { emit(O_DRAIN); }
            else if (x < 84) { if (!pending) emit(O_CB_POSSIBLY); }
            else if (x < 88) { if (!pending) emit(O_CB_FLUSH); }
            else if (x < 91) { if (!pending) emit(O_CB_READ); }
            else if (x < 94) { emit(O_CB_SETCB, static_cast<unsigned>(r.chance(2, 3))); }
        }
    }
    if (pending && r.chance(6, 7)) emit(O_COMMIT);
    if (r.chance(1, 6)) emit(O_PURGE, 1);
}

// ------------------------------------------------------------------ walker (oracle c)
//
// Explicit-bounds structural validator written from the documented layout.
// Works on an exact-size copy of one top-level item; never calls strlen.

struct Walker {
    const uchar* p;
    size_t n;
    std::string err;   // first rule broken (stable text)
    std::string where; // detail
    std::vector<std::pair<uint32_t, uint32_t>>* mask;

    uint16_t u16(size_t o) const { uint16_t v; std::memcpy(&v, p + o, 2); return v; }
    uint32_t u32(size_t o) const { uint32_t v; std::memcpy(&v, p + o, 4); return v; }
    static size_t pad(size_t v) { return (v + 7) & ~size_t{7}; }

    bool fail(const char* rule, size_t off) {
        if (err.empty()) { err = rule; where = vh::fmt("at item offset %zu", off); }
        return false;
    }
    bool zeros(size_t a, size_t b, const char* rule) {
        for (size_t i = a; i < b; ++i) if (p[i] != 0) return fail(rule, i);
        return true;
    }
    // string of len bytes including the terminator inside [o, limit)
    bool cstr(size_t o, size_t len, size_t limit, const char* rule) {
        if (len < 1 || o + len > limit) return fail(rule, o);
        if (p[o + len - 1] != 0) return fail(rule, o + len - 1);
        for (size_t i = o; i + 1 < o + len; ++i) if (p[i] == 0) return fail(rule, i);
        return true;
    }

    // returns the padded size of the item at off (0 on error). ctx: 0 top level, 1 sub item, 2 full member
    size_t item(size_t off, size_t limit, int ctx) {
        if (off % 8 != 0) { fail("item not 8-byte aligned", off); return 0; }
        if (off + 8 > limit) { fail("item header beyond the enclosing item", off); return 0; }
        const size_t size = u32(off);
        const uint16_t type = u16(off + 4);
        if (size < 8) { fail("item size smaller than the item header", off); return 0; }
        const size_t psize = pad(size);
        if (off + psize > limit) { fail("item extends beyond the enclosing item", off); return 0; }
        if (!zeros(off + size, off + psize, "item padding bytes not zero")) return 0;
        const size_t end = off + size;
        switch (type) {
            case 0x01: case 0x02: case 0x03: case 0x04: {
                if (ctx == 1) { fail("object as sub item", off); return 0; }
                if (ctx == 2 && type == 0x04) { fail("full member is not node/way/relation", off); return 0; }
                const size_t hdr = 32 + (type == 0x01 ? 8 : 0);
                if (size < hdr + 2) { fail("object smaller than its fixed part", off); return 0; }
                const size_t us = u16(off + hdr);
                if (!cstr(off + hdr + 2, us, end, "object user string not NUL-terminated inside the item")) return 0;
                const size_t sp = pad(hdr + 2 + us);
                if (off + sp > off + psize) { fail("object user padding beyond item", off); return 0; }
                if (!zeros(off + hdr + 2 + us, off + sp, "object user padding bytes not zero")) return 0;
                return subitems(off, off + sp, off + psize) ? psize : 0;
            }
            case 0x05: {
                if (ctx != 0) { fail("changeset not at top level", off); return 0; }
                if (size < 56 + 1) { fail("changeset smaller than its fixed part", off); return 0; }
                const size_t us = u16(off + 48);
                if (!cstr(off + 56, us, end, "changeset user string not NUL-terminated inside the item")) return 0;
                const size_t sp = pad(56 + us);
                if (!zeros(off + 56 + us, off + sp, "changeset user padding bytes not zero")) return 0;
                return subitems(off, off + sp, off + psize) ? psize : 0;
            }
            case 0x11: {
                size_t pos = off + 8;
                size_t strings = 0;
                while (pos < end) {
                    size_t e = pos;
                    while (e < end && p[e] != 0) ++e;
                    if (e == end) { fail("tag string not NUL-terminated inside the TagList", pos); return 0; }
                    pos = e + 1;
                    ++strings;
                }
                if (strings % 2 != 0) { fail("TagList holds an odd number of strings", off); return 0; }
                return psize;
            }
            case 0x12: case 0x40: case 0x41:
                if ((size - 8) % 16 != 0) { fail("NodeRefList size not a whole number of NodeRefs", off); return 0; }
                return psize;
            case 0x13: case 0x23: {
                size_t pos = off + 8;
                while (pos < end) {
                    if (pos + 16 > end) { fail("RelationMember beyond the member list", pos); return 0; }
                    const uint16_t mtype = u16(pos + 8);
                    const uint16_t flags = u16(pos + 10);
                    const size_t rs = u16(pos + 12);
                    if (mtype < 1 || mtype > 3) { fail("RelationMember type not node/way/relation", pos); return 0; }
                    if (flags > 1) { fail("RelationMember flags not 0/1", pos); return 0; }
                    if (mask) mask->emplace_back(static_cast<uint32_t>(pos + 14), static_cast<uint32_t>(pos + 16));
                    if (!cstr(pos + 16, rs, end, "member role not NUL-terminated inside the member list")) return 0;
                    const size_t np = pos + pad(16 + rs);
                    if (np > end) { fail("member role padding beyond the member list", pos); return 0; }
                    if (!zeros(pos + 16 + rs, np, "member role padding bytes not zero")) return 0;
                    pos = np;
                    if (flags == 1) {
                        if (pos + 8 > end) { fail("full member beyond the member list", pos); return 0; }
                        if (u32(pos) % 8 != 0) { fail("full member byte size not a multiple of 8", pos); return 0; }
                        const size_t fs = item(pos, end, 2);
                        if (!fs) return 0;
                        pos += fs;
                    }
                }
                if (pos != end) { fail("members do not end at the member list size", off); return 0; }
                return psize;
            }
            case 0x80: {
                size_t pos = off + 8;
                while (pos < end) {
                    if (pos + 16 > end) { fail("ChangesetComment beyond the discussion", pos); return 0; }
                    const size_t ts = u32(pos + 8);
                    const size_t us = u16(pos + 12);
                    if (mask) mask->emplace_back(static_cast<uint32_t>(pos + 14), static_cast<uint32_t>(pos + 16));
                    if (!cstr(pos + 16, us, end, "comment user not NUL-terminated inside the discussion")) return 0;
                    if (ts > size || !cstr(pos + 16 + us, ts, end, "comment text not NUL-terminated inside the discussion")) {
                        fail("comment text not NUL-terminated inside the discussion", pos);
                        return 0;
                    }
                    const size_t np = pos + pad(16 + us + ts);
                    if (np > end) { fail("comment padding beyond the discussion", pos); return 0; }
                    if (!zeros(pos + 16 + us + ts, np, "comment padding bytes not zero")) return 0;
                    pos = np;
                }
                if (pos != end) { fail("comments do not end at the discussion size", off); return 0; }
                return psize;
            }
            default:
                fail("unknown item type", off);
                return 0;
        }
    }

    bool subitems(size_t obj_off, size_t from, size_t to) {
        size_t pos = from;
        while (pos < to) {
            if (pos + 8 <= to) {
                const uint16_t t = u16(pos + 4);
                if (t < 0x11) return fail("sub item is not a list item", pos);
            }
            const size_t s = item(pos, to, 1);
            if (!s) return false;
            pos += s;
        }
        if (pos != to) return fail("sub items do not tile the object", obj_off);
        return true;
    }
};

// ------------------------------------------------------------------ accessor comparison (oracle d)

struct Cmp {
    std::string field;   // first differing field (stable text), empty = equal
    std::string detail;
    bool bad(const char* f, const std::string& d = "") { if (field.empty()) { field = f; detail = d; } return false; }

    bool str(const char* got, const std::string& want, const char* f) {
        // got lies in an exact-fit heap copy: an unterminated string trips ASan
        if (std::strlen(got) != want.size() || std::memcmp(got, want.data(), want.size()) != 0) {
            return bad(f, vh::fmt("expected %zu bytes '%s'", want.size(), want.substr(0, 40).c_str()));
        }
        return true;
    }
    bool tags(const osmium::TagList& tl, const std::vector<MTag>& m) {
        size_t i = 0;
        for (const osmium::Tag& t : tl) {
            if (i >= m.size()) return bad("number of tags");
            if (!str(t.key(), m[i].k, "tag key") || !str(t.value(), m[i].v, "tag value")) return false;
            ++i;
        }
        if (i != m.size() || tl.size() != m.size()) return bad("number of tags");
        return true;
    }
    bool nodes(const osmium::NodeRefList& l, const std::vector<MNR>& m) {
        if (l.size() != m.size()) return bad("number of node refs");
        size_t i = 0;
        for (const osmium::NodeRef& nr : l) {
            if (nr.ref() != m[i].ref) return bad("node ref id");
            if (nr.location().x() != m[i].x || nr.location().y() != m[i].y) return bad("node ref location");
            ++i;
        }
        if (i != m.size()) return bad("number of node refs");
        if (!m.empty() && (l[m.size() - 1].ref() != m.back().ref || l.front().ref() != m.front().ref)) return bad("node ref id");
        return true;
    }
    bool members(const osmium::RelationMemberList& l, const std::vector<MMember>& m);
    bool disc(const osmium::ChangesetDiscussion& d, const std::vector<MComment>& m) {
        size_t i = 0;
        for (const osmium::ChangesetComment& c : d) {
            if (i >= m.size()) return bad("number of comments");
            if (uint32_t(c.date()) != m[i].date) return bad("comment date");
            if (c.uid() != m[i].uid) return bad("comment uid");
            if (!str(c.user(), m[i].user, "comment user") || !str(c.text(), m[i].text, "comment text")) return false;
            ++i;
        }
        if (i != m.size() || d.size() != m.size()) return bad("number of comments");
        return true;
    }
    static uint16_t subtype(SubKind k) {
        switch (k) {
            case S_TAGS: return 0x11; case S_NODES: return 0x12; case S_MEMBERS: return 0x13; case S_DISC: return 0x80;
            case S_OUTER: return 0x40; default: return 0x41;
        }
    }
    bool sub(const osmium::memory::Item& it, const MSub& s) {
        const auto t = static_cast<uint16_t>(it.type());
        if (t != subtype(s.kind)) return bad("sub item type");
        switch (s.kind) {
            case S_TAGS: return tags(static_cast<const osmium::TagList&>(it), s.tags);
            case S_NODES: case S_OUTER: case S_INNER: return nodes(static_cast<const osmium::NodeRefList&>(it), s.nodes);
            case S_MEMBERS: return members(static_cast<const osmium::RelationMemberList&>(it), s.members);
            case S_DISC: return disc(static_cast<const osmium::ChangesetDiscussion&>(it), s.comments);
        }
        return true;
    }
    const MSub* first(const MObj& m, SubKind k) {
        for (const auto& s : m.subs) if (s.kind == k) return &s;
        return nullptr;
    }
    bool item(const osmium::memory::Item& it, const MObj& m, bool check_removed = true) {
        if (check_removed && it.removed() != m.removed) return bad("removed flag");
        if (m.kind == T_LIST) return sub(it, m.subs[0]);
        static const std::vector<MTag> no_tags;
        if (m.kind == T_CS) {
            if (it.type() != osmium::item_type::changeset) return bad("item type");
            const auto& c = static_cast<const osmium::Changeset&>(it);
            if (c.id() != static_cast<uint32_t>(m.id)) return bad("changeset id");
            if (c.uid() != m.uid) return bad("changeset uid");
            if (uint32_t(c.created_at()) != m.created) return bad("changeset created_at");
            if (uint32_t(c.closed_at()) != m.closed) return bad("changeset closed_at");
            if (c.num_changes() != m.num_changes) return bad("changeset num_changes");
            if (c.num_comments() != m.num_comments) return bad("changeset num_comments");
            if (c.bounds().bottom_left().x() != m.bx1 || c.bounds().bottom_left().y() != m.by1 ||
                c.bounds().top_right().x() != m.bx2 || c.bounds().top_right().y() != m.by2) return bad("changeset bounds");
            if (!str(c.user(), m.user, "changeset user")) return false;
            size_t i = 0;
            for (const auto& s : c) {
                if (i >= m.subs.size()) return bad("number of sub items");
                if (!sub(s, m.subs[i])) return false;
                ++i;
            }
            if (i != m.subs.size()) return bad("number of sub items");
            const MSub* t = first(m, S_TAGS);
            if (!tags(c.tags(), t ? t->tags : no_tags)) return false;
            const MSub* d = first(m, S_DISC);
            static const std::vector<MComment> no_comments;
            return disc(c.discussion(), d ? d->comments : no_comments);
        }
        if (static_cast<uint16_t>(it.type()) != static_cast<uint16_t>(m.kind) + 1) return bad("item type");
        const auto& o = static_cast<const osmium::OSMObject&>(it);
        if (o.id() != m.id) return bad("object id");
        if (o.version() != m.version) return bad("object version");
        if (o.visible() != m.visible || o.deleted() == m.visible) return bad("object visible");
        if (uint32_t(o.timestamp()) != m.ts) return bad("object timestamp");
        if (o.uid() != m.uid) return bad("object uid");
        if (o.changeset() != m.cs) return bad("object changeset");
        if (!str(o.user(), m.user, "object user")) return false;
        if (m.kind == T_NODE) {
            const auto& nd = static_cast<const osmium::Node&>(it);
            if (nd.location().x() != m.x || nd.location().y() != m.y) return bad("node location");
        }
        size_t i = 0;
        for (const auto& s : o) {
            if (i >= m.subs.size()) return bad("number of sub items");
            if (!sub(s, m.subs[i])) return false;
            ++i;
        }
        if (i != m.subs.size()) return bad("number of sub items");
        const MSub* t = first(m, S_TAGS);
        if (!tags(o.tags(), t ? t->tags : no_tags)) return false;
        static const std::vector<MNR> no_nodes;
        static const std::vector<MMember> no_members;
        if (m.kind == T_WAY) {
            const MSub* s = first(m, S_NODES);
            if (!nodes(static_cast<const osmium::Way&>(it).nodes(), s ? s->nodes : no_nodes)) return false;
        } else if (m.kind == T_REL) {
            const MSub* s = first(m, S_MEMBERS);
            if (!members(static_cast<const osmium::Relation&>(it).members(), s ? s->members : no_members)) return false;
        } else if (m.kind == T_AREA) {
            const auto& ar = static_cast<const osmium::Area&>(it);
            size_t si = 0;
            auto next_ring = [&](SubKind k) -> const MSub* {
                while (si < m.subs.size() && m.subs[si].kind == S_TAGS) ++si;
                if (si < m.subs.size() && m.subs[si].kind == k) return &m.subs[si++];
                return nullptr;
            };
            size_t outers = 0, inners = 0;
            for (const auto& s : m.subs) { outers += s.kind == S_OUTER; inners += s.kind == S_INNER; }
            const auto nr = ar.num_rings();
            if (nr.first != outers || nr.second != inners) return bad("area num_rings");
            for (const auto& outer : ar.outer_rings()) {
                const MSub* mo = next_ring(S_OUTER);
                if (!mo) return bad("area outer rings");
                if (!nodes(outer, mo->nodes)) return false;
                for (const auto& inner : ar.inner_rings(outer)) {
                    const MSub* mi = next_ring(S_INNER);
                    if (!mi) return bad("area inner rings");
                    if (!nodes(inner, mi->nodes)) return false;
                }
                while (si < m.subs.size() && m.subs[si].kind == S_TAGS) ++si;
                if (si < m.subs.size() && m.subs[si].kind == S_INNER) return bad("area inner rings");
            }
        }
        return true;
    }
};

bool Cmp::members(const osmium::RelationMemberList& l, const std::vector<MMember>& m) {
    size_t i = 0;
    for (const osmium::RelationMember& rm : l) {
        if (i >= m.size()) return bad("number of members");
        if (static_cast<uint16_t>(rm.type()) != m[i].type) return bad("member type");
        if (rm.ref() != m[i].ref) return bad("member ref");
        if (!str(rm.role(), m[i].role, "member role")) return false;
        if (rm.full_member() != (m[i].full >= 0)) return bad("member full flag");
        if (m[i].full >= 0) {
            Cmp inner;
            if (!inner.item(rm.get_object(), pool->objs[static_cast<size_t>(m[i].full)], false)) {
                return bad("full member content", inner.field);
            }
        }
        ++i;
    }
    if (i != m.size() || l.size() != m.size()) return bad("number of members");
    return true;
}

// walks + compares one committed top-level item (given as exact bytes) and
// stores canonical bytes / mask in the model. Returns false after reporting.
bool check_and_capture(const uchar* data, size_t psize, MObj& m, const char* origin) {
    // exact-fit heap copy: one byte of over-read by walker or library hits a red zone
    std::unique_ptr<uchar, void (*)(void*)> copy{static_cast<uchar*>(std::malloc(psize)), std::free};
    std::memcpy(copy.get(), data, psize);
    Walker w{copy.get(), psize, {}, {}, &m.mask};
    m.mask.clear();
    const size_t got = w.item(0, psize, 0);
    if (!got || got != psize) {
        vh::violation(vh::fmt("%s: walker: %s (%s)", origin, w.err.empty() ? "item size differs from committed size" : w.err.c_str(), TOPN[m.kind]),
                      w.where + " hex=" + vh::hexdump(std::string(reinterpret_cast<const char*>(data), psize), 400));
        return false;
    }
    Cmp c;
    if (!c.item(*reinterpret_cast<const osmium::memory::Item*>(copy.get()), m)) {
        vh::violation(vh::fmt("%s: accessor: %s of a %s%s differs from what was passed in", origin, c.field.c_str(), TOPN[m.kind],
                              m.via_attr ? " (attr)" : ""),
                      c.detail + " hex=" + vh::hexdump(std::string(reinterpret_cast<const char*>(data), psize), 400));
        return false;
    }
    m.bytes.assign(reinterpret_cast<const char*>(data), psize);
    for (const auto& r : m.mask) for (uint32_t i = r.first; i < r.second; ++i) m.bytes[i] = 0;
    return true;
}

// ------------------------------------------------------------------ executor

enum Mode { M_REF, M_NO, M_YES, M_INT, M_CB };
const char* MODEN[] = {"reference", "auto_grow=no", "auto_grow=yes", "auto_grow=internal", "CallbackBuffer"};

struct MI { const MObj* o; bool removed; };

constexpr size_t REF_CAP = 1024UL * 1024UL;
uchar* ref_mem = nullptr;
size_t ref_dirty = 0;

struct PurgeRec {
    std::vector<std::pair<size_t, size_t>> moves;
    void moving_in_buffer(size_t o, size_t n) { moves.emplace_back(o, n); }
};

class Exec {
    History& h;
    const Mode mode;
    const size_t cap0;
    bool external = false;
    uchar* ext = nullptr;
    std::unique_ptr<Buffer> own;
    std::unique_ptr<osmium::memory::CallbackBuffer> cbuf;
    Buffer* cur = nullptr;
    std::vector<std::unique_ptr<Buffer>> delivered;
    size_t delivered_bytes = 0;
    size_t n_delivered = 0;      // model items that live in delivered buffers (valid after sync_base)
    std::vector<MI> committed, pending;
    size_t model_unc = 0;        // written - committed the model expects
    size_t expect_cap = 0;       // M_NO: capacity the documentation implies
    bool cb_set = false;
    size_t cb_max = 0;
    bool failed = false;
    bool blind = false;
    size_t desc_len = 0;
    size_t opi = 0;
    std::vector<std::pair<uint32_t, uint8_t>> growths;
    std::vector<Buffer> cb_inbox;

    // open builders
    osmium::builder::NodeBuilder* nb = nullptr;
    osmium::builder::WayBuilder* wb = nullptr;
    osmium::builder::RelationBuilder* rb = nullptr;
    osmium::builder::AreaBuilder* ab = nullptr;
    osmium::builder::ChangesetBuilder* csb = nullptr;
    osmium::builder::TagListBuilder* tl = nullptr;
    osmium::builder::WayNodeListBuilder* wnl = nullptr;
    osmium::builder::OuterRingBuilder* orb = nullptr;
    osmium::builder::InnerRingBuilder* irb = nullptr;
    osmium::builder::RelationMemberListBuilder* rml = nullptr;
    osmium::builder::ChangesetDiscussionBuilder* cdb = nullptr;
    // reference run bookkeeping
    size_t obj_start = 0;
    int obj_open = -1;

    osmium::builder::Builder* topb() {
        if (nb) return nb;
        if (wb) return wb;
        if (rb) return rb;
        if (ab) return ab;
        if (csb) return csb;
        return nullptr;
    }
    void close_sub() {
        delete tl; tl = nullptr; delete wnl; wnl = nullptr; delete orb; orb = nullptr; delete irb; irb = nullptr;
        delete rml; rml = nullptr; delete cdb; cdb = nullptr;
    }
    void close_top() {
        delete nb; nb = nullptr; delete wb; wb = nullptr; delete rb; rb = nullptr; delete ab; ab = nullptr; delete csb; csb = nullptr;
    }

    std::string ctx() const {
        std::string g;
        for (size_t i = 0; i < growths.size() && i < 12; ++i) g += vh::fmt(" #%u:%s", growths[i].first, OPN[growths[i].second]);
        return vh::fmt("history=%" PRIu64 " %s initial_capacity=%zu op#%zu(%s) growth at:%s", h.index, MODEN[mode], cap0, opi,
                       opi < h.ops.size() ? OPN[h.ops[opi].code] : "end", g.c_str());
    }
    void viol(const std::string& key, const std::string& detail) {
        failed = true;
        vh::violation(key, ctx() + " | " + detail);
    }

    void set_desc_op() {
        char* d = vh::st().case_desc + desc_len;
        size_t room = sizeof(vh::st().case_desc) - desc_len;
        std::snprintf(d, room, "%zu(%s)", opi, opi < h.ops.size() ? OPN[h.ops[opi].code] : "end");
    }

    size_t committed_bytes_from(size_t first) const {
        size_t s = 0;
        for (size_t i = first; i < committed.size(); ++i) s += committed[i].o->bytes.size();
        return s;
    }
    void deliver(std::unique_ptr<Buffer> b) {
        delivered_bytes += b->committed();
        delivered.push_back(std::move(b));
    }

    // drain nested buffers (oldest first) and locate the model item boundary
    bool sync_base() {
        if (mode == M_INT) {
            while (cur->has_nested_buffers()) {
                vh::count("nested_buffers_drained");
                deliver(cur->get_last_nested());
            }
        }
        if (mode == M_INT || mode == M_CB) {
            size_t s = 0, k = 0;
            while (k < committed.size() && s < delivered_bytes) s += committed[k++].o->bytes.size();
            if (s != delivered_bytes) {
                viol(vh::fmt("%s: nested/delivered buffers do not end at an item boundary of the model", MODEN[mode]),
                     vh::fmt("delivered bytes=%zu model boundary=%zu", delivered_bytes, s));
                return false;
            }
            n_delivered = k;
            if (delivered_bytes + cur->committed() != committed_bytes_from(0)) {
                viol(vh::fmt("%s: sum of committed bytes differs from the model", MODEN[mode]),
                     vh::fmt("delivered=%zu current=%zu model=%zu", delivered_bytes, cur->committed(), committed_bytes_from(0)));
                return false;
            }
        }
        return true;
    }

    void apply_masks(std::string& s) const {
        size_t off = 0;
        for (const auto& it : committed) {
            for (const auto& r : it.o->mask) for (uint32_t i = r.first; i < r.second; ++i) s[off + i] = 0;
            off += it.o->bytes.size();
        }
    }

    // oracle a+b: visible committed stream == concatenation of the model items
    // `when` is part of the violation key: " after <operation>" if the stream was verified to be intact
    // right before that operation (drain=false pre-check), empty otherwise (damage done while building).
    bool verify(const char* when, bool drain = true) {
        if (failed) return false;
        if (!drain) {
            blind = mode == M_INT && cur->has_nested_buffers();   // the pre-check cannot see the nested buffers
        } else if (blind) {
            when = "";
            blind = false;
        }
        if (drain && !sync_base()) return false;
        std::string exp;
        for (const auto& it : committed) {
            const size_t pos = exp.size();
            exp += it.o->bytes;
            exp[pos + 6] = static_cast<char>((exp[pos + 6] & ~1) | (it.removed ? 1 : 0));
        }
        std::string act;
        for (const auto& b : delivered) act.append(reinterpret_cast<const char*>(b->data()), b->committed());
        if (!drain && mode == M_INT && act.size() + cur->committed() <= exp.size()) {
            // nested buffers stay where they are: their part of the stream is taken from the model
            act.append(exp, act.size(), exp.size() - cur->committed() - act.size());
        }
        act.append(reinterpret_cast<const char*>(cur->data()), cur->committed());
        if (act.size() != exp.size()) {
            viol(vh::fmt("%s: committed stream length differs from the model%s", MODEN[mode], when),
                 vh::fmt("actual %zu bytes, model %zu bytes (%zu items)", act.size(), exp.size(), committed.size()));
            return false;
        }
        apply_masks(act);
        if (act != exp) {
            size_t d = 0;
            while (act[d] == exp[d]) ++d;
            size_t off = 0, k = 0;
            while (k < committed.size() && off + committed[k].o->bytes.size() <= d) off += committed[k++].o->bytes.size();
            const MObj* o = committed[k].o;
            const char* by = "a copied item";
            for (const auto& r : o->ranges) if (d - off >= r.lo && d - off < r.hi) { by = OPN[r.code]; break; }
            viol(vh::fmt("%s: committed bytes differ from the reference image%s; first differing byte was reserved by %s", MODEN[mode], when, by),
                 vh::fmt("stream offset %zu = item %zu (%s) + %zu; expected 0x%02x got 0x%02x; item expected=%s got=%s", d, k, TOPN[o->kind], d - off,
                         static_cast<uchar>(exp[d]), static_cast<uchar>(act[d]),
                         vh::hexdump(exp.substr(off, o->bytes.size()), 160).c_str(), vh::hexdump(act.substr(off, o->bytes.size()), 160).c_str()));
            return false;
        }
        if (cur->written() - cur->committed() != model_unc) {
            viol(vh::fmt("%s: uncommitted byte count differs from the model%s", MODEN[mode], when),
                 vh::fmt("written-committed=%zu model=%zu", cur->written() - cur->committed(), model_unc));
            return false;
        }
        if (!drain) return true;
        // the library's own iteration over the real (grown) buffers
        size_t items = 0, objects = 0, want_objects = 0;
        auto walk = [&](const Buffer& b) {
            for (const auto& it : b.select<osmium::memory::Item>()) { (void)it; ++items; }
            for (const auto& ob : b.select<osmium::OSMObject>()) { (void)ob; ++objects; }
        };
        for (const auto& b : delivered) walk(*b);
        walk(*cur);
        for (const auto& it : committed) want_objects += it.o->kind <= T_AREA;
        if (items != committed.size() || objects != want_objects) {
            viol(vh::fmt("%s: item iteration count differs from the model%s", MODEN[mode], when),
                 vh::fmt("items %zu/%zu objects %zu/%zu", items, committed.size(), objects, want_objects));
            return false;
        }
        vh::count("image_comparisons");
        return true;
    }

    // reference run: newly committed region -> per item walker/accessor checks, byte capture
    bool capture(size_t from, size_t first_item) {
        size_t pos = from;
        for (size_t k = first_item; k < committed.size(); ++k) {
            auto* o = const_cast<MObj*>(committed[k].o);
            if (pos + 8 > cur->committed()) { viol("reference run: committed region does not tile into the items built", "short"); return false; }
            uint32_t size;
            std::memcpy(&size, cur->data() + pos, 4);
            const size_t psize = (size_t{size} + 7) & ~size_t{7};
            if (size < 8 || pos + psize > cur->committed()) {
                viol("reference run: committed region does not tile into the items built", vh::fmt("item %zu size %u at %zu", k, size, pos));
                return false;
            }
            if (o->bytes.empty()) {
                if (!check_and_capture(cur->data() + pos, psize, *o, "reference run")) { failed = true; return false; }
                vh::count("items_walked_and_compared");
            } else {
                std::string got(reinterpret_cast<const char*>(cur->data() + pos), psize);
                for (const auto& r : o->mask) for (uint32_t i = r.first; i < r.second; ++i) got[i] = 0;
                got[6] = static_cast<char>((got[6] & ~1) | (o->bytes[6] & 1));
                if (got != o->bytes) {
                    viol("reference run: copied item differs from its source", vh::fmt("item %zu (%s)", k, TOPN[o->kind]));
                    return false;
                }
            }
            pos += psize;
        }
        if (pos != cur->committed()) {
            viol("reference run: committed region does not tile into the items built", vh::fmt("end %zu committed %zu", pos, cur->committed()));
            return false;
        }
        return true;
    }

    void do_commit_model() {
        for (auto& p : pending) committed.push_back(p);
        pending.clear();
        model_unc = 0;
    }

    void cb_take() {
        for (auto& b : cb_inbox) deliver(std::make_unique<Buffer>(std::move(b)));
        cb_inbox.clear();
    }

    const MObj& obj(const Op& op) const { return h.objs[static_cast<size_t>(op.a)]; }

    // Does this action abort the process (library assertion)? Tried in a forked child so that this
    // process survives. Only used with assertions on, for the two situations in which an exception
    // documented for add_comment() unwinds through ~ChangesetDiscussionBuilder. The answer is
    // observed once per process and situation (an ASan fork is expensive) and then reused.
    template <typename F>
    static bool aborts_in_child(int& state, F&& action) {
        if (state != 0) return state == 1;
        const pid_t pid = ::fork();
        if (pid < 0) return false;
        if (pid == 0) {
            std::signal(SIGABRT, SIG_DFL);
            const int fd = ::open("/dev/null", O_WRONLY);
            if (fd >= 0) ::dup2(fd, 2);
            try { action(); } catch (...) {}
            ::_exit(0);
        }
        int status = 0;
        while (::waitpid(pid, &status, 0) < 0 && errno == EINTR) {}
        state = (WIFSIGNALED(status) && WTERMSIG(status) == SIGABRT) ? 1 : 2;
        vh::count("assert_probes_in_child");
        return state == 1;
    }

#ifndef NDEBUG
    // dry run of the calls add_changeset() makes, in a scratch buffer with `room` bytes: does the first
    // buffer_is_full come from add_comment() after it reserved the comment struct?
    static bool attr_changeset_fails_in_comment_user(const MObj& o, size_t room) {
        using namespace osmium::builder;
        auto* mem = static_cast<uchar*>(std::malloc(room + 8));
        auto* scratch = new Buffer{mem, room, 0};
        ChangesetBuilder* c = nullptr;
        TagListBuilder* t = nullptr;
        ChangesetDiscussionBuilder* d = nullptr;
        bool in_user = false;
        try {
            c = new ChangesetBuilder{*scratch};
            c->set_user(o.user.c_str());
            t = new TagListBuilder{*scratch, c};
            for (const auto& tag : o.subs[0].tags) t->add_tag(tag.k.c_str(), tag.v.c_str());
            delete t;
            t = nullptr;
            d = new ChangesetDiscussionBuilder{*scratch, c};
            for (const auto& cm : o.subs[1].comments) {
                const size_t w = scratch->written();
                try {
                    d->add_comment(osmium::Timestamp{cm.date}, cm.uid, cm.user.c_str());
                } catch (const osmium::buffer_is_full&) {
                    in_user = scratch->written() > w;
                    throw;
                }
                d->add_comment_text(cm.text.c_str());
            }
        } catch (const osmium::buffer_is_full&) {
        }
        if (in_user) return true;   // builders, buffer and memory are leaked on purpose (destroying them may abort)
        delete d;
        delete t;
        delete c;
        delete scratch;
        std::free(mem);
        return false;
    }
#endif

    void exec_attrs(const Op& op, const MObj& o);
    void exec_attr_obj(const Op& op, const MObj& o);
    void exec_builder_op(const Op& op);
    void exec_buffer_op(const Op& op);

public:
    Exec(History& hist, Mode m, size_t cap) : h(hist), mode(m), cap0(cap) {}
    ~Exec() {
        close_sub();
        close_top();
        own.reset();
        cbuf.reset();
        delivered.clear();
        std::free(ext);
    }
    bool run();
};

void Exec::exec_attrs(const Op& op, const MObj& o) {
    const osmium::Timestamp ts{o.ts};
    if (o.kind == T_CS) {
        if (op.variant == 0) {
            csb->set_id(static_cast<osmium::changeset_id_type>(o.id)).set_uid(o.uid).set_created_at(osmium::Timestamp{o.created})
                .set_closed_at(osmium::Timestamp{o.closed}).set_num_changes(o.num_changes).set_num_comments(o.num_comments)
                .set_removed(o.removed);
            csb->set_bounds(osmium::Box{osmium::Location{o.bx1, o.by1}, osmium::Location{o.bx2, o.by2}});
        } else {
            osmium::Changeset& c = csb->object();
            c.set_id(static_cast<osmium::changeset_id_type>(o.id));
            c.set_uid(o.uid);
            c.set_created_at(osmium::Timestamp{o.created});
            c.set_closed_at(osmium::Timestamp{o.closed});
            c.set_num_changes(o.num_changes);
            c.set_num_comments(o.num_comments);
            c.bounds() = osmium::Box{osmium::Location{o.bx1, o.by1}, osmium::Location{o.bx2, o.by2}};
            c.set_removed(o.removed);
        }
        return;
    }
    auto chain = [&](auto& b) {
        if (op.variant == 0) {
            b.set_id(o.id).set_version(o.version).set_visible(o.visible).set_timestamp(ts).set_uid(o.uid).set_changeset(o.cs).set_removed(o.removed);
        } else {
            auto& ob = b.object();
            ob.set_id(o.id);
            ob.set_version(o.version);
            ob.set_deleted(!o.visible);
            ob.set_timestamp(ts);
            ob.set_uid(o.uid);
            ob.set_changeset(o.cs);
            ob.set_removed(o.removed);
        }
    };
    switch (o.kind) {
        case T_NODE: chain(*nb); nb->set_location(osmium::Location{o.x, o.y}); break;
        case T_WAY: chain(*wb); break;
        case T_REL: chain(*rb); break;
        default: chain(*ab); break;
    }
}

void Exec::exec_attr_obj(const Op& op, const MObj& o) {
    using namespace osmium::builder::attr;
    std::vector<pair_of_cstrings> tags;
    for (const auto& t : o.subs[0].tags) tags.emplace_back(t.k.c_str(), t.v.c_str());
    const osmium::Timestamp ts{o.ts};
    auto nrs = [](const MSub& s) {
        std::vector<osmium::NodeRef> v;
        for (const auto& n : s.nodes) v.emplace_back(n.ref, osmium::Location{n.x, n.y});
        return v;
    };
    switch (o.kind) {
        case T_NODE:
            if (op.variant == 0 || tags.size() != 1) {
                osmium::builder::add_node(*cur, _id(o.id), _version(o.version), _visible(o.visible), _timestamp(ts), _uid(o.uid), _cid(o.cs),
                                          _location(osmium::Location{o.x, o.y}), _user(o.user.c_str()), _tags(tags));
            } else {
                osmium::builder::add_node(*cur, _user(o.user), _tag(tags[0].first, tags[0].second), _id(o.id), _version(o.version),
                                          _deleted(!o.visible), _timestamp(ts), _uid(o.uid), _cid(o.cs), _location(osmium::Location{o.x, o.y}));
            }
            break;
        case T_WAY:
            osmium::builder::add_way(*cur, _id(o.id), _version(o.version), _visible(o.visible), _timestamp(ts), _uid(o.uid), _cid(o.cs),
                                     _user(o.user.c_str()), _tags(tags), _nodes(nrs(o.subs[1])));
            break;
        case T_REL: {
            std::vector<member_type> ms;
            for (const auto& m : o.subs[1].members) ms.emplace_back(static_cast<osmium::item_type>(m.type), m.ref, m.role.c_str());
            osmium::builder::add_relation(*cur, _id(o.id), _version(o.version), _visible(o.visible), _timestamp(ts), _uid(o.uid), _cid(o.cs),
                                          _user(o.user.c_str()), _tags(tags), _members(ms));
            break;
        }
        case T_AREA:
            osmium::builder::add_area(*cur, _id(o.id), _version(o.version), _visible(o.visible), _timestamp(ts), _uid(o.uid), _cid(o.cs),
                                      _user(o.user.c_str()), _tags(tags), _outer_ring(nrs(o.subs[1])), _inner_ring(nrs(o.subs[2])));
            break;
        default: {
            std::vector<comment_type> cs;
            for (const auto& c : o.subs[1].comments) cs.emplace_back(osmium::Timestamp{c.date}, c.uid, c.user.c_str(), c.text.c_str());
            osmium::builder::add_changeset(*cur, _cid(static_cast<osmium::changeset_id_type>(o.id)), _uid(o.uid),
                                           _created_at(osmium::Timestamp{o.created}), _closed_at(osmium::Timestamp{o.closed}),
                                           _num_changes(o.num_changes), _num_comments(o.num_comments), _user(o.user.c_str()), _tags(tags),
                                           _comments(cs));
            break;
        }
    }
}

void Exec::exec_builder_op(const Op& op) {
    using namespace osmium::builder;
    const MObj& o = obj(op);
    switch (op.code) {
        case O_OPEN_OBJ:
            switch (o.kind) {
                case T_NODE: nb = new NodeBuilder{*cur}; break;
                case T_WAY: wb = new WayBuilder{*cur}; break;
                case T_REL: rb = new RelationBuilder{*cur}; break;
                case T_AREA: ab = new AreaBuilder{*cur}; break;
                case T_CS: csb = new ChangesetBuilder{*cur}; break;
                case T_LIST:
                    switch (o.subs[0].kind) {
                        case S_TAGS: tl = new TagListBuilder{*cur}; break;
                        case S_NODES: wnl = new WayNodeListBuilder{*cur}; break;
                        case S_OUTER: orb = new OuterRingBuilder{*cur}; break;
                        case S_INNER: irb = new InnerRingBuilder{*cur}; break;
                        case S_MEMBERS: rml = new RelationMemberListBuilder{*cur}; break;
                        case S_DISC: cdb = new ChangesetDiscussionBuilder{*cur}; break;
                    }
                    break;
            }
            break;
        case O_ATTRS:
            exec_attrs(op, o);
            break;
        case O_USER: {
            auto su = [&](auto& b) {
                if (op.variant == 0) b.set_user(o.user.c_str());
                else if (op.variant == 1) b.set_user(o.user.data(), static_cast<osmium::string_size_type>(o.user.size()));
                else b.set_user(o.user);
            };
            switch (o.kind) {
                case T_NODE: su(*nb); break;
                case T_WAY: su(*wb); break;
                case T_REL: su(*rb); break;
                case T_AREA: su(*ab); break;
                default: su(*csb); break;
            }
            break;
        }
        case O_INIT_FROM: {
            const auto& src = pool->buf->get<const osmium::OSMObject>(pool->off[static_cast<size_t>(o.init_from)]);
            ab->initialize_from_object(src);
            if (o.removed) ab->set_removed(true);
            break;
        }
        case O_OPEN_SUB: {
            Builder* parent = topb();
            const bool by_ref = op.variant == 1;
            switch (o.subs[static_cast<size_t>(op.b)].kind) {
                case S_TAGS: tl = by_ref ? new TagListBuilder{*parent} : new TagListBuilder{*cur, parent}; break;
                case S_NODES: wnl = by_ref ? new WayNodeListBuilder{*parent} : new WayNodeListBuilder{*cur, parent}; break;
                case S_OUTER: orb = by_ref ? new OuterRingBuilder{*parent} : new OuterRingBuilder{*cur, parent}; break;
                case S_INNER: irb = by_ref ? new InnerRingBuilder{*parent} : new InnerRingBuilder{*cur, parent}; break;
                case S_MEMBERS: rml = by_ref ? new RelationMemberListBuilder{*parent} : new RelationMemberListBuilder{*cur, parent}; break;
                case S_DISC: cdb = by_ref ? new ChangesetDiscussionBuilder{*parent} : new ChangesetDiscussionBuilder{*cur, parent}; break;
            }
            break;
        }
        case O_TAG: {
            const MTag& t = o.subs[static_cast<size_t>(op.b)].tags[static_cast<size_t>(op.c)];
            switch (op.variant) {
                case 0: tl->add_tag(t.k.c_str(), t.v.c_str()); break;
                case 1: tl->add_tag(t.k.data(), t.k.size(), t.v.data(), t.v.size()); break;
                case 2: tl->add_tag(t.k, t.v); break;
                default: tl->add_tag(std::pair<const char*, const char*>{t.k.c_str(), t.v.c_str()}); break;
            }
            break;
        }
        case O_NODEREF: {
            const MNR& n = o.subs[static_cast<size_t>(op.b)].nodes[static_cast<size_t>(op.c)];
            const osmium::Location loc{n.x, n.y};
            auto add = [&](auto& b) {
                if (op.variant == 0) b.add_node_ref(osmium::NodeRef{n.ref, loc}); else b.add_node_ref(n.ref, loc);
            };
            if (wnl) add(*wnl); else if (orb) add(*orb); else add(*irb);
            break;
        }
        case O_MEMBER: {
            const MMember& m = o.subs[static_cast<size_t>(op.b)].members[static_cast<size_t>(op.c)];
            const osmium::OSMObject* full = m.full >= 0 ? &pool->buf->get<const osmium::OSMObject>(pool->off[static_cast<size_t>(m.full)]) : nullptr;
            const auto type = static_cast<osmium::item_type>(m.type);
            switch (op.variant) {
                case 0: rml->add_member(type, m.ref, m.role.c_str(), full); break;
                case 1: rml->add_member(type, m.ref, m.role.data(), m.role.size(), full); break;
                default: rml->add_member(type, m.ref, m.role, full); break;
            }
            break;
        }
        case O_COMMENT: {
            const MComment& c = o.subs[static_cast<size_t>(op.b)].comments[static_cast<size_t>(op.c)];
            cdb->add_comment(osmium::Timestamp{c.date}, c.uid, c.user.c_str());
            break;
        }
        case O_COMMENT_TEXT: {
            const MComment& c = o.subs[static_cast<size_t>(op.b)].comments[static_cast<size_t>(op.c)];
            if (op.variant == 0) cdb->add_comment_text(c.text.c_str()); else cdb->add_comment_text(c.text);
            break;
        }
        case O_SUB_ITEM: {
            const int pi = o.subs[static_cast<size_t>(op.b)].pool;
            topb()->add_item(pool->list_buf->get<const osmium::memory::Item>(pool->list_off[static_cast<size_t>(pi)]));
            break;
        }
        case O_CLOSE_SUB:
            close_sub();
            break;
        case O_CLOSE_OBJ:
            close_sub();
            close_top();
            break;
        case O_ATTR_OBJ:
            exec_attr_obj(op, o);
            break;
        default:
            break;
    }
}

void Exec::exec_buffer_op(const Op& op) {
    switch (op.code) {
        case O_COMMIT: {
            const size_t before = cur->committed();
            const size_t r = cur->commit();
            if (r != before) viol(vh::fmt("%s: commit() does not return the previously committed size", MODEN[mode]), vh::fmt("returned %zu, was %zu", r, before));
            const size_t first = committed.size();
            do_commit_model();
            if (mode == M_REF) capture(before, first);
            break;
        }
        case O_ROLLBACK:
            cur->rollback();
            pending.clear();
            model_unc = 0;
            break;
        case O_CLEAR: {
            if (!verify("")) return;
            const size_t want = committed_bytes_from(n_delivered);
            const size_t r = cur->clear();
            if (r != want) { viol(vh::fmt("%s: clear() does not return the committed size", MODEN[mode]), vh::fmt("returned %zu, model %zu", r, want)); return; }
            committed.resize(n_delivered);
            pending.clear();
            model_unc = 0;
            if (cur->committed() != 0 || cur->written() != 0) { viol(vh::fmt("%s: buffer not empty after clear()", MODEN[mode]), ""); return; }
            vh::count("clear_ops");
            verify(" after clear");
            break;
        }
        case O_ADD_BUFFER: {
            const auto g = static_cast<size_t>(op.a);
            cur->add_buffer(*pool->group_bufs[g]);
            for (int pi : pool->groups[g]) pending.push_back(MI{&pool->objs[static_cast<size_t>(pi)], false});
            vh::count("add_buffer_ops");
            break;
        }
        case O_PUSH_BACK: {
            const size_t before = cur->committed();
            cur->push_back(pool->buf->get<const osmium::memory::Item>(pool->off[static_cast<size_t>(op.a)]));
            pending.push_back(MI{&pool->objs[static_cast<size_t>(op.a)], false});
            const size_t first = committed.size();
            do_commit_model();
            if (mode == M_REF) capture(before, first);
            vh::count("push_back_ops");
            break;
        }
        case O_BUF_ADD_ITEM: {
            const auto& src = pool->buf->get<const osmium::memory::Item>(pool->off[static_cast<size_t>(op.a)]);
            const osmium::memory::Item& r = cur->add_item(src);
            if (r.data() != cur->data() + cur->written() - src.padded_size()) viol(vh::fmt("%s: add_item() does not return the copied item", MODEN[mode]), "");
            pending.push_back(MI{&pool->objs[static_cast<size_t>(op.a)], false});
            vh::count("buffer_add_item_ops");
            break;
        }
        case O_SWAP: {
            if (mode == M_REF || mode == M_CB) break;
            if (!verify("", false)) return;
            const auto& src = pool->buf->get<const osmium::memory::Item>(pool->off[static_cast<size_t>(op.a)]);
            auto other = std::make_unique<Buffer>(64 + 8 * static_cast<size_t>(op.n),
                                                  mode == M_NO ? Buffer::auto_grow::yes : Buffer::auto_grow::no);
            // other holds one pool item and has the *opposite* growth mode, so a swap that forgets a field shows
            bool filled = false;
            try { other->push_back(src); filled = true; } catch (const osmium::buffer_is_full&) {}
            const size_t ow = cur->written(), oc = cur->committed(), ocap = cur->capacity();
            const uchar* od = cur->data();
            if (op.variant == 0) cur->swap(*other);
            else if (op.variant == 1) { using std::swap; swap(*cur, *other); }
            else std::swap(*cur, *other);
            if (other->written() != ow || other->committed() != oc || other->capacity() != ocap || other->data() != od) {
                viol(vh::fmt("%s: swap does not carry data/capacity/written/committed over", MODEN[mode]), "");
                return;
            }
            const size_t want = filled ? src.padded_size() : 0;
            if (cur->committed() != want || cur->written() != want ||
                (filled && std::memcmp(cur->data(), src.data(), want) != 0)) {
                viol(vh::fmt("%s: swap: the other buffer does not hold the swapped-in content", MODEN[mode]), "");
                return;
            }
            own = std::move(other);   // the history continues in the object that received the content
            cur = own.get();
            vh::count("swap_ops");
            verify(" after swap");
            break;
        }
        case O_MOVE_CTOR: {
            if (mode == M_REF || mode == M_CB) break;
            if (!verify("", false)) return;
            auto nbuf = std::make_unique<Buffer>(std::move(*cur));
            own = std::move(nbuf);
            cur = own.get();
            vh::count("move_ops");
            verify(" after move");
            break;
        }
        case O_MOVE_ASSIGN: {
            if (mode == M_REF || mode == M_CB) break;
            if (!verify("", false)) return;
            std::unique_ptr<Buffer> nbuf;
            if (op.variant == 0) {
                nbuf = std::make_unique<Buffer>();
            } else {
                nbuf = std::make_unique<Buffer>(256, mode == M_NO ? Buffer::auto_grow::yes : Buffer::auto_grow::no);
                try { nbuf->push_back(pool->buf->get<const osmium::memory::Item>(pool->off[static_cast<size_t>(op.a)])); } catch (const osmium::buffer_is_full&) {}
            }
            *nbuf = std::move(*cur);
            own = std::move(nbuf);
            cur = own.get();
            vh::count("move_ops");
            verify(" after move");
            break;
        }
        case O_SET_REMOVED: {
            if (!sync_base()) return;
            const size_t n = committed.size();
            if (n == 0) break;
            const size_t k = static_cast<size_t>(op.a) % n;
            // locate item k: in a delivered buffer or in the current one
            size_t off = 0;
            for (size_t i = 0; i < k; ++i) off += committed[i].o->bytes.size();
            Buffer* where = cur;
            if (k < n_delivered) {
                for (auto& b : delivered) { if (off < b->committed()) { where = b.get(); break; } off -= b->committed(); }
            } else {
                off -= delivered_bytes;
            }
            where->get<osmium::memory::Item>(off).set_removed(op.variant != 0);
            committed[k].removed = op.variant != 0;
            vh::count("set_removed_ops");
            break;
        }
        case O_PURGE: {
            if (!sync_base()) return;
            if (!pending.empty() || model_unc != 0) { vh::count("purge_skipped_pending"); break; }
            if (!verify("")) return;
            bool entities = true;
            for (size_t i = n_delivered; i < committed.size(); ++i) entities = entities && committed[i].o->kind != T_LIST;
            if (!entities) { vh::count("purge_skipped_non_entity"); break; }
            std::vector<std::pair<size_t, size_t>> want;
            std::vector<MI> kept(committed.begin(), committed.begin() + static_cast<std::ptrdiff_t>(n_delivered));
            size_t oldo = 0, newo = 0, removed = 0;
            for (size_t i = n_delivered; i < committed.size(); ++i) {
                const size_t sz = committed[i].o->bytes.size();
                if (!committed[i].removed) {
                    if (oldo != newo) want.emplace_back(oldo, newo);
                    newo += sz;
                    kept.push_back(committed[i]);
                } else {
                    ++removed;
                }
                oldo += sz;
            }
            PurgeRec rec;
            if (op.variant != 0) cur->purge_removed(&rec); else cur->purge_removed();
            committed = std::move(kept);
            if (op.variant != 0) {
                if (rec.moves != want) {
                    std::string d;
                    for (const auto& m : want) d += vh::fmt(" want(%zu->%zu)", m.first, m.second);
                    for (const auto& m : rec.moves) d += vh::fmt(" got(%zu->%zu)", m.first, m.second);
                    viol(vh::fmt("%s: purge_removed callback reports other (old,new) offsets than the model", MODEN[mode]), d);
                    return;
                }
                vh::count("purge_moves_checked", want.size());
            }
            vh::count("purge_ops");
            vh::count("purge_items_removed", removed);
            if (mode == M_REF && (cur->committed() != newo)) { viol("reference run: committed size after purge differs from the model", ""); return; }
            verify(" after purge_removed");
            break;
        }
        case O_GROW: {
            if (mode == M_REF) break;
            const size_t before = cur->capacity();
            const size_t size = static_cast<size_t>(static_cast<int64_t>(before) + op.n);
            if (external) {
                bool thrown = false;
                try { cur->grow(size); } catch (const std::logic_error&) { thrown = true; }
                if (!thrown) viol("auto_grow=no: grow() on external memory does not throw std::logic_error", "");
                vh::count("grow_external_refused");
                break;
            }
            cur->grow(size);
            const size_t want = size <= before ? before : ((size + 7) & ~size_t{7});
            if (cur->capacity() != want) { viol(vh::fmt("%s: capacity after grow() differs from the documented one", MODEN[mode]), vh::fmt("grow(%zu) on %zu -> %zu", size, before, cur->capacity())); return; }
            expect_cap = want;
            vh::count("grow_ops");
            break;
        }
        case O_DRAIN:
            if (mode == M_INT) sync_base();
            break;
        case O_CB_SETCB:
            if (mode != M_CB) break;
            if (op.variant) cbuf->set_callback([this](Buffer&& b) { cb_inbox.push_back(std::move(b)); });
            else cbuf->set_callback();
            cb_set = op.variant != 0;
            break;
        case O_CB_POSSIBLY: case O_CB_FLUSH: case O_CB_READ: {
            if (mode != M_CB) break;
            if (!pending.empty() || model_unc != 0) break;
            if (!verify("")) return;
            const size_t have = cur->committed();
            bool want_delivery;
            if (op.code == O_CB_POSSIBLY) { cbuf->possibly_flush(); want_delivery = cb_set && have > cb_max; }
            else if (op.code == O_CB_FLUSH) { cbuf->flush(); want_delivery = cb_set && have > 0; }
            else { cb_inbox.push_back(cbuf->read()); want_delivery = true; }
            if ((cb_inbox.size() == 1) != want_delivery || cb_inbox.size() > 1) {
                viol(vh::fmt("CallbackBuffer: %s delivered a buffer when it must not, or did not when it must", OPN[op.code]),
                     vh::fmt("committed=%zu max=%zu callback=%d delivered=%zu", have, cb_max, cb_set, cb_inbox.size()));
                return;
            }
            if (want_delivery) {
                if (cb_inbox[0].committed() != have) { viol("CallbackBuffer: delivered buffer has another committed size than the internal buffer had", ""); return; }
                cb_take();
                cur = &cbuf->buffer();
                if (cur->committed() != 0 || cur->written() != 0 || !*cur) { viol("CallbackBuffer: internal buffer not empty after delivery", ""); return; }
                vh::count("cb_deliveries");
                verify(" after CallbackBuffer delivery");
            } else {
                vh::count("cb_no_delivery");
            }
            break;
        }
        default:
            break;
    }
}

bool Exec::run() {
    switch (mode) {
        case M_REF:
            std::memset(ref_mem, 0, std::min(REF_CAP, ref_dirty + 64));
            own = std::make_unique<Buffer>(ref_mem, REF_CAP, 0);
            break;
        case M_NO:
            external = ((cap0 / 8 + h.index) % 2) == 1;
            if (external) {
                ext = static_cast<uchar*>(std::malloc(cap0));
                own = std::make_unique<Buffer>(ext, cap0, 0);
            } else {
                own = std::make_unique<Buffer>(cap0, Buffer::auto_grow::no);
            }
            break;
        case M_YES: own = std::make_unique<Buffer>(cap0, Buffer::auto_grow::yes); break;
        case M_INT: own = std::make_unique<Buffer>(cap0, Buffer::auto_grow::internal); break;
        case M_CB:
            cb_max = (cap0 * 3 / 4) & ~size_t{7};
            cbuf = std::make_unique<osmium::memory::CallbackBuffer>(cap0, cb_max);
            break;
    }
    cur = mode == M_CB ? &cbuf->buffer() : own.get();
    expect_cap = cur->capacity();
    vh::set_case_desc("history=%" PRIu64 " %s%s initial_capacity=%zu op#", h.index, MODEN[mode], external ? "(external memory)" : "", cap0);
    desc_len = std::strlen(vh::st().case_desc);
    if (mode == M_REF) {
        h.delta.assign(h.ops.size(), 0);
        h.peak = 0;
    }
    for (opi = 0; opi < h.ops.size() && !failed; ++opi) {
        const Op& op = h.ops[opi];
        set_desc_op();
        const bool is_builder = op.code <= O_ATTR_OBJ;
        const bool adds = is_builder || op.code == O_ADD_BUFFER || op.code == O_PUSH_BACK || op.code == O_BUF_ADD_ITEM;
        const bool commits = op.code == O_PUSH_BACK || op.code == O_ATTR_OBJ;
        const uchar* d0 = cur->data();
        const size_t c0 = cur->capacity();
        const size_t w0 = cur->written();
        const size_t cm0 = cur->committed();
        const size_t unc0 = w0 - cm0;
        if (mode == M_REF && (op.code == O_OPEN_OBJ || op.code == O_ATTR_OBJ)) {
            obj_start = w0;
            obj_open = op.a;
        }
        const bool predicted_full = mode == M_NO && adds && (w0 + h.delta[opi] > cur->capacity());
        bool thrown = false;
#ifndef NDEBUG
        // add_changeset(buffer, ..., _comments(...)) into a buffer that is too small: if buffer_is_full is thrown
        // by add_comment() after the comment struct was reserved, it unwinds through ~ChangesetDiscussionBuilder
        // inside the library. Whether this is the situation is found out by a dry run of the same builder calls
        // on a scratch buffer with the same room; what then happens is observed once per process in a forked
        // child. If that aborted, such calls are reported and not executed in this process.
        static int state_attr = 0;
        if (predicted_full && op.code == O_ATTR_OBJ && obj(op).kind == T_CS && !obj(op).subs[1].comments.empty() &&
            attr_changeset_fails_in_comment_user(obj(op), cur->capacity() - w0) &&
            aborts_in_child(state_attr, [&]() { exec_builder_op(op); })) {
            viol("assertions on: add_changeset(..., _comments()) aborts (assert !m_comment in ~ChangesetDiscussionBuilder) instead of throwing buffer_is_full",
                 "observed in a forked child; anywhere else it would be reported as a crash");
            break;
        }
#endif
        try {
            if (is_builder) exec_builder_op(op); else exec_buffer_op(op);
        } catch (const osmium::buffer_is_full&) {
            thrown = true;
        } catch (const std::exception& e) {
            viol(vh::fmt("%s: unexpected exception from %s: %s", MODEN[mode], OPN[op.code], e.what()), "");
        }
        if (failed) break;
        if (thrown) {
            if (mode != M_NO) { viol(vh::fmt("%s: buffer_is_full thrown by %s", MODEN[mode], OPN[op.code]), ""); break; }
            if (!predicted_full) {
                viol(vh::fmt("auto_grow=no: buffer_is_full thrown by %s although the data fits", OPN[op.code]),
                     vh::fmt("written=%zu needs=%u capacity=%zu", w0, h.delta[opi], cur->capacity()));
                break;
            }
            vh::count("buffer_is_full_as_predicted");
            vh::cover("buffer_is_full_at", OPN[op.code]);
            if (is_builder) {
#ifndef NDEBUG
                static int state_direct = 0;
                // only when the comment struct was already reserved (the user name did not fit): same situation every time
                if (op.code == O_COMMENT && cdb && cur->written() > w0 && aborts_in_child(state_direct, [&]() { delete cdb; })) {
                    // observed in a forked child: the unwinding aborts. Report it here (specific key) instead of
                    // dying, and abandon this execution: the builders and the buffer are leaked on purpose.
                    viol("assertions on: ~ChangesetDiscussionBuilder aborts (assert !m_comment) when the builder is destroyed after add_comment() threw",
                         "add_comment() threw osmium::buffer_is_full (documented); stack unwinding must destroy the builder");
                    cdb = nullptr; nb = nullptr; wb = nullptr; rb = nullptr; ab = nullptr; csb = nullptr;
                    (void)own.release();
                    break;
                }
#endif
                close_sub();
                close_top();
                cur->rollback();
                pending.clear();
                model_unc = 0;
                if (op.code != O_ATTR_OBJ) while (h.ops[opi].code != O_CLOSE_OBJ) ++opi;
                verify(" after buffer_is_full and rollback");
            } else if (cur->written() != w0 || cur->committed() != cm0) {
                viol(vh::fmt("auto_grow=no: written()/committed() changed by a refused %s", OPN[op.code]), "");
            }
            continue;
        }
        if (predicted_full) {
            viol(vh::fmt("auto_grow=no: no buffer_is_full from %s although the data does not fit", OPN[op.code]),
                 vh::fmt("written=%zu needs=%u capacity=%zu", w0, h.delta[opi], cur->capacity()));
            break;
        }
        if (mode == M_NO && cur->capacity() != expect_cap) {
            viol(vh::fmt("auto_grow=no: capacity changed by %s", OPN[op.code]), vh::fmt("%zu -> %zu", expect_cap, cur->capacity()));
            break;
        }
        if (adds) {
            if (mode == M_REF) {
                h.delta[opi] = static_cast<uint32_t>(cur->written() - w0);
                h.peak = std::max(h.peak, cur->written());
                if (is_builder && obj_open >= 0 && cur->written() > w0) {
                    h.objs[static_cast<size_t>(obj_open)].ranges.push_back(
                        OpRange{op.code, static_cast<uint32_t>(w0 - obj_start), static_cast<uint32_t>(cur->written() - obj_start)});
                }
            } else {
                const size_t want = commits ? 0 : unc0 + h.delta[opi];
                if (cur->written() - cur->committed() != want) {
                    viol(vh::fmt("%s: %s reserves another number of bytes than in the reference run", MODEN[mode], OPN[op.code]),
                         vh::fmt("written-committed=%zu expected %zu", cur->written() - cur->committed(), want));
                    break;
                }
                if (cur->data() != d0 || cur->capacity() != c0) {
                    growths.emplace_back(static_cast<uint32_t>(opi), op.code);
                    vh::count("growth_events");
                    vh::cover("growth_at", std::string(MODEN[mode]) + ": " + OPN[op.code] + (is_builder && op.code != O_ATTR_OBJ ? vh::fmt(" (%s)", TOPN[obj(op).kind]) : std::string{}));
                }
            }
            model_unc = commits ? 0 : model_unc + h.delta[opi];
            if (op.code == O_CLOSE_OBJ) {
                pending.push_back(MI{&obj(op), obj(op).removed});
                obj_open = -1;
            } else if (op.code == O_ATTR_OBJ) {
                pending.push_back(MI{&obj(op), false});
                const size_t first = committed.size();
                do_commit_model();
                if (mode == M_REF) capture(cm0, first);
                obj_open = -1;
            }
        }
        if (mode != M_REF && (op.code == O_COMMIT || commits)) {
            for (const auto& it : committed) {
                if (it.o->bytes.empty()) { viol("harness: item committed that the reference run never committed", ""); break; }
            }
        }
    }
    if (!failed) {
        if (topb() || tl || wnl || orb || irb || rml || cdb) viol("harness: builder still open at end of history", "");
        opi = h.ops.size();
        set_desc_op();
        verify("");
    }
    close_sub();
    close_top();
    if (mode == M_REF) {
        ref_dirty = std::max(h.peak, cur->written());
        h.ref_ok = !failed;
    }
    vh::evaluated(1);
    return !failed;
}

// ------------------------------------------------------------------ pool, cases, main

bool build_pool() {
    vh::Rng r{0xC04C04ULL, 0};
    auto p = std::make_unique<Pool>();
    History ho;
    ho.index = ~0ULL;
    static const TopKind K[] = {T_NODE, T_WAY, T_REL, T_NODE, T_WAY, T_REL, T_AREA, T_CS, T_NODE, T_WAY, T_REL, T_AREA, T_CS, T_NODE};
    ho.objs.reserve(sizeof(K) / sizeof(K[0]));
    for (TopKind k : K) ho.objs.push_back(gen_obj(r, k, true));
    for (size_t i = 0; i < ho.objs.size(); ++i) {
        compile_obj(r, ho, static_cast<int>(i));
        ho.ops.push_back(Op{O_COMMIT, 0, 0, 0, 0, 0});
    }
    History hl;
    hl.index = ~0ULL - 1;
    hl.entity_only = false;
    for (int i = 0; i < 4; ++i) {
        MObj o;
        o.kind = T_LIST;
        o.subs.push_back(gen_sub(r, S_TAGS, true));
        hl.objs.push_back(std::move(o));
    }
    for (size_t i = 0; i < hl.objs.size(); ++i) {
        compile_obj(r, hl, static_cast<int>(i));
        hl.ops.push_back(Op{O_COMMIT, 0, 0, 0, 0, 0});
    }
    { Exec e{ho, M_REF, REF_CAP}; if (!e.run()) return false; }
    { Exec e{hl, M_REF, REF_CAP}; if (!e.run()) return false; }
    auto fill = [](std::vector<MObj>& objs, std::vector<size_t>& off, std::unique_ptr<Buffer>& buf) {
        buf = std::make_unique<Buffer>(4096, Buffer::auto_grow::yes);
        for (const auto& o : objs) {
            off.push_back(buf->committed());
            std::memcpy(buf->reserve_space(o.bytes.size()), o.bytes.data(), o.bytes.size());
            buf->commit();
        }
    };
    p->objs = std::move(ho.objs);
    p->lists = std::move(hl.objs);
    fill(p->objs, p->off, p->buf);
    fill(p->lists, p->list_off, p->list_buf);
    for (size_t i = 0; i < p->objs.size(); ++i) {
        if (p->objs[i].kind <= T_REL) p->osmobjects.push_back(static_cast<int>(i));
        if (p->objs[i].kind == T_WAY || p->objs[i].kind == T_REL) p->way_or_rel.push_back(static_cast<int>(i));
    }
    for (int g = 0; g < 5; ++g) {
        std::vector<int> idx;
        const int n = g == 0 ? 1 : static_cast<int>(r.range(1, 4));
        auto b = std::make_unique<Buffer>(256, Buffer::auto_grow::yes);
        for (int i = 0; i < n; ++i) {
            const auto pi = static_cast<size_t>(r.below(p->objs.size()));
            idx.push_back(static_cast<int>(pi));
            const auto& o = p->objs[pi];
            std::memcpy(b->reserve_space(o.bytes.size()), o.bytes.data(), o.bytes.size());
            b->commit();
        }
        // every other source buffer also holds one complete but *uncommitted* object behind its
        // committed ones: add_buffer() is documented to add the committed contents only
        if (g % 2 == 1) {
            const auto& o = p->objs[static_cast<size_t>(r.below(p->objs.size()))];
            std::memcpy(b->reserve_space(o.bytes.size()), o.bytes.data(), o.bytes.size());
            vh::count("add_buffer_sources_with_uncommitted_tail");
        }
        p->groups.push_back(std::move(idx));
        p->group_bufs.push_back(std::move(b));
    }
    pool = p.release();
    return true;
}

uint64_t history_hash(const History& h) {
    uint64_t x = 0xcbf29ce484222325ULL;
    for (const auto& op : h.ops) {
        const int64_t v[6] = {op.code, op.variant, op.a, op.b, op.c, op.n};
        x = vh::fnv1a(v, sizeof(v), x);
    }
    for (const auto& o : h.objs) {
        x = vh::hash_u64(static_cast<uint64_t>(o.kind) * 31 + static_cast<uint64_t>(o.id), x);
        x = vh::hash_str(o.user, x);
        x = vh::hash_str(o.bytes, x);
    }
    return x;
}

std::string describe(const History& h) {
    std::string s = vh::fmt("history %" PRIu64 " (peak %zu bytes, %zu ops):", h.index, h.peak, h.ops.size());
    for (const auto& op : h.ops) {
        static const char* SH[] = {"open", "attrs", "user", "init_from", "open_sub", "tag", "noderef", "member", "comment", "text", "sub_item",
                                   "close_sub", "close", "attr_obj", "COMMIT", "ROLLBACK", "CLEAR", "ADD_BUFFER", "PUSH_BACK", "ADD_ITEM", "SWAP",
                                   "MOVE_CTOR", "MOVE_ASSIGN", "SET_REMOVED", "PURGE", "GROW", "DRAIN", "CB_POSSIBLY", "CB_FLUSH", "CB_READ", "CB_SETCB"};
        s += ' ';
        s += SH[op.code];
        if (op.code == O_OPEN_OBJ || op.code == O_ATTR_OBJ) s += vh::fmt("(%s)", TOPN[h.objs[static_cast<size_t>(op.a)].kind]);
        if (op.code == O_USER) s += vh::fmt("(%zu)", h.objs[static_cast<size_t>(op.a)].user.size());
    }
    return s;
}

void run_case(uint64_t index, vh::Rng&) {
    const uint64_t hist = index / 4;
    const unsigned part = static_cast<unsigned>(index % 4);
    if (!pool) { vh::violation("harness: pool construction failed", ""); return; }
    History h;
    h.index = hist;
    vh::Rng hr{vh::st().seed, hist};
    gen_history(hr, h);
    {
        Exec ref{h, M_REF, REF_CAP};
        ref.run();
    }
    if (!h.ref_ok) return;
    if (part == 0) {
        vh::distinct(history_hash(h));
        vh::count("histories");
        vh::count_max("max_history_peak_bytes", h.peak);
        if (hist < 3) vh::sample_str(describe(h));
        for (const auto& op : h.ops) {
            static const char* CN[] = {"ops_object_builders", "", "ops_set_user", "ops_initialize_from_object", "ops_sub_builders", "ops_add_tag",
                                       "ops_add_node_ref", "ops_add_member", "ops_add_comment", "", "ops_builder_add_item", "", "", "ops_attr_objects",
                                       "ops_commit", "ops_rollback"};
            if (op.code < sizeof(CN) / sizeof(CN[0]) && CN[op.code][0]) vh::count(CN[op.code]);
            if (op.code == O_OPEN_OBJ) vh::count(std::string("built_") + TOPN[h.objs[static_cast<size_t>(op.a)].kind]);
            if (op.code == O_MEMBER && h.objs[static_cast<size_t>(op.a)].subs[static_cast<size_t>(op.b)].members[static_cast<size_t>(op.c)].full >= 0) vh::count("ops_add_member_full");
        }
    }
    static const Mode PM[] = {M_NO, M_YES, M_INT, M_CB};
    static const char* PC[] = {"executions_no", "executions_yes", "executions_internal", "executions_callback_buffer"};
    const Mode mode = PM[part];
    size_t ok = 0;
    for (size_t c = 64; c <= h.peak + 8; c += 8) {
        Exec e{h, mode, c};
        if (e.run()) ++ok;
        vh::heartbeat();
    }
    vh::count(PC[part], ok);
}

} // namespace

int main(int argc, char** argv) {
    vh::parse_args(argc, argv);
    ref_mem = static_cast<uchar*>(std::calloc(REF_CAP, 1));
    ref_dirty = 0;
    vh::set_case_desc("building the pool");
    if (!build_pool()) {
        // reported as a violation by build_pool's reference run
    }
    return vh::run_cases(argc, argv, 4, run_case);
}
