// C02 - readers decode every spec-conformant file, however it was encoded.
//
// An independent, specification-derived encoder per format (c02_enc_pbf.hpp,
// c02_enc_o5m.hpp, c02_enc_text.hpp; none of them looks at libosmium's
// writers) turns a model data set D into the bytes of a file, varying every
// free encoding choice under the case's Rng. The real osmium::io::Reader must
// then deliver exactly the objects the file describes. D itself is the oracle
// (restricted per format to what the format carries; the encoders return the
// restricted copy). In mode "cross" the same D is encoded in all four formats
// and the four read results must agree pairwise.
//
// modes (--mode):
//   pbf        random D x random PBF encoding
//   pbf_hdrlen enumerated BlobHeader lengths (tiny .. 65535) reached with indexdata padding
//   pbf_big    blocks/blobs up to the 32 MiB limit
//   o5m        random D x random o5m/o5c encoding
//   o5m_tiny   files of 7..~24 bytes, last dataset 1..12 bytes
//   o5m_wrap   more than 15000 table entries, references up to 15000 back
//   xml, opl   random D x random lexical choices
//   cross      one D in pbf + o5m/o5c + xml + opl, pairwise agreement, mostly tiny D
// option --via file reads through a scratch file instead of a memory buffer
// (with -DOSMIUM_VERIF_INPUT_BUFFER_SIZE=n the input then arrives in n-byte pieces).
//
// The (-I harness/common) "../" includes make the build cache hash these headers.

#include "io_util.hpp"
#include "pb.hpp"
#include "../c02_enc_pbf.hpp"
#include "../c02_enc_o5m.hpp"
#include "../c02_enc_text.hpp"

#include <algorithm>
#include <unordered_map>

namespace {

using mdl::Obj;
using mdl::UNDEF;

std::string g_dir;
bool g_via_file = false;
osmium::thread::Pool* g_pool = nullptr;

// stable class of an error message: numbers replaced by N
std::string msg_class(const std::string& m) {
    std::string out;
    size_t i = 0;
    while (i < m.size()) {
        if (m[i] >= '0' && m[i] <= '9') {
            size_t j = i;
            while (j < m.size() && m[j] >= '0' && m[j] <= '9') ++j;
            out += 'N';
            i = j;
        } else {
            out += m[i++];
        }
    }
    if (out.size() > 90) out.resize(90);
    return out;
}

iou::ReadResult read_bytes(const std::string& bytes, const std::string& fmt) {
    if (g_via_file) {
        const std::string path = g_dir + "/f." + fmt;
        iou::spit(path, bytes);
        osmium::io::File f{path, fmt};
        iou::ReadResult r = iou::read_all(f, osmium::osm_entity_bits::all, *g_pool);
        ::unlink(path.c_str());
        return r;
    }
    osmium::io::File f{bytes.data(), bytes.size(), fmt};
    return iou::read_all(f, osmium::osm_entity_bits::all, *g_pool);
}

struct Decoded {
    std::string name;            // format name used in keys: pbf, o5m, o5c, xml, xml(osmChange), opl
    bool ok = false;             // the reader accepted the file
    bool matched = false;        // ... and delivered exactly the expected objects
    std::vector<Obj> objs;
};

// Compares what the Reader delivers for `bytes` with `expect`. `ctx` is a
// stable suffix describing the class of file (mode), `obj_ctx` (optional) the
// stable encoding context of each object. Returns the read result.
Decoded check_file(const std::string& name, const std::string& fmt, const std::string& bytes, const std::vector<Obj>& expect,
                   const std::vector<char>* loc_free, const mdl::Header* hexp, const std::string& ctx,
                   const std::vector<std::string>* obj_ctx, const std::string& desc, const std::string& hdr_ctx = "") {
    Decoded d;
    d.name = name;
    vh::evaluated();
    vh::distinct(vh::hash_str(bytes));
    vh::count("files_" + name);
    vh::count_max("max_file_bytes_" + name, bytes.size());
    iou::ReadResult r = read_bytes(bytes, fmt);
    const std::string witness = desc + " | file (" + std::to_string(bytes.size()) + " bytes) " + vh::hexdump(bytes, 160);
    if (!r.ok) {
        // a rejection that names the BlobHeader is classified by the BlobHeader lengths in the file
        const std::string hc = r.error.find("BlobHeader") != std::string::npos ? hdr_ctx : std::string();
        // o5m files of the special classes (tiny / short final dataset / wrap-around): one key per class,
        // whatever the symptom - a parser that works on stale input fails in many ways
        if (name == "o5m" && !ctx.empty()) vh::violation("o5m: reader rejects a spec-conformant file or loses objects" + ctx, r.error_type + ": " + r.error + " | " + witness);
        else vh::violation(name + ": reader rejects a spec-conformant file" + (hc.empty() ? ctx : hc) + ": " + r.error_type + ": " + msg_class(r.error), r.error + " | " + witness);
        return d;
    }
    d.ok = true;
    d.objs = std::move(r.objs);
    vh::count("files_decoded");
    if (hexp) {
        if (r.header.generator != hexp->generator)
            vh::violation(name + ": header generator decoded wrongly" + ctx, "expected " + mdl::show(hexp->generator) + " got " + mdl::show(r.header.generator) + " | " + witness);
        if (r.header.boxes.size() != hexp->boxes.size()) {
            vh::violation(name + ": number of header bounding boxes differs" + ctx, vh::fmt("expected %zu got %zu | ", hexp->boxes.size(), r.header.boxes.size()) + witness);
        } else {
            for (size_t i = 0; i < hexp->boxes.size(); ++i) {
                const auto &a = hexp->boxes[i], &b = r.header.boxes[i];
                if (a.x1 != b.x1 || a.y1 != b.y1 || a.x2 != b.x2 || a.y2 != b.y2)
                    vh::violation(name + ": header bounding box decoded wrongly" + ctx, vh::fmt("expected (%d,%d,%d,%d) got (%d,%d,%d,%d) | ", a.x1, a.y1, a.x2, a.y2, b.x1, b.y1, b.x2, b.y2) + witness);
                vh::count("header_boxes_compared");
            }
        }
    }
    if (d.objs.size() != expect.size()) {
        vh::violation((name == "o5m" && !ctx.empty() ? std::string("o5m: reader rejects a spec-conformant file or loses objects") : name + ": number of decoded objects differs") + ctx,
                      vh::fmt("file describes %zu objects, reader delivered %zu | ", expect.size(), d.objs.size()) + witness);
        return d;
    }
    for (size_t i = 0; i < expect.size(); ++i) {
        Obj e = expect[i];
        if (loc_free && (*loc_free)[i]) { e.x = d.objs[i].x; e.y = d.objs[i].y; vh::count("deleted_node_location_not_judged"); }
        std::string detail;
        const std::string f = mdl::diff(e, d.objs[i], &detail);
        if (!f.empty()) {
            // key = format + field (+ the encoding context that matters for this field)
            // (the file-class suffix `ctx` is only used for rejections and wrong object counts)
            std::string key = name + ": " + std::string(1, "nwrc"[e.type]) + "." + f + " decoded wrongly";
            if (obj_ctx && (f == "x" || f == "y" || f == "node_ref.location")) key += " [" + (*obj_ctx)[i].substr(0, (*obj_ctx)[i].find(" date_")) + "]";
            if (obj_ctx && f == "timestamp") key += " [" + (*obj_ctx)[i].substr((*obj_ctx)[i].find("date_")) + "]";
            if (name == "o5m" && f == "user" && e.uid == 0) key = "o5m: user name of an object with uid 0 decoded wrongly";
            vh::violation(key, detail + " | object " + std::to_string(i) + ": " + mdl::brief(expect[i]) + " | " + witness);
            return d;
        }
    }
    vh::count("objects_compared", expect.size());
    d.matched = true;
    return d;
}

mdl::Header gen_small_header(vh::Rng& rng, mdl::Charset cs) {
    mdl::Header h = mdl::gen_header(rng, cs);
    if (h.boxes.size() > 1) h.boxes.resize(1);
    if (rng.chance(1, 4)) h.generator.clear();
    return h;
}

size_t gen_count(vh::Rng& rng) {
    switch (rng.below(10)) {
        case 0: return 0;
        case 1: return 1;
        case 2: return vh::thorough() ? 200 + rng.below(1500) : 100 + rng.below(300);
        default: return 2 + rng.below(30);
    }
}

// data sets need not be sorted by type: interleave sometimes
void maybe_interleave(vh::Rng& rng, std::vector<Obj>& D) {
    if (rng.chance(1, 4)) rng.shuffle(D);
}

// ------------------------------------------------------------------ PBF

void report_pbf_coverage(const c02::PbfResult& p) {
    if (p.any_dense) vh::count("pbf_files_with_dense_nodes");
    if (p.any_plain) vh::count("pbf_files_with_plain_nodes");
    if (p.history) vh::count("pbf_files_with_historical_information");
    if (p.low) vh::count("pbf_files_with_locations_on_ways");
    if (p.dropped_meta) vh::count("pbf_files_with_absent_info_fields");
    if (p.nondefault_gran) vh::count("pbf_files_with_nondefault_granularity");
    if (p.nonzero_offset) vh::count("pbf_files_with_latlon_offset");
    if (p.nondefault_dategran) vh::count("pbf_files_with_nondefault_date_granularity");
    if (p.unknown_fields) vh::count("pbf_unknown_fields", p.unknown_fields);
    if (p.permuted) vh::count("pbf_files_with_permuted_fields");
    if (p.empty_groups) vh::count("pbf_empty_groups", p.empty_groups);
    if (p.empty_blocks) vh::count("pbf_blocks_without_groups", p.empty_blocks);
    vh::count("pbf_blocks", p.blocks);
    vh::count_max("max_pbf_uncompressed_block_bytes", p.max_raw);
    for (size_t n : p.blob_header_lens) {
        vh::count_max("max_pbf_blob_header_bytes", n);
        if (((n >> 8) & 0xff) >= 0x80) vh::count("pbf_blob_headers_high_length_byte_ge_0x80");
        if ((n & 0xff) >= 0x80) vh::count("pbf_blob_headers_low_length_byte_ge_0x80");
    }
}

// framing self-check with the independent framing parser (harness sanity, not a verdict on the library)
bool pbf_selfcheck(const c02::PbfResult& p) {
    const pb::FrameStats fs = pb::check_framing(p.bytes);
    if (!fs.error.empty()) { vh::violation("harness: c02 PBF encoder produced a file outside the format limits: " + fs.error_class, fs.error + " | " + p.desc); return false; }
    return true;
}

std::string header_len_class(const std::vector<size_t>& lens) {
    for (size_t n : lens) if ((n & 0xff) >= 0x80 || ((n >> 8) & 0xff) >= 0x80) return " [a BlobHeader whose 4-byte length contains a byte >= 0x80]";
    return "";
}

mdl::GenOpts pbf_genopts(vh::Rng& rng) {
    mdl::GenOpts go;
    go.history = rng.chance(1, 3);
    return go;
}

void case_pbf(uint64_t idx, vh::Rng& rng) {
    mdl::GenOpts go = pbf_genopts(rng);
    std::vector<Obj> D = mdl::gen_dataset(rng, go, gen_count(rng));
    maybe_interleave(rng, D);
    c02::fit_refs(D);
    const mdl::Header H = gen_small_header(rng, mdl::Charset::any_utf8);
    c02::PbfCfg cfg;
    c02::PbfEncoder enc{rng, cfg};
    const c02::PbfResult p = enc.encode(D, H);
    vh::set_case_desc("%s", p.desc.c_str());
    if (!pbf_selfcheck(p)) return;
    report_pbf_coverage(p);
    check_file("pbf", "pbf", p.bytes, p.expect, &p.loc_free, &p.hexp, "", &p.obj_ctx, p.desc, header_len_class(p.blob_header_lens));
    if (idx % 101 == 0) vh::sample_str(p.desc);
}

// BlobHeader length sweep: case index -> length
std::vector<int64_t> g_hdr_lens;

void build_hdr_lens() {
    if (vh::thorough()) {
        for (int64_t n = 11; n <= 65535; ++n) g_hdr_lens.push_back(n);
        return;
    }
    std::set<int64_t> s;
    for (int64_t n = 11; n <= 600; ++n) s.insert(n);
    for (int64_t hi = 0; hi <= 0xff; ++hi) for (int64_t lo : {0x00, 0x01, 0x7f, 0x80, 0x81, 0xff}) { const int64_t n = hi * 256 + lo; if (n >= 11) s.insert(n); }
    g_hdr_lens.assign(s.begin(), s.end());
}

void case_pbf_hdrlen(uint64_t idx, vh::Rng& rng) {
    const int64_t len = g_hdr_lens[idx % g_hdr_lens.size()];
    mdl::GenOpts go;
    go.max_string = 20;
    std::vector<Obj> D = mdl::gen_dataset(rng, go, rng.below(6));
    c02::fit_refs(D);
    mdl::Header H;
    H.generator = "c02";
    c02::PbfCfg cfg;
    cfg.plain_style = true;
    const int where = static_cast<int>(rng.below(3));   // header blob, data blobs, both
    if (where != 1) cfg.hdr_len[0] = std::max<int64_t>(len, 13);
    if (where != 0) cfg.hdr_len[1] = len;
    if (D.empty()) cfg.hdr_len[0] = std::max<int64_t>(len, 13);
    c02::PbfEncoder enc{rng, cfg};
    const c02::PbfResult p = enc.encode(D, H);
    vh::set_case_desc("BlobHeader length %" PRId64 " (0x%04" PRIx64 ") in %s | %s", len, static_cast<uint64_t>(len), where == 0 ? "header blob" : where == 1 ? "data blobs" : "all blobs", p.desc.c_str());
    if (!pbf_selfcheck(p)) return;
    report_pbf_coverage(p);
    bool hit = false;
    for (size_t n : p.blob_header_lens) if (static_cast<int64_t>(n) == len) hit = true;
    if (hit) vh::count("pbf_blob_header_lengths_swept"); else vh::count("pbf_blob_header_length_not_reachable");
    const std::string desc = vh::fmt("BlobHeader lengths:") + [&] { std::string s; for (size_t n : p.blob_header_lens) s += " " + std::to_string(n); return s; }() + " | " + p.desc;
    check_file("pbf", "pbf", p.bytes, p.expect, &p.loc_free, &p.hexp, "", &p.obj_ctx, desc, header_len_class(p.blob_header_lens));
    if (idx % 499 == 0) vh::sample_str(desc);
}

void case_pbf_big(uint64_t idx, vh::Rng& rng) {
    // uncompressed block sizes; the largest stays 64 bytes below 32 MiB so that the
    // Blob message (block + a few bytes of framing) is below the limit under every reading of it
    static const int64_t quick_sizes[] = {1 << 20, (4 << 20) + 1, (16 << 20) - 1};
    static const int64_t thorough_sizes[] = {(8 << 20) + 3, (16 << 20) - 1, 16 << 20, (16 << 20) + 1, 24 << 20, (32 << 20) - 4096, (32 << 20) - 64};
    const int64_t size = vh::thorough() ? thorough_sizes[idx % 7] : quick_sizes[idx % 3];
    mdl::GenOpts go;
    go.max_string = 30;
    std::vector<Obj> D = mdl::gen_dataset(rng, go, 1 + rng.below(vh::thorough() && idx % 5 == 0 ? 20000 : 50));
    c02::fit_refs(D);
    mdl::Header H;
    H.generator = "c02-big";
    c02::PbfCfg cfg;
    cfg.block_raw_size = size;
    cfg.filler_kind = static_cast<int>(idx % 2);
    cfg.force_compression = static_cast<int>((idx + idx / 3) % 3);
    cfg.index_data = 0;
    c02::PbfEncoder enc{rng, cfg};
    const c02::PbfResult p = enc.encode(D, H);
    const std::string desc = vh::fmt("first block %" PRId64 " bytes uncompressed, filler=%s, blob=%s | ", size, cfg.filler_kind ? "unused string table entries" : "unknown bytes field",
                                     cfg.force_compression == 0 ? "raw" : cfg.force_compression == 1 ? "zlib" : "lz4") + p.desc;
    vh::set_case_desc("%s", desc.c_str());
    if (!pbf_selfcheck(p)) return;
    report_pbf_coverage(p);
    if (p.padded_exact) vh::count("pbf_blocks_of_exact_requested_size");
    check_file("pbf", "pbf", p.bytes, p.expect, &p.loc_free, &p.hexp, " [block of several MiB]", &p.obj_ctx, desc, header_len_class(p.blob_header_lens));
    vh::sample_str(desc);
}

// ------------------------------------------------------------------ o5m

void report_o5m_coverage(const c02::O5mResult& r, const std::string& name) {
    vh::count("o5m_resets", r.resets);
    vh::count("o5m_forced_resets", r.forced_resets);
    vh::count("o5m_table_references", r.refs_used);
    vh::count("o5m_inline_strings", r.inline_strings);
    vh::count("o5m_extra_datasets", r.extra_datasets);
    vh::count("o5m_wrapped_coordinate_deltas", r.wrapped_coord_deltas);
    vh::count("o5c_deletes", r.deletes);
    vh::count_max("max_o5m_table_reference", r.max_ref);
    vh::count_max("max_o5m_strings_stored_in_one_file", r.stored_total);
    vh::count("o5m_references_to_table_entry_15000", r.refs_at_limit);
    if (!r.end_marker) vh::count("o5m_files_without_end_marker");
    if (r.last_dataset_bytes >= 1 && r.last_dataset_bytes <= 12) { vh::count("o5m_files_ending_in_dataset_of_1_to_12_bytes"); vh::cover("o5m_last_dataset_bytes", std::to_string(r.last_dataset_bytes)); }
    if (r.bytes.size() <= 24) { vh::count("o5m_files_of_at_most_24_bytes"); vh::cover("o5m_tiny_file_bytes", std::to_string(r.bytes.size())); }
    (void)name;
}

// files of the classes the property names explicitly get their own key suffix
std::string o5m_ctx(const c02::O5mResult& r) {
    if (r.bytes.size() <= 24) return " [file of at most 24 bytes]";
    if (r.last_dataset_bytes >= 1 && r.last_dataset_bytes <= 12) return " [file ending in a dataset of at most 12 bytes]";
    return "";
}

void case_o5m(uint64_t idx, vh::Rng& rng) {
    c02::O5mCfg cfg;
    cfg.o5c = rng.chance(1, 3);
    mdl::GenOpts go;
    go.history = cfg.o5c;
    if (rng.chance(1, 3)) go.max_string = 12;     // short strings: many table hits
    std::vector<Obj> D = mdl::gen_dataset(rng, go, gen_count(rng));
    if (rng.chance(1, 3)) {
        // repeated users / tags so that back-references occur
        std::vector<std::string> pool;
        for (int i = 0; i < 4; ++i) pool.push_back(mdl::gen_string(rng, go.charset, 20));
        for (auto& o : D) { if (rng.coin()) { o.user = rng.pick(pool); o.uid = 1 + static_cast<uint32_t>(rng.below(3)); } for (auto& t : o.tags) if (rng.coin()) { t.k = rng.pick(pool); t.v = rng.pick(pool); } for (auto& m : o.members) if (rng.coin()) m.role = rng.pick(pool); }
    }
    // string pairs exactly at the storage limit of the reference table (250 characters are stored,
    // 251 are not), each used several times so that later references depend on the table position
    const bool boundary_pairs = rng.chance(1, 5);
    if (boundary_pairs && !D.empty()) {
        for (size_t total : {size_t(249), size_t(250), size_t(251), size_t(252)}) {
            const size_t klen = 1 + rng.below(100);
            const mdl::Tag t{std::string(klen, static_cast<char>('a' + total % 26)), std::string(total - klen, 'v')};
            for (int rep = 0; rep < 3; ++rep) {
                Obj& o = D[rng.below(D.size())];
                if (o.visible) { o.tags.push_back(t); o.tags.push_back(mdl::Tag{"k" + std::to_string(rep), "after"}); }
            }
        }
        vh::count("o5m_files_with_pairs_at_the_250_character_limit");
    }
    maybe_interleave(rng, D);
    c02::fit_refs(D);
    c02::allow_boundary_pairs() = boundary_pairs;
    c02::fit_o5m(D, cfg.o5c);
    c02::allow_boundary_pairs() = false;
    const mdl::Header H = gen_small_header(rng, mdl::Charset::any_utf8);
    c02::O5mEncoder enc{rng, cfg};
    const c02::O5mResult r = enc.encode(D, H);
    vh::set_case_desc("%s", r.desc.c_str());
    const std::string name = cfg.o5c ? "o5c" : "o5m";
    report_o5m_coverage(r, name);
    check_file("o5m", name, r.bytes, D, nullptr, &r.hexp, o5m_ctx(r), nullptr, r.desc);
    if (idx % 101 == 0) vh::sample_str(r.desc);
}

// a tiny object: every field small so that datasets are 3..12 bytes long
Obj tiny_object(vh::Rng& rng, bool o5c) {
    Obj o;
    o.type = static_cast<int>(rng.below(3));
    o.id = rng.range(-70, 70);
    o.version = rng.chance(1, 2) ? 0 : static_cast<uint32_t>(rng.below(3));
    if (o.version && rng.coin()) { o.timestamp = static_cast<uint32_t>(rng.below(60)); if (o.timestamp) { o.changeset = static_cast<uint32_t>(rng.below(5)); if (rng.coin()) { o.uid = 1 + static_cast<uint32_t>(rng.below(9)); o.user = std::string(rng.below(3), 'u'); } } }
    if (o5c && rng.chance(1, 3)) { o.visible = false; return o; }
    if (o.type == mdl::NODE) { o.x = static_cast<int32_t>(rng.range(-60, 60)); o.y = static_cast<int32_t>(rng.range(-60, 60)); }
    if (o.type == mdl::WAY) for (size_t i = rng.below(3); i > 0; --i) o.nodes.push_back(mdl::NodeRef{rng.range(-60, 60), UNDEF, UNDEF});
    if (o.type == mdl::RELATION) for (size_t i = rng.below(2); i > 0; --i) o.members.push_back(mdl::Member{1 + static_cast<int>(rng.below(3)), rng.range(-60, 60), std::string(rng.below(2), 'r')});
    if (rng.chance(1, 4)) o.tags.push_back(mdl::Tag{std::string(rng.below(2), 'k'), std::string(rng.below(2), 'v')});
    return o;
}

void case_o5m_tiny(uint64_t idx, vh::Rng& rng) {
    c02::O5mCfg cfg;
    cfg.o5c = rng.chance(1, 3);
    cfg.plain_style = rng.chance(2, 3);
    cfg.end_marker = static_cast<int>(rng.below(2));
    cfg.trailing_extra = rng.chance(1, 5);   // e.g. an empty sync dataset (2 bytes) as the last dataset
    std::vector<Obj> D;
    const size_t n = rng.below(4);
    for (size_t i = 0; i < n; ++i) D.push_back(tiny_object(rng, cfg.o5c));
    if (idx % 3 == 0 && !D.empty()) {
        // a normal-sized file that *ends* in a tiny dataset
        mdl::GenOpts go;
        go.history = cfg.o5c;
        std::vector<Obj> big = mdl::gen_dataset(rng, go, 2 + rng.below(40));
        big.insert(big.end(), D.begin(), D.end());
        D.swap(big);
    }
    c02::fit_refs(D);
    c02::fit_o5m(D, cfg.o5c);
    mdl::Header H;
    c02::O5mEncoder enc{rng, cfg};
    const c02::O5mResult r = enc.encode(D, H);
    vh::set_case_desc("%s", r.desc.c_str());
    const std::string name = cfg.o5c ? "o5c" : "o5m";
    report_o5m_coverage(r, name);
    check_file("o5m", name, r.bytes, D, nullptr, &r.hexp, o5m_ctx(r), nullptr, r.desc);
    if (idx % 211 == 0) vh::sample_str(r.desc + " | " + vh::hexdump(r.bytes, 40));
}

void case_o5m_wrap(uint64_t idx, vh::Rng& rng) {
    c02::O5mCfg cfg;
    cfg.o5c = false;
    cfg.plain_style = true;     // no resets except at type changes: the table keeps filling
    cfg.ref_percent = 100;      // a pair that is still in the table is always referenced
    // More than 15000 distinct pairs, then pairs that were stored exactly 1, 2, 3, 14998 .. 15002
    // entries ago. With ref_percent 100 the encoder's table state is a function of the data, so the
    // generator can aim at exact reference numbers by simulating it (nodes without author
    // information store exactly one pair each, their tag).
    const size_t total = 15000 + rng.below(300) + 600 + rng.below(400);
    std::vector<Obj> D;
    std::vector<mdl::Tag> by_seq(1);
    std::unordered_map<std::string, uint64_t> last;
    uint64_t nstored = 0;
    auto content = [](const mdl::Tag& t) { std::string c = t.k; c += '\0'; c += t.v; c += '\0'; return c; };
    for (size_t i = 0; i < total; ++i) {
        Obj o;
        o.type = mdl::NODE;
        o.id = static_cast<int64_t>(i) + 1;
        o.x = static_cast<int32_t>(rng.range(-1800000000, 1800000000));
        o.y = static_cast<int32_t>(rng.range(-900000000, 900000000));
        mdl::Tag t{"k" + std::to_string(i), rng.coin() ? "v" : mdl::gen_string(rng, mdl::Charset::any_utf8, 30)};
        if (nstored >= 15002 && rng.coin()) {
            static const uint64_t dist[] = {1, 2, 3, 14998, 14999, 15000, 15000, 15000, 15001, 15002};
            const uint64_t s = nstored - rng.pick(dist) + 1;
            if (last[content(by_seq[s])] == s) t = by_seq[s];
        }
        const std::string c = content(t);
        const auto it = last.find(c);
        if (it == last.end() || nstored - it->second + 1 > 15000) { last[c] = ++nstored; by_seq.push_back(t); }
        o.tags.push_back(t);
        D.push_back(o);
    }
    c02::fit_o5m(D, false);
    mdl::Header H;
    c02::O5mEncoder enc{rng, cfg};
    const c02::O5mResult r = enc.encode(D, H);
    vh::set_case_desc("%s", r.desc.c_str());
    report_o5m_coverage(r, "o5m");
    if (r.stored_total != nstored) vh::violation("harness: c02 o5m wrap-around generator and encoder disagree about the table state", vh::fmt("%zu vs %" PRIu64, r.stored_total, nstored));
    if (r.stored_total > 15000) vh::count("o5m_files_with_table_wrap_around");
    check_file("o5m", "o5m", r.bytes, D, nullptr, &r.hexp, " [more than 15000 strings stored, table wrap-around]", nullptr, r.desc);
    vh::sample_str(r.desc);
    (void)idx;
}

// ------------------------------------------------------------------ XML / OPL

mdl::GenOpts text_genopts(vh::Rng& rng, bool xml) {
    mdl::GenOpts go;
    go.charset = xml ? mdl::Charset::xml_safe : mdl::Charset::any_utf8;
    go.valid_locations_only = true;
    go.history = rng.chance(1, 3);
    go.changeset_u32_max = !xml;      // 2^32-1 is rejected by the XML reader, pinned by a shipped unit test
    go.allow_changesets = true;
    go.allow_discussions = xml;
    return go;
}

void case_xml(uint64_t idx, vh::Rng& rng) {
    mdl::GenOpts go = text_genopts(rng, true);
    const bool changesets_only = rng.chance(1, 5);
    std::vector<Obj> D;
    if (changesets_only) { for (size_t n = gen_count(rng) % 40; n > 0; --n) D.push_back(mdl::gen_changeset(rng, go)); }
    else { go.allow_changesets = false; D = mdl::gen_dataset(rng, go, gen_count(rng)); maybe_interleave(rng, D); }
    c02::fit_refs(D);
    c02::fit_xml(D);
    const mdl::Header H = gen_small_header(rng, mdl::Charset::xml_safe);
    c02::XmlCfg cfg;
    c02::XmlEncoder enc{rng, cfg};
    const c02::XmlResult x = enc.encode(D, H, go.history);
    vh::set_case_desc("%s", x.desc.c_str());
    vh::count("xml_char_refs", x.char_refs);
    vh::count("xml_entities", x.entities);
    vh::count("xml_comments", x.comments);
    vh::count("xml_change_sections", x.sections);
    if (changesets_only) vh::count("xml_changeset_files");
    const std::string name = x.change ? "xml(osmChange)" : "xml";
    check_file(name, x.change ? "osc" : "osm", x.bytes, x.expect, nullptr, &x.hexp, "", nullptr, x.desc);
    if (idx % 101 == 0) vh::sample_str(x.desc + " | " + x.bytes.substr(0, 300));
}

void case_opl(uint64_t idx, vh::Rng& rng) {
    mdl::GenOpts go = text_genopts(rng, false);
    go.history = true;
    std::vector<Obj> D = mdl::gen_dataset(rng, go, gen_count(rng));
    maybe_interleave(rng, D);
    c02::fit_refs(D);
    c02::fit_opl(D);
    // ways whose node refs are partly located, partly not (located ones in front as well): state
    // must not be carried from one node ref to the next
    size_t mixed = 0;
    for (auto& o : D) if (o.type == mdl::WAY && o.nodes.size() >= 2 && rng.coin()) {
        bool any = false;
        for (size_t i = 1; i < o.nodes.size(); ++i) if (rng.chance(1, 3)) { o.nodes[i].x = UNDEF; o.nodes[i].y = UNDEF; any = true; }
        if (any) ++mixed;
    }
    vh::count("opl_ways_with_located_and_unlocated_node_refs", mixed);
    c02::OplEncoder enc{rng, false};
    const c02::OplResult r = enc.encode(D);
    vh::set_case_desc("%s", r.desc.c_str());
    vh::count("opl_escapes", r.escapes);
    vh::count("opl_redundant_escapes", r.redundant_escapes);
    vh::count("opl_raw_utf8_characters", r.raw_utf8);
    vh::count("opl_comment_lines", r.comment_lines);
    vh::count("opl_blank_lines", r.blank_lines);
    check_file("opl", "opl", r.bytes, r.expect, nullptr, nullptr, "", nullptr, r.desc);
    if (idx % 101 == 0) vh::sample_str(r.desc + " | " + r.bytes.substr(0, 300));
}

// ------------------------------------------------------------------ cross-format agreement

void case_cross(uint64_t idx, vh::Rng& rng) {
    const bool history = rng.chance(1, 3);
    mdl::GenOpts go;
    go.charset = mdl::Charset::xml_safe;
    go.valid_locations_only = true;
    go.history = history;
    go.changeset_u32_max = false;
    size_t n;
    switch (rng.below(6)) { case 0: n = 0; break; case 1: case 2: n = 1; break; case 3: n = 2; break; default: n = 3 + rng.below(25); break; }
    std::vector<Obj> D;
    if (n <= 2 && rng.coin()) { for (size_t i = 0; i < n; ++i) { Obj o = tiny_object(rng, history); if (o.type == mdl::NODE && o.visible && o.x == UNDEF) { o.x = 1; o.y = 2; } D.push_back(o); } }
    else D = mdl::gen_dataset(rng, go, n);
    c02::fit_refs(D);
    // the common domain of the four formats: PBF moves coordinates/timestamps onto exactly
    // representable values first, then the o5m restrictions (which only clear fields)
    mdl::Header H = gen_small_header(rng, mdl::Charset::xml_safe);
    H.generator.clear();   // o5m and OPL have none
    for (auto& o : D) for (auto& nd : o.nodes) { nd.x = UNDEF; nd.y = UNDEF; }
    c02::fit_xml(D);
    c02::fit_o5m(D, history);   // before the PBF encoder decides what to drop: it must see the final D
    c02::PbfCfg pcfg;
    pcfg.allow_drop_meta = false;
    pcfg.allow_low = false;
    pcfg.keep_valid = true;
    c02::PbfEncoder penc{rng, pcfg};
    // the PBF encoder may still move timestamps (date granularity) and coordinates: redo the o5m fit afterwards
    std::vector<Obj> D2 = D;
    c02::PbfResult p = penc.encode(D2, H);
    {
        std::vector<Obj> chk = D2;
        c02::fit_o5m(chk, history);
        bool same = true;
        for (size_t i = 0; i < chk.size(); ++i) if (!mdl::diff(chk[i], D2[i]).empty()) same = false;
        if (!same) {
            // a timestamp became 0: re-encode PBF from the re-fitted data with default parameters only
            D2 = chk;
            c02::PbfCfg q = pcfg;
            q.plain_style = true;
            c02::PbfEncoder penc2{rng, q};
            p = penc2.encode(D2, H);
            vh::count("cross_pbf_reencoded_plain");
        }
    }
    D = D2;
    if (!pbf_selfcheck(p)) return;
    c02::O5mCfg ocfg;
    ocfg.o5c = history;
    c02::O5mEncoder oenc{rng, ocfg};
    const c02::O5mResult o5 = oenc.encode(D, H);
    c02::XmlCfg xcfg;
    c02::XmlEncoder xenc{rng, xcfg};
    const c02::XmlResult x = xenc.encode(D, H, history);
    c02::OplEncoder lenc{rng, false};
    const c02::OplResult l = lenc.encode(D);
    vh::set_case_desc("cross: %zu objects history=%d | %s | %s | %s | %s", D.size(), history, p.desc.c_str(), o5.desc.c_str(), x.desc.c_str(), l.desc.c_str());
    report_o5m_coverage(o5, history ? "o5c" : "o5m");
    const std::string ctx;
    std::vector<Decoded> res;
    res.push_back(check_file("pbf", "pbf", p.bytes, p.expect, &p.loc_free, &p.hexp, ctx, &p.obj_ctx, p.desc, header_len_class(p.blob_header_lens)));
    res.push_back(check_file("o5m", history ? "o5c" : "o5m", o5.bytes, D, nullptr, &o5.hexp, o5m_ctx(o5).empty() ? ctx : o5m_ctx(o5), nullptr, o5.desc));
    res.push_back(check_file(x.change ? "xml(osmChange)" : "xml", x.change ? "osc" : "osm", x.bytes, x.expect, nullptr, &x.hexp, ctx, nullptr, x.desc));
    res.push_back(check_file("opl", "opl", l.bytes, l.expect, nullptr, nullptr, ctx, nullptr, l.desc));
    // Pairwise agreement of the readers. A reader that already deviates from the data set has
    // been reported above with its own key; its disagreement with the others is the same event.
    for (size_t a = 0; a < res.size(); ++a) for (size_t b = a + 1; b < res.size(); ++b) {
        if (!res[a].matched || !res[b].matched) { vh::count("reader_pairs_skipped_one_side_already_reported"); continue; }
        vh::count("reader_pairs_compared");
        const std::string pair = res[a].name + " vs " + res[b].name;
        if (res[a].objs.size() != res[b].objs.size()) {
            vh::violation("readers disagree on the number of objects: " + pair + ctx, vh::fmt("%zu vs %zu | %s", res[a].objs.size(), res[b].objs.size(), vh::st().case_desc));
            continue;
        }
        for (size_t i = 0; i < res[a].objs.size(); ++i) {
            std::string detail;
            const std::string f = mdl::diff(res[a].objs[i], res[b].objs[i], &detail);
            if (!f.empty()) { vh::violation("readers disagree on " + std::string(1, "nwrc"[res[a].objs[i].type]) + "." + f + ": " + pair + ctx, detail + " | object " + std::to_string(i) + " " + mdl::brief(D[i]) + " | " + vh::st().case_desc); break; }
        }
    }
    if (D.size() <= 2) { vh::count("cross_tiny_data_sets"); vh::cover("cross_tiny_file_bytes_opl", std::to_string(l.bytes.size())); vh::cover("cross_tiny_file_bytes_o5m", std::to_string(o5.bytes.size())); }
    if (idx % 101 == 0) vh::sample_str(vh::fmt("cross: %zu objects; sizes pbf=%zu o5m=%zu xml=%zu opl=%zu", D.size(), p.bytes.size(), o5.bytes.size(), x.bytes.size(), l.bytes.size()));
}

} // namespace

int main(int argc, char** argv) {
    vh::parse_args(argc, argv);
    g_dir = iou::scratch_dir("c02");
    g_via_file = vh::arg("via", "memory") == "file";
    g_pool = new osmium::thread::Pool{2, 20};
    vh::info("oracle: the data set handed to the harness's own spec-derived encoder, restricted to what the format carries (PBF: no changesets, way-node locations only with LocationsOnWays, absent Info fields come back as 0/empty/visible; o5m: no visible flag except o5c deletions, no way-node locations, version 0 => no timestamp, timestamp 0 => no changeset/uid/user, uid 0 => empty user, changesets < 2^31; XML: no way-node locations, visible nodes have a location; OPL: no discussions)");
    vh::info("not judged: location of deleted nodes in PBF (the schema requires lat/lon, a deleted node has none); has_multiple_object_versions and other header options besides bounding box and generator; the o5m file timestamp");
    vh::info("not generated: unpacked encoding of packed fields, missing required fields, unknown fileblock types (the spec says readers *should* skip them), o5m string pairs of 244..256 characters, o5m/PBF deltas that overflow int64, BlobHeader of 64 KiB or more, blocks within 64 bytes of 32 MiB, XML nd elements with lat/lon, OPL fields separated by anything but one space");
    const std::string mode = vh::arg("mode", "pbf");
    int rc;
    if (mode == "pbf") rc = vh::run_cases(argc, argv, 300, case_pbf);
    else if (mode == "pbf_hdrlen") { build_hdr_lens(); rc = vh::run_cases(argc, argv, g_hdr_lens.size(), case_pbf_hdrlen); }
    else if (mode == "pbf_big") rc = vh::run_cases(argc, argv, 3, case_pbf_big);
    else if (mode == "o5m") rc = vh::run_cases(argc, argv, 300, case_o5m);
    else if (mode == "o5m_tiny") rc = vh::run_cases(argc, argv, 300, case_o5m_tiny);
    else if (mode == "o5m_wrap") rc = vh::run_cases(argc, argv, 4, case_o5m_wrap);
    else if (mode == "xml") rc = vh::run_cases(argc, argv, 300, case_xml);
    else if (mode == "opl") rc = vh::run_cases(argc, argv, 300, case_opl);
    else if (mode == "cross") rc = vh::run_cases(argc, argv, 300, case_cross);
    else if (mode == "hdrlen_count") { build_hdr_lens(); std::printf("%zu\n", g_hdr_lens.size()); rc = 0; }
    else { std::fprintf(stderr, "unknown mode %s\n", mode.c_str()); rc = 2; }
    ::rmdir(g_dir.c_str());
    return rc;
}
