// C05 - the Reader delivers each selected object exactly once and in file order.
//
// case i: a multi-block file (PBF dense/plain, XML, OPL, o5m) with unique
// (type,id,version) triples is read under a seeded configuration: pool size
// 1..32, work/input/osmdata queue sizes, PBF parsing in pool threads on/off,
// buffers_type, one of the 16 entity masks, read_meta, file or memory input,
// fast or slow consumer - and under seeded schedule perturbation at the
// OSMIUM_VERIF hook points (queue push/pop/shutdown, pool task boundaries).
// Oracle: the generator's data set D filtered by the mask; O(n) comparison
// because the triples are unique. The binaries are built with small parser /
// PBF decoder buffers (hook H4) so that nested buffers occur.

#include "io_util.hpp"
#include "../c02_enc_o5m.hpp"

#include <osmium/io/input_iterator.hpp>

#include <atomic>
#include <cerrno>
#include <chrono>
#include <csignal>
#include <fcntl.h>
#include <sys/stat.h>
#include <thread>

namespace {

enum Fmt { F_PBF_DENSE, F_PBF_PLAIN, F_XML, F_OPL, F_O5M, F_NFMT };
const char* FMT_NAME[] = {"pbf(dense)", "pbf(plain)", "xml", "opl", "o5m"};

std::string g_dir;

// close(2) on a descriptor that is not open = some descriptor was closed twice; with another
// open() in between the second close hits a file that belongs to somebody else
std::atomic<uint64_t> g_bad_closes{0};
std::atomic<bool> g_watch_close{false};
extern "C" int __real_close(int fd);
extern "C" int __wrap_close(int fd) {
    const int r = __real_close(fd);
    if (r != 0 && errno == EBADF && fd >= 0 && g_watch_close.load(std::memory_order_relaxed)) g_bad_closes.fetch_add(1, std::memory_order_relaxed);
    return r;
}

// runs of types with ascending unique ids per type; small objects with a few tags
std::vector<mdl::Obj> make_dataset(vh::Rng& rng, int fmt, size_t nruns, size_t max_run) {
    mdl::GenOpts go;
    go.charset = fmt == F_XML ? mdl::Charset::xml_safe : mdl::Charset::any_utf8;
    go.max_string = 24; go.max_tags = 3; go.max_nodes = 6; go.max_members = 4;
    go.valid_locations_only = true;
    go.changeset_u32_max = false;
    const bool changesets = (fmt == F_XML || fmt == F_OPL);
    std::vector<mdl::Obj> D;
    int64_t next_id[4] = {1, 1, 1, 1};
    int type = 0;
    for (size_t r = 0; r < nruns; ++r) {
        // sorted-by-type files (one run per type) and files with many type changes (many PBF blocks)
        type = static_cast<int>(rng.below(changesets ? 4 : 3));
        const size_t n = 1 + rng.below(max_run);
        for (size_t i = 0; i < n; ++i) {
            mdl::Obj o = type == mdl::CHANGESET ? mdl::gen_changeset(rng, go) : mdl::gen_object(rng, go, type);
            o.id = next_id[type];
            next_id[type] += 1 + static_cast<int64_t>(rng.below(3));
            if (type != mdl::CHANGESET) {
                o.version = 1 + static_cast<uint32_t>(rng.below(3));
                o.visible = true;
                if (o.type == mdl::NODE && o.x == mdl::UNDEF) { o.x = 10; o.y = 20; }
                for (auto& nr : o.nodes) { nr.x = mdl::UNDEF; nr.y = mdl::UNDEF; }
                if (o.timestamp == 0) o.timestamp = 1;
                if (o.uid == 0) o.uid = 7;
                if (o.user.empty()) o.user = "u";
                if (o.changeset == 0) o.changeset = 5;
            } else {
                o.comments.clear();
                o.num_comments = 0;
            }
            // now and then the first object of a run (= of a PBF block) is larger than the
            // decoder's initial buffer: the buffer has to grow before anything was committed
            if (i == 0 && type != mdl::CHANGESET && rng.chance(1, 4)) {
                if (type == mdl::WAY) { o.nodes.clear(); for (int k = 0; k < 400; ++k) o.nodes.push_back(mdl::NodeRef{1000 + k, mdl::UNDEF, mdl::UNDEF}); }
                else if (type == mdl::RELATION) { o.members.clear(); for (int k = 0; k < 60; ++k) o.members.push_back(mdl::Member{1 + k % 3, 2000 + k, std::string(static_cast<size_t>(40 + k), 'r')}); }
                else { o.tags.clear(); for (int k = 0; k < 50; ++k) o.tags.push_back(mdl::Tag{"key" + std::to_string(k), std::string(static_cast<size_t>(30 + k), 'v')}); }
            }
            D.push_back(o);
        }
    }
    return D;
}

std::string encode(vh::Rng& rng, int fmt, std::vector<mdl::Obj>& D) {
    if (fmt == F_O5M) {
        c02::fit_o5m(D, false);
        c02::O5mCfg cfg;
        c02::O5mEncoder enc{rng, cfg};
        mdl::Header H; H.generator = "g";
        return enc.encode(D, H).bytes;
    }
    const std::string path = g_dir + "/seed";
    ::unlink(path.c_str());
    const char* opts = fmt == F_PBF_DENSE ? "pbf,pbf_dense_nodes=true" : fmt == F_PBF_PLAIN ? "pbf,pbf_dense_nodes=false,pbf_compression=none" : fmt == F_XML ? "osm" : "opl";
    {
        osmium::thread::Pool pool{2, 10};
        osmium::io::File file{path, opts};
        osmium::io::Header h; h.set("generator", "g");
        osmium::io::Writer writer{file, h, osmium::io::overwrite::allow, pool};
        osmium::memory::Buffer buf{64 * 1024, osmium::memory::Buffer::auto_grow::yes};
        for (const auto& o : D) mdl::to_buffer(o, buf);
        writer(std::move(buf));
        writer.close();
    }
    std::string bytes = iou::slurp(path);
    ::unlink(path.c_str());
    return bytes;
}

const char* fmt_suffix(int fmt) { return fmt <= F_PBF_PLAIN ? "pbf" : fmt == F_XML ? "osm" : fmt == F_OPL ? "opl" : "o5m"; }

bool selected(const mdl::Obj& o, unsigned mask) {
    return (mask >> o.type) & 1U;   // bit0 node, bit1 way, bit2 relation, bit3 changeset
}

// read_meta::no: non-metadata identical, metadata either real or default
std::string diff_nometa(const mdl::Obj& e, const mdl::Obj& g, std::string* detail) {
    mdl::Obj a = e, b = g;
    auto either = [&](auto real, auto got, auto dflt) { return got == real || got == dflt; };
    if (!either(e.version, g.version, 0U)) { *detail = "version"; return "metadata field neither real nor default (read_meta::no)"; }
    if (!either(e.timestamp, g.timestamp, 0U)) { *detail = "timestamp"; return "metadata field neither real nor default (read_meta::no)"; }
    if (!either(e.changeset, g.changeset, 0U)) { *detail = "changeset"; return "metadata field neither real nor default (read_meta::no)"; }
    if (!either(e.uid, g.uid, 0U)) { *detail = "uid"; return "metadata field neither real nor default (read_meta::no)"; }
    if (!(g.user == e.user || g.user.empty())) { *detail = "user"; return "metadata field neither real nor default (read_meta::no)"; }
    if (!(g.visible == e.visible || g.visible)) { *detail = "visible"; return "metadata field neither real nor default (read_meta::no)"; }
    a.version = b.version = 0; a.timestamp = b.timestamp = 0; a.changeset = b.changeset = 0; a.uid = b.uid = 0; a.user.clear(); b.user.clear(); a.visible = b.visible = true;
    const std::string f = mdl::diff(a, b, detail);
    return f.empty() ? "" : "non-metadata content changed by read_meta::no (" + f + ")";
}

void case_read(uint64_t idx, vh::Rng& rng) {
    const int fmt = static_cast<int>(idx % F_NFMT);
    const bool many_blocks = rng.coin();
    std::vector<mdl::Obj> D = make_dataset(rng, fmt, many_blocks ? 40 + rng.below(40) : 3 + rng.below(4), many_blocks ? 30 : 400);
    const std::string bytes = encode(rng, fmt, D);

    // ---- configuration
    const int nthreads = static_cast<int>(rng.pick(std::vector<int>{1, 2, 3, 4, 8, 16, 32}));
    const size_t workq = rng.pick(std::vector<size_t>{1, 2, 3, 10});
    const int inq = static_cast<int>(rng.pick(std::vector<int>{2, 3, 20}));
    const int outq = static_cast<int>(rng.pick(std::vector<int>{2, 3, 20}));
    const bool pbf_pool = rng.coin();
    const bool single = rng.chance(1, 3);
    const unsigned mask = rng.chance(1, 3) ? 15U : static_cast<unsigned>(rng.below(16));
    const bool nometa = rng.chance(1, 4);
    const bool from_file = rng.coin();
    // slow input: the bytes arrive through a FIFO whose feeder stalls once for longer than any
    // internal timeout of the pipeline (not for PBF: a PBF file is read by the parser from a seekable fd)
    const bool stall = fmt >= F_XML && from_file && rng.chance(1, 25);
    const int consumer = static_cast<int>(rng.below(3));   // 0 fast, 1 yields, 2 sleeps
    const bool via_iterator = rng.chance(1, 5);
    const int iter_style = static_cast<int>(rng.below(3));   // 0 *it++, 1 retained copy, 2 *it; ++it
    const uint32_t permille = rng.pick(std::vector<uint32_t>{0, 50, 300, 700});
    ::setenv("OSMIUM_MAX_INPUT_QUEUE_SIZE", std::to_string(inq).c_str(), 1);
    ::setenv("OSMIUM_MAX_OSMDATA_QUEUE_SIZE", std::to_string(outq).c_str(), 1);
    ::setenv("OSMIUM_USE_POOL_THREADS_FOR_PBF_PARSING", pbf_pool ? "true" : "false", 1);
    vhk::reset(rng.next() | 1, permille, rng.pick(std::vector<uint32_t>{20, 100, 400}));
    vhk::hs().max_queue_depth = 0;
    const std::string cfg = vh::fmt("%s pool=%d workq=%zu inq=%d outq=%d pbf_pool=%d %s mask=%u %s %s consumer=%d perturb=%u",
                                    FMT_NAME[fmt], nthreads, workq, inq, outq, pbf_pool, single ? "single" : "any", mask, nometa ? "nometa" : "meta",
                                    stall ? "stalling-fifo" : from_file ? "file" : "memory", consumer, permille) + (via_iterator ? vh::fmt(" via-InputIterator(style %d)", iter_style) : std::string{});
    vh::set_case_desc("%s objects=%zu bytes=%zu", cfg.c_str(), D.size(), bytes.size());

    std::vector<mdl::Obj> got;
    size_t nbuffers = 0;
    bool mixed_buffer = false;
    g_bad_closes = 0;
    g_watch_close = !stall;   // (the FIFO feeder closes its own descriptor concurrently; it does so once)
    std::string err;
    bool read_after_eof_ok = false, eof_flag = false;
    {
        osmium::thread::Pool pool{nthreads, workq};
        const std::string path = g_dir + "/in." + fmt_suffix(fmt);
        std::thread feeder;
        if (stall) {
            ::unlink(path.c_str());
            ::mkfifo(path.c_str(), 0600);
            feeder = std::thread{[&bytes, path] {
                const int fd = ::open(path.c_str(), O_WRONLY);
                if (fd < 0) return;
                const size_t half = bytes.size() / 2;
                auto write_all = [fd](const char* p, size_t n) { while (n > 0) { const ssize_t w = ::write(fd, p, n); if (w <= 0) return false; p += w; n -= static_cast<size_t>(w); } return true; };
                if (write_all(bytes.data(), half)) {
                    std::this_thread::sleep_for(std::chrono::milliseconds(1300));
                    write_all(bytes.data() + half, bytes.size() - half);
                }
                ::close(fd);
            }};
        } else if (from_file) iou::spit(path, bytes);
        try {
            // mask bit 0 node, 1 way, 2 relation, 3 changeset (osm_entity_bits::changeset is 0x10)
            const auto bits = static_cast<osmium::osm_entity_bits::type>((mask & 7U) | ((mask & 8U) ? 0x10U : 0U));
            const auto bt = single ? osmium::io::buffers_type::single : osmium::io::buffers_type::any;
            const auto rm = nometa ? osmium::io::read_meta::no : osmium::io::read_meta::yes;
            std::unique_ptr<osmium::io::Reader> reader;
            if (from_file) reader.reset(new osmium::io::Reader{osmium::io::File{path, fmt_suffix(fmt)}, pool, bits, bt, rm});
            else reader.reset(new osmium::io::Reader{osmium::io::File{bytes.data(), bytes.size(), fmt_suffix(fmt)}, pool, bits, bt, rm});
            (void)reader->header();
            if (via_iterator) {
                // consume through the InputIterator, the way user code walks a Reader: post-increment
                // with dereference of the returned copy, and a retained copy of the previous position
                // (both must stay valid while the original moves on into the next buffer)
                using It = osmium::io::InputIterator<osmium::io::Reader, const osmium::OSMEntity>;
                It it{*reader}, end{};
                while (it != end) {
                    if (iter_style == 0) { got.push_back(mdl::from_entity(*it++)); }
                    else if (iter_style == 1) { It keep = it; ++it; got.push_back(mdl::from_entity(*keep)); }
                    else { got.push_back(mdl::from_entity(*it)); ++it; }
                    if ((got.size() & 63) == 0) vh::heartbeat();
                }
                nbuffers = 21;   // (not observable through the iterator)
            } else
            while (osmium::memory::Buffer buffer = reader->read()) {
                ++nbuffers;
                const size_t before = got.size();
                mdl::from_buffer(buffer, got);
                for (size_t i = before + 1; i < got.size(); ++i) if (got[i].type != got[before].type) mixed_buffer = true;
                if (consumer == 1) std::this_thread::yield();
                else if (consumer == 2 && nbuffers % 3 == 0) std::this_thread::sleep_for(std::chrono::microseconds(300));
                vh::heartbeat();
            }
            eof_flag = reader->eof();
            // read after the end-of-data marker must fail rather than produce data
            try {
                osmium::memory::Buffer b = reader->read();
                read_after_eof_ok = !b || b.committed() == 0;
                if (b && b.committed() > 0) vh::violation("read() after the end of data produced data", cfg);
            } catch (const osmium::io_error&) {
                read_after_eof_ok = true;
            }
            reader->close();
        } catch (const std::exception& e) {
            err = e.what();
        }
        if (feeder.joinable()) feeder.join();
        if (from_file) ::unlink(path.c_str());
    }
    g_watch_close = false;
    if (g_bad_closes.exchange(0) > 0) vh::violation(std::string("close(2) called on a descriptor that is not open (descriptor closed twice): ") + FMT_NAME[fmt], cfg);
    if (stall) vh::count("runs_with_stalling_input");
    if (!err.empty()) { vh::violation(std::string("Reader failed on a valid file: ") + FMT_NAME[fmt], cfg + " : " + err); return; }
    if (!eof_flag) vh::violation("eof() false after the end of data", cfg);
    if (!read_after_eof_ok) vh::violation("read() after the end of data neither failed nor returned an empty buffer", cfg);
    // not part of the property (it only demands exactly-once and order): counted as information
    if (single && mixed_buffer) vh::count(std::string("info_buffers_type_single_delivered_mixed_types_") + FMT_NAME[fmt]);

    // ---- expected sequence
    std::vector<const mdl::Obj*> expect;
    for (const auto& o : D) if (selected(o, mask)) expect.push_back(&o);
    const bool meta_judged_strictly = !nometa;
    size_t i = 0;
    for (; i < expect.size() && i < got.size(); ++i) {
        const mdl::Obj& e = *expect[i];
        const mdl::Obj& g = got[i];
        if (e.type != g.type || e.id != g.id) {
            // classify: duplicate, lost or reordered
            bool later = false, earlier = false;
            for (size_t k = i + 1; k < got.size(); ++k) if (got[k].type == e.type && got[k].id == e.id) { later = true; break; }
            for (size_t k = 0; k < i; ++k) if (got[k].type == g.type && got[k].id == g.id) { earlier = true; break; }
            vh::violation(std::string(earlier ? "object delivered twice: " : later ? "objects delivered out of file order: " : "object lost: ") + FMT_NAME[fmt],
                          cfg + vh::fmt(" | position %zu: expected %s got %s", i, mdl::brief(e).c_str(), mdl::brief(g).c_str()));
            return;
        }
        std::string detail;
        std::string f = meta_judged_strictly ? mdl::diff(e, g, &detail) : diff_nometa(e, g, &detail);
        if (meta_judged_strictly && !f.empty()) f = "object content differs from the single-threaded decode (" + f + ")";
        if (!f.empty()) { vh::violation(f + ": " + FMT_NAME[fmt], cfg + " | " + detail + " | " + mdl::brief(e)); return; }
    }
    if (got.size() != expect.size()) {
        vh::violation(std::string(got.size() < expect.size() ? "objects lost at the end: " : "extra objects delivered: ") + FMT_NAME[fmt], cfg + vh::fmt(" | expected %zu got %zu", expect.size(), got.size()));
        return;
    }
    vh::count("readers_run");
    vh::count("objects_in_order", got.size());
    vh::count("buffers_delivered", nbuffers);
    vh::count("hook_events", vhk::hs().events.load());
    vh::count_max("max_queue_depth", vhk::hs().max_queue_depth.load());
    if (nometa) vh::count("read_meta_no_runs");
    if (mask != 15U) vh::count("masked_runs");
    if (single) vh::count("single_type_buffer_runs");
    if (via_iterator) vh::count("runs_through_input_iterator");
    if (nbuffers > 20 && !via_iterator) vh::count("runs_with_more_than_20_buffers");
    vh::cover("format", FMT_NAME[fmt]);
    vh::cover("pool_size", std::to_string(nthreads));
    vh::cover("entity_mask", std::to_string(mask));
    vh::cover("queues", vh::fmt("work=%zu in=%d out=%d", workq, inq, outq));
    vh::evaluated();
    vh::distinct(vh::hash_u64(vhk::signature(), vh::hash_str(cfg, vh::hash_u64(bytes.size()))));
    if (idx % 150 == 0) vh::sample_str(vh::fmt("%s: %zu objects in %zu buffers delivered in order, interleaving signature %016" PRIx64, cfg.c_str(), got.size(), nbuffers, vhk::signature()));
}

// ---- two Readers alive at the same time (merging or comparing two files): each must deliver
// exactly its own file, whatever the other one and its threads are doing
void case_pair(uint64_t idx, vh::Rng& rng) {
    const int fmt[2] = {static_cast<int>(idx % F_NFMT), rng.coin() ? static_cast<int>(idx % F_NFMT) : static_cast<int>(rng.below(F_NFMT))};
    std::vector<mdl::Obj> D[2];
    std::string bytes[2];
    for (int r = 0; r < 2; ++r) {
        D[r] = make_dataset(rng, fmt[r], r == 0 ? 3 + rng.below(6) : 30 + rng.below(30), r == 0 ? 200 : 30);
        bytes[r] = encode(rng, fmt[r], D[r]);
    }
    const int outq = static_cast<int>(rng.pick(std::vector<int>{2, 3, 20}));
    const int first_reads = static_cast<int>(rng.below(3));     // buffers taken from A before B is opened
    const bool threads = rng.coin();                                // drain the two Readers in two threads or one after the other
    const bool shared_pool = rng.coin();
    const bool mem_b = rng.chance(1, 4);
    const uint32_t permille = rng.pick(std::vector<uint32_t>{0, 50, 300});
    ::setenv("OSMIUM_MAX_INPUT_QUEUE_SIZE", "2", 1);
    ::setenv("OSMIUM_MAX_OSMDATA_QUEUE_SIZE", std::to_string(outq).c_str(), 1);
    ::setenv("OSMIUM_USE_POOL_THREADS_FOR_PBF_PARSING", rng.coin() ? "true" : "false", 1);
    vhk::reset(rng.next() | 1, permille, 100);
    const std::string cfg = vh::fmt("two readers: A=%s B=%s%s outq=%d reads-before-B=%d %s %s perturb=%u", FMT_NAME[fmt[0]], FMT_NAME[fmt[1]], mem_b ? "(memory)" : "",
                                    outq, first_reads, threads ? "drained-in-two-threads" : "drained-A-then-B", shared_pool ? "shared-pool" : "own-pools", permille);
    vh::set_case_desc("%s", cfg.c_str());
    std::vector<mdl::Obj> got[2];
    std::string err[2];
    const std::string path[2] = {g_dir + "/a." + fmt_suffix(fmt[0]), g_dir + "/b." + fmt_suffix(fmt[1])};
    iou::spit(path[0], bytes[0]);
    if (!mem_b) iou::spit(path[1], bytes[1]);
    g_bad_closes = 0;
    g_watch_close = true;
    {
        osmium::thread::Pool pool_a{static_cast<int>(1 + rng.below(4)), 4};
        osmium::thread::Pool pool_b{static_cast<int>(1 + rng.below(4)), 4};
        std::unique_ptr<osmium::io::Reader> rd[2];
        auto drain = [&](int r) {
            try {
                while (osmium::memory::Buffer buffer = rd[r]->read()) { mdl::from_buffer(buffer, got[r]); vh::heartbeat(); }
                rd[r]->close();
            } catch (const std::exception& e) { err[r] = e.what(); }
            rd[r].reset();
        };
        try {
            rd[0].reset(new osmium::io::Reader{osmium::io::File{path[0], fmt_suffix(fmt[0])}, pool_a});
            for (int k = 0; k < first_reads; ++k) { osmium::memory::Buffer b = rd[0]->read(); if (!b) break; mdl::from_buffer(b, got[0]); }
            // give A's threads the time to run into their full queues (or to the end of the file)
            std::this_thread::sleep_for(std::chrono::milliseconds(rng.below(4)));
        } catch (const std::exception& e) { err[0] = e.what(); }
        try {
            osmium::thread::Pool& pb = shared_pool ? pool_a : pool_b;
            if (mem_b) rd[1].reset(new osmium::io::Reader{osmium::io::File{bytes[1].data(), bytes[1].size(), fmt_suffix(fmt[1])}, pb});
            else rd[1].reset(new osmium::io::Reader{osmium::io::File{path[1], fmt_suffix(fmt[1])}, pb});
            osmium::memory::Buffer b = rd[1]->read();
            if (b) mdl::from_buffer(b, got[1]);
        } catch (const std::exception& e) { err[1] = e.what(); }
        if (err[0].empty() && err[1].empty()) {
            if (threads) { std::thread ta{[&] { drain(0); }}; std::thread tb{[&] { drain(1); }}; ta.join(); tb.join(); }
            else { drain(0); drain(1); }
        }
        rd[0].reset(); rd[1].reset();
    }
    g_watch_close = false;
    ::unlink(path[0].c_str()); ::unlink(path[1].c_str());
    if (g_bad_closes.exchange(0) > 0) vh::violation("close(2) called on a descriptor that is not open (descriptor closed twice)", cfg);
    for (int r = 0; r < 2; ++r) {
        const std::string who = std::string(r == 0 ? "first" : "second") + " of two concurrent Readers: " + FMT_NAME[fmt[r]];
        if (!err[r].empty()) { vh::violation("Reader failed on a valid file: " + who, cfg + " : " + err[r]); return; }
        const size_t n = std::min(got[r].size(), D[r].size());
        for (size_t i = 0; i < n; ++i) {
            std::string detail;
            const std::string f = mdl::diff(D[r][i], got[r][i], &detail);
            if (!f.empty()) { vh::violation("object differs from the file (" + f + "): " + who, cfg + vh::fmt(" | position %zu ", i) + detail); return; }
        }
        if (got[r].size() != D[r].size()) { vh::violation(std::string(got[r].size() < D[r].size() ? "objects lost at the end: " : "extra objects delivered: ") + who, cfg + vh::fmt(" | expected %zu got %zu", D[r].size(), got[r].size())); return; }
    }
    vh::count("reader_pairs_run");
    vh::count("objects_in_order", got[0].size() + got[1].size());
    vh::count("hook_events", vhk::hs().events.load());
    vh::cover("pair", std::string(FMT_NAME[fmt[0]]) + "+" + FMT_NAME[fmt[1]]);
    vh::evaluated();
    vh::distinct(vh::hash_u64(vhk::signature(), vh::hash_str(cfg, vh::hash_u64(bytes[0].size() + bytes[1].size()))));
    if (idx % 150 == 6) vh::sample_str(cfg + vh::fmt(": %zu + %zu objects delivered in order", got[0].size(), got[1].size()));
}

void case_any(uint64_t idx, vh::Rng& rng) {
    if (idx % 6 == 5) case_pair(idx / 6, rng);
    else case_read(idx, rng);
}

} // namespace

int main(int argc, char** argv) {
    vh::parse_args(argc, argv);
    g_dir = iou::scratch_dir("c05");
    ::signal(SIGPIPE, SIG_IGN);   // the FIFO feeder may outlive a Reader that stops early
    vh::info(vh::fmt("parser buffer size %s, PBF decoder buffer size %s (hook H4)",
#ifdef OSMIUM_VERIF_PARSER_BUFFER_SIZE
                     std::to_string(OSMIUM_VERIF_PARSER_BUFFER_SIZE).c_str(),
#else
                     "default",
#endif
#ifdef OSMIUM_VERIF_PBF_BUFFER_SIZE
                     std::to_string(OSMIUM_VERIF_PBF_BUFFER_SIZE).c_str()
#else
                     "default"
#endif
                     ));
    const int rc = vh::run_cases(argc, argv, 600, case_any);
    ::rmdir(g_dir.c_str());
    return rc;
}
