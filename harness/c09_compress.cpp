// C09 - compressed input is decompressed completely and truncation is detected.
//
// mode=corpus: case i = line i of <corpus>/cases.tsv (written by
//   gen/c09_corpus.py together with the reference outcome of Python's
//   gzip/bz2). Every file is read through the library's fd decompressor and
//   through its buffer decompressor (both created through CompressionFactory):
//   concatenated read() results == reference payload; offset <= file size;
//   damaged files: no "success with a shorter payload".
// mode=roundtrip: the library's own compressors write seeded payloads in
//   seeded write sizes; the library's decompressors must give them back. The
//   files are left in --outdir for the driver, which also decompresses them
//   with Python.
// mode=reader: multi-stream OPL files through the full Reader (no lost line).

#include "vh.hpp"
#include "vh_hooks.hpp"

#include <osmium/io/any_compression.hpp>
#include <osmium/io/any_input.hpp>
#include <osmium/io/compression.hpp>
#include <osmium/io/reader.hpp>
#include <osmium/visitor.hpp>

#include <fcntl.h>
#include <fstream>
#include <sstream>

namespace {

struct Case { std::string file, kind, payload; long explen; std::string cls; std::string status; };
std::vector<Case> g_cases;
std::string g_corpus;
std::map<std::string, std::string> g_payload_cache;

std::string slurp(const std::string& path) {
    std::ifstream in{path, std::ios::binary};
    std::ostringstream ss; ss << in.rdbuf();
    return ss.str();
}

const std::string& payload(const std::string& name) {
    auto it = g_payload_cache.find(name);
    if (it == g_payload_cache.end()) it = g_payload_cache.emplace(name, slurp(g_corpus + "/" + name)).first;
    return it->second;
}

void load_cases() {
    std::ifstream in{g_corpus + "/cases.tsv"};
    std::string line;
    while (std::getline(in, line)) {
        std::vector<std::string> f;
        size_t p = 0;
        while (true) { auto q = line.find('\t', p); f.push_back(line.substr(p, q == std::string::npos ? q : q - p)); if (q == std::string::npos) break; p = q + 1; }
        if (f.size() == 6) g_cases.push_back(Case{f[0], f[1], f[2], std::atol(f[3].c_str()), f[4], f[5]});
    }
}

struct Outcome { bool threw = false; std::string what, type; std::string out; bool offset_bad = false; size_t reads = 0; bool foreign = false; };

template <typename MakeDecomp>
Outcome run_decompressor(MakeDecomp&& make, size_t file_size) {
    Outcome o;
    std::atomic<std::size_t> offset{0};
    try {
        std::unique_ptr<osmium::io::Decompressor> d = make();
        d->set_offset_ptr(&offset);
        while (true) {
            std::string chunk = d->read();
            ++o.reads;
            if (offset.load() > file_size) o.offset_bad = true;
            if (chunk.empty()) break;
            o.out += chunk;
            if (o.out.size() > (64UL << 20)) break;   // runaway guard
        }
        d->close();
    } catch (const std::exception& e) {
        o.threw = true; o.what = e.what();
    } catch (...) {
        o.threw = true; o.foreign = true; o.what = "non-std exception";
    }
    return o;
}

void judge(const Case& c, const char* path_kind, const Outcome& o, const std::string& ref, size_t file_size) {
    const std::string where = c.kind + "-" + path_kind;
    if (o.foreign) vh::violation(where + ": exception not derived from std::exception", c.cls + " | " + c.file);
    if (o.offset_bad) vh::violation(where + ": reported offset exceeds the file size", c.cls + " | " + c.file);
    if (c.status == "notjudged") { vh::count("files_not_judged(trailing-garbage ambiguity)"); return; }
    if (c.status == "intact") {
        // a complete valid file: the reference decodes it to ref[0:explen] and the library must give exactly that
        vh::count("files_with_reference_payload");
        if (c.explen < 0) { vh::violation("harness: reference rejects an intact file", c.file); return; }
        if (o.threw) {
            vh::violation(where + ": valid file rejected: " + c.cls, c.file + " : " + o.what);
        } else if (o.out.size() != static_cast<size_t>(c.explen) || o.out.compare(0, std::string::npos, ref, 0, static_cast<size_t>(c.explen)) != 0) {
            const bool prefix = o.out.size() < static_cast<size_t>(c.explen) && ref.compare(0, o.out.size(), o.out) == 0;
            vh::violation(where + (prefix ? ": output is shorter than the reference payload: " : ": output differs from the reference payload: ") + c.cls,
                          vh::fmt("%s: got %zu bytes, reference %ld bytes, file size %zu", c.file.c_str(), o.out.size(), c.explen, file_size));
        }
    } else {
        // truncated or corrupted file: it must not be accepted as a *shorter* payload
        // (unless the reference decompressor accepts exactly the same shorter payload)
        vh::count("damaged_files");
        if (o.threw) { vh::count("damaged_files_rejected"); return; }
        const bool proper_prefix = o.out.size() < ref.size() && ref.compare(0, o.out.size(), o.out) == 0;
        if (proper_prefix && !(c.explen >= 0 && static_cast<size_t>(c.explen) == o.out.size()))
            vh::violation(where + ": damaged file accepted as a shorter payload: " + c.cls, vh::fmt("%s: got %zu of %zu bytes without error", c.file.c_str(), o.out.size(), ref.size()));
        else if (o.out == ref) vh::count("damaged_files_decoded_completely(damage_in_unchecked_field)");
        else vh::count("damaged_files_other_divergence_not_judged");
    }
}

void case_corpus(uint64_t idx, vh::Rng&) {
    if (idx >= g_cases.size()) return;
    const Case& c = g_cases[idx];
    vh::set_case_desc("%s %s", c.file.c_str(), c.cls.c_str());
    const std::string path = g_corpus + "/" + c.file;
    const std::string blob = slurp(path);
    const std::string& ref = payload(c.payload);
    const auto comp = c.kind == "gzip" ? osmium::io::file_compression::gzip : osmium::io::file_compression::bzip2;
    const auto& factory = osmium::io::CompressionFactory::instance();
    {
        const Outcome o = run_decompressor([&] {
            const int fd = ::open(path.c_str(), O_RDONLY | O_CLOEXEC);
            if (fd < 0) throw std::runtime_error{"harness: cannot open corpus file"};
            return factory.create_decompressor(comp, fd);
        }, blob.size());
        judge(c, "fd", o, ref, blob.size());
        vh::count("fd_reads", o.reads);
    }
    {
        // exact-size heap copy so that ASan sees reads past the input
        char* exact = static_cast<char*>(std::malloc(blob.size() ? blob.size() : 1));
        std::memcpy(exact, blob.data(), blob.size());
        const Outcome o = run_decompressor([&] { return factory.create_decompressor(comp, exact, blob.size()); }, blob.size());
        std::free(exact);
        judge(c, "buffer", o, ref, blob.size());
        vh::count("buffer_reads", o.reads);
    }
    vh::evaluated(2);
    vh::distinct(vh::hash_str(blob, vh::hash_str(c.kind)));
    vh::cover("case_class", c.cls);
    if (idx % 1500 == 0) vh::sample_str(vh::fmt("%s (%zu bytes): %s; reference length %ld", c.file.c_str(), blob.size(), c.cls.c_str(), c.explen));
}

// ------------------------------------------------------------------ library round trip

std::string gen_payload(vh::Rng& rng, size_t n, bool low_entropy) {
    std::string s;
    s.reserve(n);
    while (s.size() < n) {
        if (low_entropy) s += vh::fmt("line %" PRIu64 " abcabcabc\n", rng.below(50));
        else { uint64_t v = rng.next(); s.append(reinterpret_cast<const char*>(&v), 8); }
    }
    s.resize(n);
    return s;
}

void case_roundtrip(uint64_t idx, vh::Rng& rng) {
    const std::string outdir = vh::arg("outdir", "");
    const bool gz = idx % 2 == 0;
    const auto comp = gz ? osmium::io::file_compression::gzip : osmium::io::file_compression::bzip2;
    const size_t n = rng.pick(std::vector<size_t>{0, 1, 100, 10239, 10240, 10241, 100000, (1U << 20) - 1, (1U << 20) + 1, 3 * (1U << 20) + 17});
    const bool low = rng.coin();
    const std::string data = gen_payload(rng, n, low);
    const std::string path = outdir + vh::fmt("/rt%05" PRIu64 ".%s", idx, gz ? "gz" : "bz2");
    vh::set_case_desc("roundtrip %s n=%zu", gz ? "gzip" : "bzip2", n);
    const auto& factory = osmium::io::CompressionFactory::instance();
    size_t reported = 0;
    try {
        const int fd = ::open(path.c_str(), O_WRONLY | O_CREAT | O_TRUNC | O_CLOEXEC, 0644);
        auto c = factory.create_compressor(comp, fd, rng.coin() ? osmium::io::fsync::yes : osmium::io::fsync::no);
        size_t off = 0;
        // zero-length pieces (first, in between, last) are valid writes and add nothing
        const bool empties = rng.coin();
        size_t nempty = 0;
        if (empties && rng.coin()) { c->write(std::string{}); ++nempty; }
        while (off < data.size()) {
            const size_t piece = std::min(data.size() - off, static_cast<size_t>(rng.pick(std::vector<size_t>{1, 7, 4096, 65536, 1000000})));
            c->write(data.substr(off, piece));
            off += piece;
            if (empties && rng.chance(1, 4)) { c->write(std::string{}); ++nempty; }
        }
        if (empties && nempty == 0) { c->write(std::string{}); ++nempty; }
        if (nempty) vh::count("library_roundtrips_with_zero_length_writes");
        c->close();
        reported = c->file_size();
    } catch (const std::exception& e) {
        vh::violation(std::string(gz ? "gzip" : "bzip2") + " compressor threw on a plain file", e.what());
        return;
    }
    const std::string blob = slurp(path);
    if (reported != blob.size()) vh::violation(std::string(gz ? "gzip" : "bzip2") + " compressor: file_size() differs from the size on disk", vh::fmt("%zu vs %zu", reported, blob.size()));
    Case c{path, gz ? "gzip" : "bzip2", "", static_cast<long>(n), "file written by the library's own compressor", "intact"};
    {
        const Outcome o = run_decompressor([&] { const int fd = ::open(path.c_str(), O_RDONLY | O_CLOEXEC); return factory.create_decompressor(comp, fd); }, blob.size());
        judge(c, "fd", o, data, blob.size());
    }
    {
        const Outcome o = run_decompressor([&] { return factory.create_decompressor(comp, blob.data(), blob.size()); }, blob.size());
        judge(c, "buffer", o, data, blob.size());
    }
    // sidecar for the Python verification in the driver
    std::ofstream side{path + ".expect", std::ios::binary};
    side << n << " " << vh::hash_str(data) << "\n";
    side.close();
    std::ofstream raw{path + ".raw", std::ios::binary};
    raw.write(data.data(), static_cast<std::streamsize>(data.size()));
    vh::count("library_roundtrips");
    vh::evaluated();
    vh::distinct(vh::hash_str(data, vh::hash_u64(gz)));
    if (idx < 2) vh::sample_str(vh::fmt("library %s compressor: %zu payload bytes -> %zu file bytes -> read back via fd and buffer", gz ? "gzip" : "bzip2", n, blob.size()));
}

// ------------------------------------------------------------------ through the Reader

struct Counter : public osmium::handler::Handler {
    int64_t expect = 0; bool ok = true; uint64_t n = 0;
    void node(const osmium::Node& node) { if (node.id() != expect) ok = false; ++expect; ++n; }
};

void case_reader(uint64_t idx, vh::Rng&) {
    // files opl_<idx>.opl.gz / .opl.bz2 are written by the driver: multi-stream OPL with nodes 0..N-1
    const std::string dir = vh::arg("corpus", "");
    std::ifstream list{dir + "/reader_cases.tsv"};
    std::string name; long n = 0; std::string cls;
    uint64_t i = 0;
    std::string line;
    bool found = false;
    while (std::getline(list, line)) {
        if (i++ == idx) { std::istringstream ss{line}; ss >> name >> n; std::getline(ss, cls); found = true; break; }
    }
    if (!found) return;
    vh::set_case_desc("reader %s%s", name.c_str(), cls.c_str());
    const bool gz = name.find(".gz") != std::string::npos;
    for (int via_memory = 0; via_memory < 2; ++via_memory) {
        Counter counter;
        std::string err;
        const std::string blob = slurp(dir + "/" + name);
        try {
            if (via_memory) {
                osmium::io::File f{blob.data(), blob.size(), gz ? "opl.gz" : "opl.bz2"};
                osmium::io::Reader reader{f};
                osmium::apply(reader, counter);
                reader.close();
            } else {
                osmium::io::Reader reader{dir + "/" + name};
                osmium::apply(reader, counter);
                reader.close();
            }
        } catch (const std::exception& e) {
            err = e.what();
        }
        const std::string where = std::string("Reader on multi-stream ") + (gz ? "opl.gz" : "opl.bz2") + (via_memory ? " (memory)" : " (file)");
        if (!err.empty()) vh::violation(where + ": valid file rejected:" + cls, name + " : " + err);
        else if (counter.n != static_cast<uint64_t>(n) || !counter.ok) vh::violation(where + ": objects lost:" + cls, vh::fmt("%s: got %" PRIu64 " of %ld nodes", name.c_str(), counter.n, n));
        vh::count("reader_files");
    }
    vh::evaluated(2);
    vh::distinct(vh::hash_str(name));
}

} // namespace

int main(int argc, char** argv) {
    vh::parse_args(argc, argv);
    const std::string mode = vh::arg("mode", "corpus");
    g_corpus = vh::arg("corpus", "");
    vh::info(vh::fmt("Decompressor::input_buffer_size = %u", static_cast<unsigned>(osmium::io::Decompressor::input_buffer_size)));
    if (mode == "corpus") { load_cases(); return vh::run_cases(argc, argv, g_cases.size(), case_corpus); }
    if (mode == "roundtrip") return vh::run_cases(argc, argv, 40, case_roundtrip);
    return vh::run_cases(argc, argv, 10, case_reader);
}
