// c02_enc_text.hpp - independent OSM XML (0.6) and OPL emitters for check C02.
//
// Written from the OSM XML conventions (API 0.6 / planet / osmChange /
// changeset dump files) and the XML 1.0 specification, and from the OPL format
// manual. Free lexical choices are varied under the case's Rng:
//
// XML: attribute order, single/double quotes, predefined entities and decimal/
// hex character references (required ones and redundant ones), whitespace and
// line breaks between attributes and elements, LF/CRLF, comments, optional XML
// declaration, empty-element vs start/end tags, optional attributes left out
// when they have the default value, nd-before-tag or tag-before-nd, <osm> with
// visible attributes, <osmChange> with create/modify/delete sections, <bounds>,
// harmless real-world extras (<note>, <meta>, copyright/attribution/license).
//
// OPL: optional fields left out when default, field order after the id,
// %hex% escapes with upper/lower case and leading zeros, redundant escapes of
// ordinary characters, raw UTF-8 letters, LF/CRLF, blank lines and # comment
// lines, trailing newline present or absent.

#ifndef C02_ENC_TEXT_HPP
#define C02_ENC_TEXT_HPP

#include "../c02_enc_pbf.hpp"

namespace c02 {

// proleptic Gregorian calendar, days-from-civil inverse (public domain algorithm)
inline std::string iso_time(uint32_t t) {
    const int64_t days = t / 86400;
    const unsigned rem = t % 86400;
    const int64_t z = days + 719468;
    const int64_t era = z / 146097;
    const unsigned doe = static_cast<unsigned>(z - era * 146097);
    const unsigned yoe = (doe - doe / 1460 + doe / 36524 - doe / 146096) / 365;
    int64_t y = static_cast<int64_t>(yoe) + era * 400;
    const unsigned doy = doe - (365 * yoe + yoe / 4 - yoe / 100);
    const unsigned mp = (5 * doy + 2) / 153;
    const unsigned d = doy - (153 * mp + 2) / 5 + 1;
    const unsigned m = mp < 10 ? mp + 3 : mp - 9;
    if (m <= 2) ++y;
    return vh::fmt("%04d-%02u-%02uT%02u:%02u:%02uZ", static_cast<int>(y), m, d, rem / 3600, (rem / 60) % 60, rem % 60);
}

// decimal degrees of a coordinate in 1e-7 degree units, at most 7 decimals
inline std::string coord_text(int32_t c, vh::Rng& rng) {
    const int64_t v = c;
    const bool neg = v < 0;
    const uint64_t a = static_cast<uint64_t>(neg ? -v : v);
    std::string frac = vh::fmt("%07" PRIu64, a % 10000000);
    switch (rng.below(3)) {
        case 0: while (!frac.empty() && frac.back() == '0') frac.pop_back(); break;
        case 1: break;
        default: {
            while (!frac.empty() && frac.back() == '0') frac.pop_back();
            const size_t pad = rng.below(8 - frac.size());
            frac.append(pad, '0');
            break;
        }
    }
    std::string s = neg ? "-" : "";
    s += std::to_string(a / 10000000);
    if (!frac.empty()) { s += '.'; s += frac; }
    return s;
}

inline std::vector<uint32_t> decode_utf8(const std::string& s) {
    std::vector<uint32_t> out;
    size_t i = 0;
    while (i < s.size()) {
        const unsigned char c = static_cast<unsigned char>(s[i]);
        uint32_t cp; size_t n;
        if (c < 0x80) { cp = c; n = 1; }
        else if (c < 0xe0) { cp = c & 0x1fU; n = 2; }
        else if (c < 0xf0) { cp = c & 0x0fU; n = 3; }
        else { cp = c & 0x07U; n = 4; }
        for (size_t k = 1; k < n && i + k < s.size(); ++k) cp = (cp << 6) | (static_cast<unsigned char>(s[i + k]) & 0x3fU);
        out.push_back(cp);
        i += n;
    }
    return out;
}

inline std::string hex_digits(uint32_t cp, bool upper, unsigned min_digits) {
    std::string h = vh::fmt(upper ? "%X" : "%x", cp);
    while (h.size() < min_digits) h.insert(h.begin(), '0');
    return h;
}

// ==================================================================== XML

struct XmlCfg {
    int kind = -1;                // 0 <osm>, 1 <osmChange>, -1 random (osmChange only without changesets)
    bool plain_style = false;
};

struct XmlResult {
    std::string bytes;
    std::vector<Obj> expect;
    mdl::Header hexp;
    std::string desc;
    bool change = false;
    size_t char_refs = 0, entities = 0, comments = 0, sections = 0;
};

class XmlEncoder {
    vh::Rng& rng;
    XmlCfg cfg;
    XmlResult res;
    std::string out;
    std::string nl = "\n";
    unsigned redundant_den = 0;   // 1/den of ordinary characters are written as references

    std::string char_ref(uint32_t cp) {
        ++res.char_refs;
        switch (rng.below(4)) {
            case 0: return "&#" + std::to_string(cp) + ";";
            case 1: return "&#x" + hex_digits(cp, false, 1) + ";";
            case 2: return "&#x" + hex_digits(cp, true, static_cast<unsigned>(1 + rng.below(6))) + ";";
            default: return "&#" + std::string(rng.below(3), '0') + std::to_string(cp) + ";";
        }
    }

    std::string escaped(const std::string& s, char quote /* 0 = element content */) {
        std::string o;
        for (const uint32_t cp : decode_utf8(s)) {
            const bool must = cp == '&' || cp == '<' || cp == '>' || (quote && cp == static_cast<uint32_t>(quote)) ||
                              cp == 13 || (quote && (cp == 9 || cp == 10));
            const char* named = cp == '&' ? "&amp;" : cp == '<' ? "&lt;" : cp == '>' ? "&gt;" : cp == '"' ? "&quot;" : cp == '\'' ? "&apos;" : nullptr;
            if (must || (redundant_den && rng.chance(1, redundant_den))) {
                if (named && rng.coin()) { o += named; ++res.entities; }
                else o += char_ref(cp);
            } else if (cp == '>' ) {
                o += "&gt;";
            } else {
                mdl::append_utf8(o, cp);
            }
        }
        return o;
    }

    std::string ws() {
        if (cfg.plain_style) return " ";
        static const char* w[] = {" ", " ", " ", "  ", "\n", "\t", "\n    ", "\r\n ", " \t "};
        return w[rng.below(sizeof(w) / sizeof(w[0]))];
    }
    std::string opt_ws() { return (cfg.plain_style || rng.chance(3, 4)) ? "" : ws(); }

    struct Attr { std::string name, value; };

    std::string attrs(std::vector<Attr> a) {
        if (!cfg.plain_style) rng.shuffle(a);
        std::string o;
        for (const auto& x : a) {
            const char q = rng.coin() ? '"' : '\'';
            o += ws();
            o += x.name;
            o += opt_ws();
            o += '=';
            o += opt_ws();
            o += q;
            o += escaped(x.value, q);
            o += q;
        }
        return o;
    }

    void between() {
        out += nl;
        if (cfg.plain_style) return;
        if (rng.chance(1, 4)) out += std::string(rng.below(5), ' ');
        if (rng.chance(1, 15)) { out += "<!-- " + std::string(rng.below(20), 'c') + " - a comment with <tags> & 'quotes' -->" + nl; ++res.comments; }
        if (rng.chance(1, 30)) out += nl;
    }

    void empty_or_pair(const std::string& name, const std::string& at) {
        if (rng.coin()) out += "<" + name + at + opt_ws() + "/>";
        else out += "<" + name + at + opt_ws() + ">" + (rng.chance(1, 3) ? nl : "") + "</" + name + opt_ws() + ">";
    }

    void tags(const Obj& o) {
        for (const auto& t : o.tags) { between(); empty_or_pair("tag", attrs({{"k", t.k}, {"v", t.v}})); }
    }

    void object(const Obj& o, bool write_visible) {
        static const char* names[] = {"node", "way", "relation"};
        std::vector<Attr> a;
        a.push_back({"id", std::to_string(o.id)});
        auto opt = [&](bool is_default) { return !(is_default && rng.coin()); };
        if (opt(o.version == 0)) a.push_back({"version", std::to_string(o.version)});
        if (opt(o.timestamp == 0)) a.push_back({"timestamp", iso_time(o.timestamp)});
        if (opt(o.changeset == 0)) a.push_back({"changeset", std::to_string(o.changeset)});
        if (opt(o.uid == 0)) a.push_back({"uid", std::to_string(o.uid)});
        if (opt(o.user.empty())) a.push_back({"user", o.user});
        if (write_visible && (!o.visible || rng.coin())) a.push_back({"visible", o.visible ? "true" : "false"});
        if (o.type == mdl::NODE && o.x != UNDEF) { a.push_back({"lat", coord_text(o.y, rng)}); a.push_back({"lon", coord_text(o.x, rng)}); }
        const std::string name = names[o.type];
        const bool children = !o.tags.empty() || !o.nodes.empty() || !o.members.empty();
        between();
        if (!children) { empty_or_pair(name, attrs(a)); return; }
        out += "<" + name + attrs(a) + opt_ws() + ">";
        const bool tags_first = !cfg.plain_style && rng.chance(1, 4);
        if (tags_first) tags(o);
        for (const auto& n : o.nodes) { between(); empty_or_pair("nd", attrs({{"ref", std::to_string(n.ref)}})); }
        for (const auto& m : o.members) {
            static const char* mt[] = {"node", "way", "relation"};
            between();
            empty_or_pair("member", attrs({{"type", mt[m.type - 1]}, {"ref", std::to_string(m.ref)}, {"role", m.role}}));
        }
        if (!tags_first) tags(o);
        between();
        out += "</" + name + opt_ws() + ">";
    }

    void changeset(const Obj& o) {
        std::vector<Attr> a;
        a.push_back({"id", std::to_string(o.id)});
        auto opt = [&](bool is_default) { return !(is_default && rng.coin()); };
        if (opt(o.created_at == 0)) a.push_back({"created_at", iso_time(o.created_at)});
        if (o.closed_at != 0) a.push_back({"closed_at", iso_time(o.closed_at)});
        if (rng.coin()) a.push_back({"open", o.closed_at == 0 ? "true" : "false"});
        if (opt(o.uid == 0)) a.push_back({"uid", std::to_string(o.uid)});
        if (opt(o.user.empty())) a.push_back({"user", o.user});
        if (opt(o.num_changes == 0)) a.push_back({"num_changes", std::to_string(o.num_changes)});
        if (opt(o.num_comments == 0)) a.push_back({"comments_count", std::to_string(o.num_comments)});
        if (o.bx1 != UNDEF) {
            a.push_back({"min_lon", coord_text(o.bx1, rng)}); a.push_back({"min_lat", coord_text(o.by1, rng)});
            a.push_back({"max_lon", coord_text(o.bx2, rng)}); a.push_back({"max_lat", coord_text(o.by2, rng)});
        }
        between();
        if (o.tags.empty() && o.comments.empty()) { empty_or_pair("changeset", attrs(a)); return; }
        out += "<changeset" + attrs(a) + opt_ws() + ">";
        tags(o);
        if (!o.comments.empty()) {
            between();
            out += "<discussion>";
            for (const auto& c : o.comments) {
                std::vector<Attr> ca;
                if (opt(c.date == 0)) ca.push_back({"date", iso_time(c.date)});
                if (opt(c.uid == 0)) ca.push_back({"uid", std::to_string(c.uid)});
                if (opt(c.user.empty())) ca.push_back({"user", c.user});
                between();
                out += "<comment" + attrs(ca) + opt_ws() + ">";
                between();
                if (c.text.empty() && rng.coin()) out += "<text/>";
                else if (!cfg.plain_style && rng.chance(1, 5) && c.text.find("]]>") == std::string::npos && c.text.find('\r') == std::string::npos) out += "<text><![CDATA[" + c.text + "]]></text>";
                else out += "<text>" + escaped(c.text, 0) + "</text>";
                between();
                out += "</comment>";
            }
            between();
            out += "</discussion>";
        }
        between();
        out += "</changeset>";
    }

public:
    XmlEncoder(vh::Rng& r, const XmlCfg& c) : rng(r), cfg(c) {}

    // D: objects only or changesets only; XML carries no way-node locations
    XmlResult encode(const std::vector<Obj>& D, const mdl::Header& H, bool history) {
        bool has_changesets = false, any_invisible = false;
        for (const auto& o : D) { if (o.type == mdl::CHANGESET) has_changesets = true; if (!o.visible) any_invisible = true; }
        res.change = cfg.kind >= 0 ? cfg.kind == 1 : (!has_changesets && rng.chance(2, 5));
        if (!cfg.plain_style) {
            nl = rng.chance(1, 4) ? "\r\n" : "\n";
            redundant_den = static_cast<unsigned>(rng.pick(std::vector<int>{0, 0, 30, 5, 1}));
        }
        res.expect = D;
        for (auto& e : res.expect) for (auto& n : e.nodes) { n.x = UNDEF; n.y = UNDEF; }
        if (cfg.plain_style || rng.chance(3, 4)) {
            const char q = rng.coin() ? '"' : '\'';
            out += std::string("<?xml version=") + q + "1.0" + q + " encoding=" + q + (rng.coin() ? "UTF-8" : "utf-8") + q + (rng.chance(1, 4) ? std::string(" standalone=") + q + "yes" + q : std::string()) + "?>" + nl;
        }
        if (!cfg.plain_style && rng.chance(1, 6)) { out += "<!-- generated -->" + nl; ++res.comments; }
        std::vector<Attr> top;
        top.push_back({"version", "0.6"});
        if (!H.generator.empty()) { top.push_back({"generator", H.generator}); res.hexp.generator = H.generator; }
        if (!res.change && !cfg.plain_style && rng.chance(1, 4)) {
            top.push_back({"copyright", "OpenStreetMap and contributors"});
            top.push_back({"attribution", "http://www.openstreetmap.org/copyright"});
            top.push_back({"license", "http://opendatacommons.org/licenses/odbl/1-0/"});
        }
        const std::string root = res.change ? "osmChange" : "osm";
        res.hexp.multiple_versions = res.change;
        if (D.empty() && H.boxes.empty() && rng.chance(1, 3)) {
            out += "<" + root + attrs(top) + opt_ws() + "/>";
        } else {
            out += "<" + root + attrs(top) + opt_ws() + ">";
            if (!res.change) {
                if (!cfg.plain_style && rng.chance(1, 8)) { between(); out += "<note>The data included in this document is from www.openstreetmap.org.</note>"; between(); out += "<meta osm_base=\"2015-01-01T00:00:00Z\"/>"; }
                if (!H.boxes.empty()) {
                    const auto& b = H.boxes[0];
                    std::vector<Attr> ba{{"minlat", coord_text(b.y1, rng)}, {"minlon", coord_text(b.x1, rng)}, {"maxlat", coord_text(b.y2, rng)}, {"maxlon", coord_text(b.x2, rng)}};
                    if (rng.chance(1, 4)) ba.push_back({"origin", "http://www.openstreetmap.org/api/0.6"});
                    between();
                    empty_or_pair("bounds", attrs(ba));
                    res.hexp.boxes.push_back(b);
                }
                const bool write_visible = history || any_invisible;
                for (const auto& o : D) { if (o.type == mdl::CHANGESET) changeset(o); else object(o, write_visible); }
            } else {
                // sections: deleted objects in <delete>, the others in <create> or <modify>
                size_t i = 0;
                if (!cfg.plain_style && rng.chance(1, 8)) { between(); empty_or_pair(rng.coin() ? "create" : "delete", ""); ++res.sections; }
                while (i < D.size()) {
                    const bool vis = D[i].visible;
                    const std::string sec = vis ? (rng.coin() ? "create" : "modify") : "delete";
                    size_t j = i + 1;
                    const size_t maxlen = rng.chance(1, 3) ? 1 + rng.below(3) : 100000;
                    while (j < D.size() && D[j].visible == vis && j - i < maxlen) ++j;
                    between();
                    out += "<" + sec + opt_ws() + ">";
                    for (size_t k = i; k < j; ++k) object(D[k], false);
                    between();
                    out += "</" + sec + opt_ws() + ">";
                    ++res.sections;
                    i = j;
                }
            }
            between();
            out += "</" + root + opt_ws() + ">";
        }
        if (rng.chance(3, 4)) out += nl;
        res.bytes = std::move(out);
        res.desc = vh::fmt("xml <%s>: %zu objects, %s line ends, char_refs=%zu entities=%zu comments=%zu sections=%zu", root.c_str(), D.size(), nl == "\n" ? "LF" : "CRLF",
                           res.char_refs, res.entities, res.comments, res.sections);
        return std::move(res);
    }
};

// restrict a data set to what an OSM XML file says about it
inline void fit_xml(std::vector<Obj>& D) {
    for (auto& o : D) {
        for (auto& n : o.nodes) { n.x = UNDEF; n.y = UNDEF; }
        if (o.type == mdl::NODE && o.visible && o.x == UNDEF) { o.x = 0; o.y = 0; }   // a visible node has lat/lon
        if (o.type == mdl::CHANGESET && o.bx1 != UNDEF) { if (o.bx2 < o.bx1) std::swap(o.bx1, o.bx2); if (o.by2 < o.by1) std::swap(o.by1, o.by2); }
    }
}

// ==================================================================== OPL

struct OplResult {
    std::string bytes;
    std::vector<Obj> expect;
    std::string desc;
    size_t escapes = 0, redundant_escapes = 0, raw_utf8 = 0, comment_lines = 0, blank_lines = 0;
};

class OplEncoder {
    vh::Rng& rng;
    bool plain_style;
    OplResult res;
    unsigned redundant_den = 0;

    static bool raw_ok(uint32_t cp) {
        // letters that every reader of the format must take unescaped
        return (cp >= 0xc0 && cp <= 0x24f && cp != 0xd7 && cp != 0xf7) || (cp >= 0x410 && cp <= 0x44f) || (cp >= 0x4e00 && cp <= 0x9fff) || (cp >= 0x1f600 && cp <= 0x1f64f);
    }

    std::string str(const std::string& s) {
        std::string o;
        for (const uint32_t cp : decode_utf8(s)) {
            const bool special = cp <= 0x20 || cp == ',' || cp == '=' || cp == '@' || cp == '%' || cp == 0x7f;
            const bool plain_ascii = cp < 0x7f && !special;
            bool esc;
            if (special) esc = true;
            else if (plain_ascii) { esc = redundant_den && rng.chance(1, redundant_den); if (esc) ++res.redundant_escapes; }
            else esc = !(raw_ok(cp) && rng.coin());
            if (esc) {
                static const unsigned mins[] = {1, 1, 2, 4, 6};
                unsigned md = rng.pick(mins);
                if (cp == 0) md = 1;
                o += '%';
                o += hex_digits(cp, rng.coin(), md);
                o += '%';
                ++res.escapes;
            } else {
                mdl::append_utf8(o, cp);
                if (cp >= 0x80) ++res.raw_utf8;
            }
        }
        return o;
    }

    std::string tags(const Obj& o) {
        std::string s;
        for (size_t i = 0; i < o.tags.size(); ++i) { if (i) s += ','; s += str(o.tags[i].k); s += '='; s += str(o.tags[i].v); }
        return s;
    }

    std::string line(const Obj& o) {
        std::vector<std::string> f;
        auto opt = [&](bool is_default) { return !(is_default && rng.coin()); };
        if (o.type == mdl::CHANGESET) {
            if (opt(o.num_changes == 0)) f.push_back("k" + std::to_string(o.num_changes));
            if (opt(o.created_at == 0)) f.push_back("s" + (o.created_at == 0 && rng.coin() ? std::string() : iso_time(o.created_at)));
            if (opt(o.closed_at == 0)) f.push_back("e" + (o.closed_at == 0 ? std::string() : iso_time(o.closed_at)));
            if (opt(o.num_comments == 0)) f.push_back("d" + std::to_string(o.num_comments));
            if (opt(o.uid == 0)) f.push_back("i" + std::to_string(o.uid));
            if (opt(o.user.empty())) f.push_back("u" + str(o.user));
            if (o.bx1 != UNDEF) {
                f.push_back("x" + coord_text(o.bx1, rng)); f.push_back("y" + coord_text(o.by1, rng));
                f.push_back("X" + coord_text(o.bx2, rng)); f.push_back("Y" + coord_text(o.by2, rng));
            } else if (rng.coin()) {
                f.push_back("x"); f.push_back("y"); f.push_back("X"); f.push_back("Y");
            }
            if (opt(o.tags.empty())) f.push_back("T" + tags(o));
        } else {
            if (opt(o.version == 0)) f.push_back("v" + std::to_string(o.version));
            if (!o.visible || rng.coin()) f.push_back(o.visible ? "dV" : "dD");
            if (opt(o.changeset == 0)) f.push_back("c" + std::to_string(o.changeset));
            if (opt(o.timestamp == 0)) f.push_back("t" + (o.timestamp == 0 && rng.coin() ? std::string() : iso_time(o.timestamp)));
            if (opt(o.uid == 0)) f.push_back("i" + std::to_string(o.uid));
            if (opt(o.user.empty())) f.push_back("u" + str(o.user));
            if (opt(o.tags.empty())) f.push_back("T" + tags(o));
            if (o.type == mdl::NODE) {
                if (o.x != UNDEF) { f.push_back("x" + coord_text(o.x, rng)); f.push_back("y" + coord_text(o.y, rng)); }
                else if (rng.coin()) { f.push_back("x"); f.push_back("y"); }
            } else if (o.type == mdl::WAY) {
                if (opt(o.nodes.empty())) {
                    std::string s = "N";
                    for (size_t i = 0; i < o.nodes.size(); ++i) {
                        if (i) s += ',';
                        s += "n" + std::to_string(o.nodes[i].ref);
                        if (o.nodes[i].x != UNDEF) s += "x" + coord_text(o.nodes[i].x, rng) + "y" + coord_text(o.nodes[i].y, rng);
                        else if (rng.chance(1, 3)) s += "xy";   // what the library's writer emits for an undefined location
                    }
                    f.push_back(s);
                }
            } else {
                if (opt(o.members.empty())) {
                    std::string s = "M";
                    for (size_t i = 0; i < o.members.size(); ++i) {
                        if (i) s += ',';
                        s += "nwr"[o.members[i].type - 1];
                        s += std::to_string(o.members[i].ref) + "@" + str(o.members[i].role);
                    }
                    f.push_back(s);
                }
            }
        }
        if (!plain_style && rng.chance(1, 3)) rng.shuffle(f);
        std::string l(1, "nwrc"[o.type]);
        l += std::to_string(o.id);
        for (const auto& x : f) { l += ' '; l += x; }
        return l;
    }

public:
    OplEncoder(vh::Rng& r, bool plain) : rng(r), plain_style(plain) {}

    OplResult encode(const std::vector<Obj>& D) {
        res.expect = D;
        const std::string nl = (!plain_style && rng.chance(1, 4)) ? "\r\n" : "\n";
        if (!plain_style) redundant_den = static_cast<unsigned>(rng.pick(std::vector<int>{0, 0, 30, 4, 1}));
        std::string out;
        auto extras = [&] {
            if (plain_style) return;
            if (rng.chance(1, 12)) { out += "# a comment line, n1 v1 dV" + nl; ++res.comment_lines; }
            if (rng.chance(1, 12)) { out += nl; ++res.blank_lines; }
        };
        for (size_t i = 0; i < D.size(); ++i) {
            extras();
            out += line(D[i]);
            if (i + 1 < D.size() || rng.chance(3, 4)) out += nl;
        }
        if (D.empty() || out.empty() || out.back() == '\n') extras();
        res.bytes = std::move(out);
        res.desc = vh::fmt("opl: %zu objects, %s line ends, escapes=%zu (redundant %zu) raw_utf8=%zu comment_lines=%zu blank_lines=%zu", D.size(), nl == "\n" ? "LF" : "CRLF",
                           res.escapes, res.redundant_escapes, res.raw_utf8, res.comment_lines, res.blank_lines);
        return std::move(res);
    }
};

inline void fit_opl(std::vector<Obj>& D) {
    for (auto& o : D) {
        if (o.type == mdl::CHANGESET && o.bx1 != UNDEF) { if (o.bx2 < o.bx1) std::swap(o.bx1, o.bx2); if (o.by2 < o.by1) std::swap(o.by1, o.by2); }
        o.comments.clear();   // OPL has no discussions
    }
}

} // namespace c02

#endif // C02_ENC_TEXT_HPP
