// c08_common.hpp - the Writer scenario shared by the C08 harness binaries.
// The including TU decides which compression headers are present.
#ifndef C08_COMMON_HPP
#define C08_COMMON_HPP

#include "model.hpp"
#include "vh_hooks.hpp"

#include <osmium/io/opl_output.hpp>
#include <osmium/io/pbf_output.hpp>
#include <osmium/io/writer.hpp>
#include <osmium/io/xml_output.hpp>
#include <osmium/thread/pool.hpp>

#include <cxxabi.h>
#include <dirent.h>
#include <sys/stat.h>
#include <thread>

namespace c08 {

inline std::string demangle(const char* n) { int st = 0; char* d = abi::__cxa_demangle(n, nullptr, nullptr, &st); std::string r = (st == 0 && d) ? d : n; std::free(d); return r; }

struct Cfg { const char* fmt; int comp; bool fsync; };   // comp 0 none 1 gz 2 bz2
const Cfg CFGS[] = {
    {"osm", 0, false}, {"osm", 0, true}, {"osm", 1, false}, {"osm", 2, false}, {"osm", 1, true}, {"osm", 2, true},
    {"pbf", 0, false}, {"pbf", 0, true}, {"pbf", 1, false}, {"pbf", 2, true},
    {"opl", 0, false}, {"opl", 0, true}, {"opl", 1, false}, {"opl", 2, false}, {"opl", 1, true}, {"opl", 2, true},
};
constexpr size_t NCFG = sizeof(CFGS) / sizeof(CFGS[0]);

inline std::string fmt_string(const Cfg& c) { return std::string(c.fmt) + (c.comp == 1 ? ".gz" : c.comp == 2 ? ".bz2" : "") + (std::string(c.fmt) == "pbf" ? ",pbf_compression=none" : ""); }
inline std::string cfg_name(const Cfg& c) { return std::string(c.fmt) + (c.comp == 1 ? ".gz" : c.comp == 2 ? ".bz2" : "") + (c.fsync ? " fsync" : ""); }

inline std::vector<mdl::Obj> make_data(vh::Rng& rng, const Cfg& c, size_t n) {
    mdl::GenOpts go;
    go.charset = std::string(c.fmt) == "osm" ? mdl::Charset::xml_safe : mdl::Charset::any_utf8;
    go.max_string = 30; go.max_tags = 3; go.valid_locations_only = true; go.changeset_u32_max = false;
    std::vector<mdl::Obj> D;
    for (size_t i = 0; i < n; ++i) {
        const int type = i < n / 2 ? mdl::NODE : i < 3 * n / 4 ? mdl::WAY : mdl::RELATION;
        mdl::Obj o = mdl::gen_object(rng, go, type);
        o.id = static_cast<int64_t>(i) + 1; o.visible = true;
        if (o.version == 0) o.version = 1;
        if (o.timestamp == 0) o.timestamp = 1;
        if (o.uid == 0) o.uid = 2;
        if (o.user.empty()) o.user = "u";
        if (o.changeset == 0) o.changeset = 3;
        if (type == mdl::NODE && o.x == mdl::UNDEF) { o.x = 5; o.y = 6; }
        for (auto& nr : o.nodes) { nr.x = mdl::UNDEF; nr.y = mdl::UNDEF; }
        D.push_back(o);
    }
    return D;
}

// number of buffers the data is handed to the Writer in (5 unless a harness changes it)
inline int& buffers_per_file() { static int n = 5; return n; }

struct Outcome {
    std::string threw_at;        // "", "ctor", "write", "flush", "close"
    std::string error_type, error;
    size_t close_size = 0;
    bool close_returned = false;
    bool after_error_write_threw_io_error = false;
    bool after_error_checked = false;
    bool foreign = false;
};

// The Writer scenario: several buffers, an explicit flush in the middle, close.
// item_prefix: that many leading objects are handed over as single items (internal buffer of the
// Writer), followed by an explicit flush(), before the rest is written as whole buffers
inline Outcome run_writer(const std::string& path, const Cfg& c, const std::vector<mdl::Obj>& D, int nthreads, bool flush_mid, size_t item_prefix = 0) {
    Outcome o;
    try {
        osmium::thread::Pool pool{nthreads, 10};
        std::unique_ptr<osmium::io::Writer> writer;
        try {
            osmium::io::Header h; h.set("generator", "g");
            writer.reset(new osmium::io::Writer{osmium::io::File{path, fmt_string(c)}, h, osmium::io::overwrite::allow, c.fsync ? osmium::io::fsync::yes : osmium::io::fsync::no, pool});
        } catch (const std::exception& e) {
            o.threw_at = "ctor"; o.error_type = demangle(typeid(e).name()); o.error = e.what();
            return o;
        }
        auto note = [&](const char* at, const std::exception& e) { if (o.threw_at.empty()) { o.threw_at = at; o.error_type = demangle(typeid(e).name()); o.error = e.what(); } };
        const size_t per = std::max<size_t>(1, D.size() / static_cast<size_t>(buffers_per_file()));
        size_t i = 0;
        if (item_prefix > 0) {
            osmium::memory::Buffer ib{1024, osmium::memory::Buffer::auto_grow::yes};
            for (; i < item_prefix && i < D.size() && o.threw_at.empty(); ++i) {
                ib.clear();
                mdl::to_buffer(D[i], ib);
                try { (*writer)(*ib.begin()); } catch (const std::exception& e) { note("write", e); }
            }
            if (o.threw_at.empty()) { try { writer->flush(); } catch (const std::exception& e) { note("flush", e); } }
        }
        while (i < D.size() && o.threw_at.empty()) {
            osmium::memory::Buffer buf{16 * 1024, osmium::memory::Buffer::auto_grow::yes};
            for (size_t k = 0; k < per && i < D.size(); ++k, ++i) mdl::to_buffer(D[i], buf);
            try { (*writer)(std::move(buf)); } catch (const std::exception& e) { note("write", e); break; }
            if (flush_mid && i >= D.size() / 2 && i < D.size() / 2 + per) {
                try { writer->flush(); } catch (const std::exception& e) { note("flush", e); break; }
            }
        }
        if (o.threw_at.empty()) {
            try { o.close_size = writer->close(); o.close_returned = true; } catch (const std::exception& e) { note("close", e); }
        }
        if (!o.threw_at.empty()) {
            // a Writer in error state refuses further data
            o.after_error_checked = true;
            try {
                osmium::memory::Buffer buf{1024, osmium::memory::Buffer::auto_grow::yes};
                mdl::to_buffer(D[0], buf);
                (*writer)(std::move(buf));
            } catch (const osmium::io_error&) {
                o.after_error_write_threw_io_error = true;
            } catch (const std::exception&) {
            }
        }
        writer.reset();   // destructor must return
    } catch (...) {
        o.foreign = true;
    }
    return o;
}

inline std::string outcome_json(const Outcome& o) {
    return vh::fmt("{\"threw_at\":\"%s\",\"error_type\":\"%s\",\"error\":\"%s\",\"close_size\":%zu,\"close_returned\":%d,\"after_checked\":%d,\"after_io_error\":%d,\"foreign\":%d}",
                   o.threw_at.c_str(), vh::jesc(o.error_type).c_str(), vh::jesc(o.error, 300).c_str(), o.close_size, o.close_returned, o.after_error_checked, o.after_error_write_threw_io_error, o.foreign);
}

inline int thread_count() {
    int n = 0;
    if (DIR* d = ::opendir("/proc/self/task")) { while (auto* e = ::readdir(d)) if (e->d_name[0] != '.') ++n; ::closedir(d); }
    return n;
}


} // namespace c08

#endif // C08_COMMON_HPP
