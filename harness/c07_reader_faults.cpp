// C07 - the Reader pipeline always terminates and reports the first error.
//
// Scenarios (case i -> scenario, format, stop/fault point, configuration):
//   stop         : valid file, the consumer calls header() or not, k reads, then
//                  close() or just destroys the Reader
//   decomp-read  : the j-th Decompressor::read() throws (mock registered through
//                  CompressionFactory under file_compression::gzip)
//   decomp-close : Decompressor::close() throws, consumer reads to the end
//   corrupt      : PBF block n corrupted (inside zlib data / raw protobuf), XML
//                  syntax error at object m, OPL/o5m garbage at object m,
//                  truncated input, corrupt header
// Monitors: every scenario body runs in a runner thread under a bounded-progress
// watchdog; exceptions observed at each API call; data delivered after an
// error; Decompressor::read() calls and read(2) calls on the Reader's fd after
// close() returned (mock log / --wrap=read log, ordered by one logical clock);
// /proc/self/task and /proc/self/fd compared with the baseline taken before
// the Reader was constructed.

#include "model.hpp"
#include "vh_hooks.hpp"
#include "../c02_enc_o5m.hpp"

#include <osmium/io/compression.hpp>
#include <osmium/io/o5m_input.hpp>
#include <osmium/io/opl_input.hpp>
#include <osmium/io/opl_output.hpp>
#include <osmium/io/pbf_input.hpp>
#include <osmium/io/pbf_output.hpp>
#include <osmium/io/reader.hpp>
#include <osmium/io/writer.hpp>
#include <osmium/io/xml_input.hpp>
#include <osmium/io/xml_output.hpp>

#include <chrono>
#include <cxxabi.h>
#include <dirent.h>
#include <fstream>
#include <set>
#include <sstream>
#include <sys/stat.h>
#include <thread>

namespace {

std::atomic<uint64_t> g_clock{1};
inline uint64_t tick() { return g_clock.fetch_add(1, std::memory_order_relaxed); }

// ---- read(2) log (library calls are inlined into this TU, so --wrap=read sees them)
struct ReadEv { int fd; uint64_t seq; };
std::mutex g_read_mtx;
std::vector<ReadEv> g_read_log;
std::atomic<bool> g_log_reads{false};

} // namespace

std::atomic<uint64_t> g_bad_closes{0};
extern "C" int __real_close(int fd);
extern "C" int __wrap_close(int fd) {
    const int r = __real_close(fd);
    // closing a descriptor that is not open: the caller closed it twice. With a second open()
    // in between this would close somebody else's file.
    if (r != 0 && errno == EBADF && fd >= 0 && g_log_reads.load(std::memory_order_relaxed)) g_bad_closes.fetch_add(1, std::memory_order_relaxed);
    return r;
}

extern "C" ssize_t __real_read(int fd, void* buf, size_t n);
extern "C" ssize_t __wrap_read(int fd, void* buf, size_t n) {
    if (g_log_reads.load(std::memory_order_relaxed)) {
        const uint64_t s = tick();
        std::lock_guard<std::mutex> g{g_read_mtx};
        if (g_read_log.size() < 100000) g_read_log.push_back(ReadEv{fd, s});
    }
    return __real_read(fd, buf, n);
}

namespace {

// ---- mock decompressor
struct MockPlan {
    size_t piece = 4096;
    std::vector<size_t> plan;   // explicit piece sizes (then `piece` for the rest)
    long fail_at_read = -1;     // throw at this read() call (1-based)
    bool io_error_type = false; // throw a class derived from osmium::io_error instead of std::runtime_error
    bool fail_at_close = false;
};
MockPlan g_mock;
std::atomic<uint64_t> g_mock_reads{0};
std::atomic<uint64_t> g_mock_last_read_seq{0};
std::atomic<uint64_t> g_mock_close_calls{0};

struct InjectedFault : public std::runtime_error { using std::runtime_error::runtime_error; };
// real decompressors report their failures with classes derived from osmium::io_error (gzip_error, bzip2_error)
struct InjectedIoFault : public osmium::io_error { using osmium::io_error::io_error; };

class MockDecompressor final : public osmium::io::Decompressor {
    const char* m_data; size_t m_size; size_t m_pos = 0;
public:
    MockDecompressor(const char* d, size_t n) : m_data(d), m_size(n) {}
    std::string read() override {
        const uint64_t n = ++g_mock_reads;
        g_mock_last_read_seq = tick();
        if (g_mock.fail_at_read > 0 && n == static_cast<uint64_t>(g_mock.fail_at_read)) { if (g_mock.io_error_type) throw InjectedIoFault{"injected decompressor read fault"}; throw InjectedFault{"injected decompressor read fault"}; }
        if (m_pos >= m_size) return std::string{};
        size_t want = g_mock.piece;
        if (n - 1 < g_mock.plan.size()) want = g_mock.plan[n - 1];
        const size_t k = std::min(want ? want : 1, m_size - m_pos);
        std::string out{m_data + m_pos, k};
        m_pos += k;
        set_offset(m_pos);
        return out;
    }
    void close() override {
        ++g_mock_close_calls;
        if (g_mock.fail_at_close) { if (g_mock.io_error_type) throw InjectedIoFault{"injected decompressor close fault"}; throw InjectedFault{"injected decompressor close fault"}; }
    }
};

const bool g_registered = osmium::io::CompressionFactory::instance().register_compression(
    osmium::io::file_compression::gzip,
    [](int, osmium::io::fsync) -> osmium::io::Compressor* { return nullptr; },
    [](int) -> osmium::io::Decompressor* { return nullptr; },
    [](const char* d, size_t n) -> osmium::io::Decompressor* { return new MockDecompressor{d, n}; });

// ---- process monitors
std::set<int> open_fds() {
    std::set<int> s;
    if (DIR* d = ::opendir("/proc/self/fd")) {
        const int dfd = ::dirfd(d);
        while (auto* e = ::readdir(d)) if (e->d_name[0] != '.') { const int fd = std::atoi(e->d_name); if (fd != dfd) s.insert(fd); }
        ::closedir(d);
    }
    return s;
}
int thread_count() {
    int n = 0;
    if (DIR* d = ::opendir("/proc/self/task")) { while (auto* e = ::readdir(d)) if (e->d_name[0] != '.') ++n; ::closedir(d); }
    return n;
}
// bounded progress, not a wall-clock deadline: fires only when the predicate is false and no
// queue/pool hook event and no mock read has happened for `seconds`
template <typename F> bool wait_for(F&& pred, int seconds) {
    auto last_change = std::chrono::steady_clock::now();
    auto events = [] { return vhk::hs().events.load() + vhk::hs().pushes.load() + vhk::hs().pops.load() + g_mock_reads.load(); };
    uint64_t last_events = events();
    while (!pred()) {
        const uint64_t ev = events();
        const auto now = std::chrono::steady_clock::now();
        if (ev != last_events) { last_events = ev; last_change = now; }
        else if (now - last_change > std::chrono::seconds(seconds)) return false;
        std::this_thread::sleep_for(std::chrono::milliseconds(1));
        vh::heartbeat();
    }
    return true;
}
std::string demangle(const char* n) { int st = 0; char* d = abi::__cxa_demangle(n, nullptr, nullptr, &st); std::string r = (st == 0 && d) ? d : n; std::free(d); return r; }

// ---- files
enum Fmt { F_PBF_DENSE, F_PBF_RAW, F_XML, F_OPL, F_O5M, F_NFMT };
const char* FMT_NAME[] = {"pbf(zlib)", "pbf(raw)", "xml", "opl", "o5m"};
const char* fmt_suffix(int fmt) { return fmt <= F_PBF_RAW ? "pbf" : fmt == F_XML ? "osm" : fmt == F_OPL ? "opl" : "o5m"; }
std::string g_dir;

std::string slurp(const std::string& p) { std::ifstream in{p, std::ios::binary}; std::ostringstream ss; ss << in.rdbuf(); return ss.str(); }
void spit(const std::string& p, const std::string& d) { std::ofstream o{p, std::ios::binary | std::ios::trunc}; o.write(d.data(), static_cast<std::streamsize>(d.size())); }

struct Seed {
    std::vector<mdl::Obj> D;
    std::string bytes;
    std::vector<size_t> obj_end;   // for text formats: byte offset of the end of object i (best effort, XML/OPL)
    std::vector<std::pair<size_t, size_t>> pbf_blobs;  // (offset of blob data, size) of the OSMData blobs
    std::vector<size_t> pbf_blob_first_obj;            // index in D of the first object of each data blob
};

Seed make_seed(vh::Rng& rng, int fmt, osmium::thread::Pool& pool) {
    Seed s;
    mdl::GenOpts go;
    go.charset = fmt == F_XML ? mdl::Charset::xml_safe : mdl::Charset::any_utf8;
    go.max_string = 20; go.max_tags = 3; go.max_nodes = 5; go.max_members = 3; go.valid_locations_only = true; go.changeset_u32_max = false;
    const size_t nruns = 6 + rng.below(20);
    int64_t next_id[3] = {1, 1, 1};
    std::vector<size_t> run_start;
    for (size_t r = 0; r < nruns; ++r) {
        const int type = static_cast<int>(rng.below(3));
        const size_t n = 5 + rng.below(40);
        run_start.push_back(s.D.size());
        for (size_t i = 0; i < n; ++i) {
            mdl::Obj o = mdl::gen_object(rng, go, type);
            o.id = next_id[type]++; o.version = 1; o.visible = true;
            if (o.type == mdl::NODE && o.x == mdl::UNDEF) { o.x = 1; o.y = 2; }
            for (auto& nr : o.nodes) { nr.x = mdl::UNDEF; nr.y = mdl::UNDEF; }
            if (o.timestamp == 0) o.timestamp = 1;
            if (o.uid == 0) o.uid = 3;
            if (o.user.empty()) o.user = "u";
            s.D.push_back(o);
        }
    }
    if (fmt == F_O5M) {
        c02::fit_o5m(s.D, false);
        c02::O5mCfg cfg; cfg.plain_style = true;
        c02::O5mEncoder enc{rng, cfg};
        mdl::Header H; H.generator = "g";
        s.bytes = enc.encode(s.D, H).bytes;
        return s;
    }
    const std::string path = g_dir + "/seed";
    ::unlink(path.c_str());
    const char* opts = fmt == F_PBF_DENSE ? "pbf" : fmt == F_PBF_RAW ? "pbf,pbf_dense_nodes=false,pbf_compression=none" : fmt == F_XML ? "osm" : "opl";
    {
        osmium::io::File file{path, opts};
        osmium::io::Header h; h.set("generator", "g");
        osmium::io::Writer writer{file, h, osmium::io::overwrite::allow, pool};
        osmium::memory::Buffer buf{64 * 1024, osmium::memory::Buffer::auto_grow::yes};
        for (const auto& o : s.D) mdl::to_buffer(o, buf);
        writer(std::move(buf));
        writer.close();
    }
    s.bytes = slurp(path);
    ::unlink(path.c_str());
    if (fmt <= F_PBF_RAW) {
        // walk the framing: 4-byte length, BlobHeader, Blob
        size_t off = 0; size_t blob_no = 0;
        size_t obj = 0, run = 0;
        while (off + 4 <= s.bytes.size()) {
            const auto* u = reinterpret_cast<const unsigned char*>(s.bytes.data() + off);
            const size_t hl = (size_t(u[0]) << 24) | (size_t(u[1]) << 16) | (size_t(u[2]) << 8) | u[3];
            // datasize: parse the BlobHeader crudely (field 3 varint)
            size_t p = off + 4, end = off + 4 + hl; size_t datasize = 0;
            while (p < end) {
                const unsigned char tag = static_cast<unsigned char>(s.bytes[p++]);
                if ((tag & 7) == 2) { size_t len = 0; int sh = 0; while (true) { unsigned char c = static_cast<unsigned char>(s.bytes[p++]); len |= size_t(c & 0x7f) << sh; if (!(c & 0x80)) break; sh += 7; } p += len; }
                else { size_t v = 0; int sh = 0; while (true) { unsigned char c = static_cast<unsigned char>(s.bytes[p++]); v |= size_t(c & 0x7f) << sh; if (!(c & 0x80)) break; sh += 7; } if ((tag >> 3) == 3) datasize = v; }
            }
            if (blob_no > 0) {
                s.pbf_blobs.emplace_back(end, datasize);
                s.pbf_blob_first_obj.push_back(run < run_start.size() ? run_start[run] : s.D.size());
                // one block per type run (type changes start a new block; equal neighbouring types merge)
                ++run;
                while (run < run_start.size() && s.D[run_start[run]].type == s.D[run_start[run] - 1].type) ++run;
            }
            (void)obj;
            off = end + datasize;
            ++blob_no;
        }
    }
    return s;
}

struct Outcome {
    std::vector<std::string> events;       // "header:ok", "read:ok(n)", "read:throw(type: msg)", ...
    int throws = 0;
    std::string first_error_type, first_error;
    size_t objects_before_error = 0;
    bool data_after_error = false;
    bool read_after_error_did_not_throw = false;
    std::vector<mdl::Obj> got;
    uint64_t close_returned_seq = 0;
    bool foreign = false;
};

void case_fault(uint64_t idx, vh::Rng& rng) {
    const int fmt = static_cast<int>(idx % F_NFMT);
    const int scenario = static_cast<int>((idx / F_NFMT) % 4);   // 0 stop, 1 decomp-read, 2 decomp-close, 3 corrupt
    static const char* SC[] = {"stop", "decomp-read", "decomp-close", "corrupt"};
    const int nthreads = static_cast<int>(rng.pick(std::vector<int>{1, 4}));
    const int inq = static_cast<int>(rng.pick(std::vector<int>{2, 3, 20}));
    const int outq = static_cast<int>(rng.pick(std::vector<int>{2, 3, 20}));
    const bool pbf_pool = rng.coin();
    ::setenv("OSMIUM_MAX_INPUT_QUEUE_SIZE", std::to_string(inq).c_str(), 1);
    ::setenv("OSMIUM_MAX_OSMDATA_QUEUE_SIZE", std::to_string(outq).c_str(), 1);
    ::setenv("OSMIUM_USE_POOL_THREADS_FOR_PBF_PARSING", pbf_pool ? "true" : "false", 1);
    osmium::thread::Pool pool{nthreads, 5};                      // outside the monitored window
    Seed seed = make_seed(rng, fmt, pool);
    vhk::reset(rng.next() | 1, rng.pick(std::vector<uint32_t>{0, 100, 500}), 200);

    // ---- scenario parameters
    g_mock = MockPlan{};
    g_mock.piece = rng.pick(std::vector<size_t>{100, 1000, 4096, 100000});
    g_mock.io_error_type = rng.coin();
    // PBF: now and then the pieces end exactly at blob boundaries (each blob = one piece), so that
    // an injected failure arrives while the parser is waiting for the next BlobHeader
    if (fmt <= F_PBF_RAW && !seed.pbf_blobs.empty() && rng.coin()) {
        size_t pos = 0;
        for (const auto& b : seed.pbf_blobs) { const size_t end = b.first + b.second; g_mock.plan.push_back(end - pos); pos = end; }
    }
    const size_t npieces = g_mock.plan.empty() ? (seed.bytes.size() + g_mock.piece - 1) / g_mock.piece : g_mock.plan.size() + 1;
    bool via_mock = scenario == 1 || scenario == 2 || rng.coin();
    bool use_header = rng.coin();
    long stop_after = -1;            // reads before the consumer abandons (-1: read to the end)
    bool via_close = rng.coin();
    std::string bytes = seed.bytes;
    std::string fault_class = "none";
    size_t fault_first_obj = seed.D.size();   // objects with index >= this are located after the fault
    if (scenario == 0) {
        stop_after = static_cast<long>(rng.pick(std::vector<long>{0, 0, 1, 2, 3, 5, 8}));
        if (rng.chance(1, 6)) stop_after = -1;
    } else if (scenario == 1) {
        g_mock.fail_at_read = 1 + static_cast<long>(rng.below(npieces));   // 1..npieces: the last one is the read that would report the end of the data
        fault_class = "decompressor read throws";
    } else if (scenario == 2) {
        g_mock.fail_at_close = true;
        fault_class = "decompressor close throws";
    } else {
        const int kind = static_cast<int>(rng.below(4));
        if (kind == 0 && bytes.size() > 20) {                // truncated input
            bytes.resize(10 + rng.below(bytes.size() - 10));
            fault_class = "input truncated";
            fault_first_obj = seed.D.size();   // position unknown: only the prefix property is checked
        } else if (kind == 1) {                               // corrupt header
            if (fmt <= F_PBF_RAW) { bytes[4 + rng.below(8)] ^= 0x55; bytes[1] = 0x7f; }
            else if (fmt == F_XML) bytes.replace(bytes.find("<osm"), 4, "<xsm");
            else if (fmt == F_OPL) bytes.insert(0, "q1 garbage line\n");
            else bytes[3] = 'x';
            fault_class = "header corrupt";
            fault_first_obj = seed.D.size();
        } else if (fmt <= F_PBF_RAW && !seed.pbf_blobs.empty()) {   // corrupt n-th block
            const size_t b = rng.below(seed.pbf_blobs.size());
            const auto [off, size] = seed.pbf_blobs[b];
            if (size > 16) { for (size_t k = 0; k < 8; ++k) bytes[off + 8 + rng.below(size - 8)] ^= static_cast<char>(0xa5); }
            fault_class = fmt == F_PBF_DENSE ? "PBF block corrupt inside the zlib data" : "PBF block with corrupt protobuf";
            fault_first_obj = b + 1 < seed.pbf_blob_first_obj.size() ? seed.pbf_blob_first_obj[b + 1] : seed.D.size();
        } else {                                              // syntax error in the middle of the text
            const size_t pos = bytes.size() / 4 + rng.below(bytes.size() / 2);
            if (fmt == F_XML) bytes.insert(bytes.find('\n', pos) + 1, "<node id=\"1\" <broken>\n");
            else if (fmt == F_OPL) bytes.insert(bytes.find('\n', pos) + 1, "x!!! this is not an OPL line\n");
            else { bytes.resize(pos); bytes += std::string("\x10\x7f\xff\xff\xff\xff", 6); }
            fault_class = "data corrupt in the middle";
            fault_first_obj = seed.D.size();   // only the prefix property is checked
        }
        via_mock = rng.coin();
    }
    // PBF from a real file exercises the parser's own fd path
    const bool from_file = !via_mock && rng.coin();
    // a Reader that is asked for no entity type at all (header only): the data part is never parsed,
    // the pipeline has to shut down and release everything all the same (valid inputs only)
    const bool want_nothing = scenario == 0 && rng.chance(1, 5);
    const std::string cfg = vh::fmt("%s %s pool=%d inq=%d outq=%d pbf_pool=%d %s%s header=%d stop_after=%ld via=%s", SC[scenario], FMT_NAME[fmt], nthreads, inq, outq, pbf_pool,
                                    via_mock ? "mock-decompressor" : from_file ? "file" : "memory", fault_class == "none" ? "" : (" fault=" + fault_class).c_str(), use_header, stop_after,
                                    via_close ? "close" : "destructor") + (want_nothing ? " entity-bits=nothing" : "");
    vh::set_case_desc("%s", cfg.c_str());
    const std::string path = g_dir + "/in." + fmt_suffix(fmt);
    if (from_file) spit(path, bytes);

    // ---- run the scenario in a runner thread under the watchdog
    Outcome out;
    g_mock_reads = 0; g_mock_last_read_seq = 0; g_mock_close_calls = 0;
    { std::lock_guard<std::mutex> g{g_read_mtx}; g_read_log.clear(); }
    const std::set<int> fds_before = open_fds();
    // baseline: wait until threads of earlier phases (seed writer, previous pool) are gone from /proc
    wait_for([&] { return thread_count() <= 1 + nthreads; }, 3);
    const int threads_before = thread_count();
    std::atomic<bool> done{false};
    std::set<int> reader_fds;
    g_log_reads = true;
    std::thread runner{[&] {
        try {
            std::unique_ptr<osmium::io::Reader> reader;
            const std::string suffix = std::string(fmt_suffix(fmt)) + (via_mock ? ".gz" : "");
            try {
                const auto bits = want_nothing ? osmium::osm_entity_bits::nothing : osmium::osm_entity_bits::all;
                if (from_file) reader.reset(new osmium::io::Reader{osmium::io::File{path, suffix}, pool, bits});
                else reader.reset(new osmium::io::Reader{osmium::io::File{bytes.data(), bytes.size(), suffix}, pool, bits});
            } catch (const std::exception& e) {
                out.events.push_back(std::string("ctor:throw(") + demangle(typeid(e).name()) + ": " + e.what() + ")");
                ++out.throws; out.first_error_type = demangle(typeid(e).name()); out.first_error = e.what();
                done = true; return;
            }
            for (int fd : open_fds()) if (!fds_before.count(fd)) reader_fds.insert(fd);
            auto on_throw = [&](const char* api, const std::exception& e) {
                out.events.push_back(std::string(api) + ":throw(" + demangle(typeid(e).name()) + ": " + e.what() + ")");
                if (out.throws++ == 0) { out.first_error_type = demangle(typeid(e).name()); out.first_error = e.what(); out.objects_before_error = out.got.size(); }
            };
            if (use_header) {
                try { (void)reader->header(); out.events.push_back("header:ok"); }
                catch (const std::exception& e) { on_throw("header", e); }
            }
            long reads = 0;
            bool ended = false;
            while (!ended && (stop_after < 0 || reads < stop_after)) {
                try {
                    osmium::memory::Buffer b = reader->read();
                    ++reads;
                    if (!b) { out.events.push_back("read:eof"); ended = true; break; }
                    const size_t before = out.got.size();
                    mdl::from_buffer(b, out.got);
                    if (out.throws > 0 && out.got.size() > before) out.data_after_error = true;
                    if (out.throws > 0) out.read_after_error_did_not_throw = true;
                } catch (const std::exception& e) {
                    const bool first = out.throws == 0;
                    on_throw("read", e);
                    ++reads;
                    if (!first) break;           // second read after the error also threw: good
                    if (stop_after >= 0) break;
                    // one more read after the first error: it must throw again, never deliver data
                }
                vh::heartbeat();
                if (reads > 100000) break;
            }
            if (via_close) {
                try { reader->close(); out.events.push_back("close:ok"); }
                catch (const std::exception& e) { on_throw("close", e); }
                out.close_returned_seq = tick();
                // give a runaway parser thread the chance to show itself
                std::this_thread::sleep_for(std::chrono::milliseconds(rng.pick(std::vector<int>{0, 2, 10})));
            }
            reader.reset();
            if (!via_close) out.close_returned_seq = tick();
        } catch (...) {
            out.foreign = true;
        }
        done = true;
    }};
    if (!wait_for([&] { return done.load(); }, 60)) {
        vh::violation(std::string("hang: Reader API call or destructor did not return: ") + SC[scenario] + " " + FMT_NAME[fmt], cfg);
        runner.detach();
        vh::abort_shard_after_hang(vh::st().range_to - vh::st().current_case.load() - 1);
    }
    runner.join();
    g_log_reads = false;
    if (out.foreign) vh::violation("exception not derived from std::exception escaped the Reader", cfg);

    // ---- (5) threads and fds back to the baseline
    wait_for([&] { return thread_count() <= threads_before; }, 5);
    if (thread_count() > threads_before) vh::violation(std::string("thread leaked after the Reader was destroyed: ") + SC[scenario] + " " + FMT_NAME[fmt], cfg + vh::fmt(" threads %d -> %d", threads_before, thread_count()));
    {
        std::string leaked;
        for (int fd : open_fds()) if (!fds_before.count(fd)) leaked += std::to_string(fd) + " ";
        if (!leaked.empty()) {
            vh::violation(std::string("file descriptor leaked after the Reader was destroyed: ") + (out.throws ? "after an error: " : "no error: ") + FMT_NAME[fmt] + (from_file ? " from file" : " from memory"), cfg + " leaked fds: " + leaked);
            std::istringstream ss{leaked}; int fd; while (ss >> fd) ::close(fd);
        }
    }
    if (g_bad_closes.exchange(0) > 0) vh::violation(std::string("close(2) called on a descriptor that is not open (descriptor closed twice): ") + FMT_NAME[fmt] + (from_file ? " from file" : ""), cfg);
    // ---- (4) nothing is read from the input after close() returned
    if (out.close_returned_seq) {
        if (via_mock && g_mock_last_read_seq.load() > out.close_returned_seq) vh::violation(std::string("Decompressor::read() called after close() returned: ") + FMT_NAME[fmt], cfg);
        std::lock_guard<std::mutex> g{g_read_mtx};
        size_t late = 0;
        for (const auto& ev : g_read_log) if (ev.seq > out.close_returned_seq && reader_fds.count(ev.fd)) ++late;
        if (late) vh::violation(std::string("input file read after close() returned: ") + FMT_NAME[fmt] + (from_file ? " from file" : ""), cfg + vh::fmt(" %zu read(2) calls on the Reader's fd after close()/destructor returned", late));
        vh::count("reads_on_reader_fd_logged", g_read_log.size());
    }
    // ---- (2)(3) error reporting
    const bool read_to_end = stop_after < 0;
    std::string evs; for (auto& e : out.events) { evs += e; evs += ' '; }
    if (out.data_after_error) vh::violation(std::string("data delivered after an error was reported: ") + FMT_NAME[fmt], cfg + " | " + evs);
    else if (out.read_after_error_did_not_throw) vh::violation(std::string("read() after a reported error did not throw: ") + FMT_NAME[fmt], cfg + " | " + evs);
    // a fault only counts if it demonstrably fired
    const bool fault_fired = scenario != 1 || g_mock_reads.load() >= static_cast<uint64_t>(g_mock.fail_at_read);
    if (!fault_fired) vh::count("faults_not_fired(inconclusive)");
    if (scenario != 0 && read_to_end && fault_fired) {
        // a truncated OPL/o5m/PBF file can be a shorter valid file (cut at a line,
        // dataset or blob boundary): only XML truncation must always be reported
        // Likewise flipped bytes inside an *uncompressed* protobuf block and garbage spliced into an
        // o5m file can still be well-formed data; they are judged for termination, leaks and
        // "no data after an error" only. Corruption inside zlib data, XML and OPL syntax errors,
        // corrupt headers and injected decompressor failures must always be reported.
        const bool must_report = !(fault_class == "input truncated" && fmt != F_XML) &&
                                 fault_class != "PBF block with corrupt protobuf" &&
                                 !(fault_class == "data corrupt in the middle" && fmt == F_O5M);
        if (out.throws == 0 && !must_report) {
            vh::count("corruptions_not_judged(can be well-formed data)");
        } else if (out.throws == 0) {
            vh::violation("injected failure never reported to the caller: " + fault_class + ": " + FMT_NAME[fmt], cfg + " | " + evs);
        } else {
            vh::count("faults_reported");
            if ((scenario == 1 || scenario == 2) && out.first_error.find("injected decompressor") == std::string::npos)
                vh::violation("first reported error is not the injected one: " + fault_class + ": " + FMT_NAME[fmt], cfg + " | " + evs);
        }
    }
    if (scenario == 0 && out.throws > 0) vh::violation(std::string("Reader reported an error on a valid file: ") + FMT_NAME[fmt], cfg + " | " + evs);
    // delivered objects are a prefix of the file's objects, none located after the fault
    {
        size_t i = 0;
        for (; i < out.got.size() && i < seed.D.size(); ++i) if (!mdl::diff(seed.D[i], out.got[i]).empty()) break;
        if (i < out.got.size() && fault_class != "header corrupt" && fault_class != "data corrupt in the middle" && fault_class != "input truncated" && fault_class != "PBF block with corrupt protobuf")
            vh::violation(std::string("delivered objects are not a prefix of the file: ") + SC[scenario] + " " + FMT_NAME[fmt], cfg + vh::fmt(" | first difference at %zu", i));
        if (fault_first_obj < seed.D.size() && out.got.size() > fault_first_obj && scenario == 3 && fault_class != "PBF block with corrupt protobuf")
            vh::violation(std::string("objects located after the corrupt block were delivered: ") + FMT_NAME[fmt], cfg + vh::fmt(" | %zu delivered, block ends at %zu", out.got.size(), fault_first_obj));
    }
    if (from_file) ::unlink(path.c_str());
    vh::count(std::string("scenario_") + SC[scenario]);
    vh::count("api_events", out.events.size());
    if (scenario == 0 && stop_after >= 0) vh::count("early_stops");
    if (want_nothing) { vh::count("readers_asked_for_no_entity_type"); if (!out.got.empty()) vh::violation(std::string("objects delivered although no entity type was asked for: ") + FMT_NAME[fmt], cfg); }
    vh::count("hook_events", vhk::hs().events.load());
    vh::cover("fault_class", fault_class + " / " + FMT_NAME[fmt]);
    vh::cover("input", via_mock ? "mock" : from_file ? "file" : "memory");
    vh::evaluated();
    vh::distinct(vh::hash_u64(vhk::signature(), vh::hash_str(cfg)));
    if (idx % 100 < 4) vh::sample_str(cfg + " => " + evs);
}

} // namespace

int main(int argc, char** argv) {
    vh::parse_args(argc, argv);
    if (!g_registered) return 2;
    { std::thread warm{[] {}}; warm.join(); }
    const char* cache = std::getenv("VERIF_CACHE");
    const std::string base = cache ? cache : "/verif/.cache";
    ::mkdir((base + "/scratch").c_str(), 0755);
    g_dir = base + "/scratch/c07-" + std::to_string(::getpid());
    ::mkdir(g_dir.c_str(), 0755);
    const int rc = vh::run_cases(argc, argv, 800, case_fault);
    ::rmdir(g_dir.c_str());
    return rc;
}
