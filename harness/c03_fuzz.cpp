// C03 - libFuzzer target: arbitrary bytes through the real Reader (memory
// buffer input) for the format given at compile time (-DC03_FORMAT="pbf"),
// everything delivered is traversed on exact-fit copies. Exceptions derived
// from std::exception are the accepted outcome; anything else (sanitizer
// report, abort, other exception types -> std::terminate, timeout) makes
// libFuzzer write an artifact, which the driver re-runs one per process.

#include "vh_hooks.hpp"
#include "traverse.hpp"

#include <osmium/io/any_input.hpp>
#include <osmium/io/reader.hpp>
#include <osmium/thread/pool.hpp>

#include <cstdint>
#include <cstdlib>
#include <cstring>

#ifndef C03_FORMAT
# define C03_FORMAT "osm"
#endif

extern "C" int LLVMFuzzerTestOneInput(const uint8_t* data, size_t size) {
    static osmium::thread::Pool pool{2, 20};
    static trv::Stats stats;
    try {
        osmium::io::File file{reinterpret_cast<const char*>(data), size, C03_FORMAT};
        osmium::io::Reader reader{file, osmium::osm_entity_bits::all, pool};
        (void)reader.header();
        while (osmium::memory::Buffer buffer = reader.read()) {
            const std::string problem = trv::traverse_buffer(buffer, stats);
            if (!problem.empty()) {
                std::fprintf(stderr, "C03-STRUCTURE-VIOLATION: %s\n", problem.c_str());
                std::abort();
            }
        }
        reader.close();
    } catch (const std::exception&) {
        // accepted
    }
    return 0;
}
