// C06 - the parse result is independent of how the input byte stream is chunked.
//
// A Decompressor registered through the library's own CompressionFactory
// (under file_compression::gzip, whose real implementation is not included in
// this TU) hands the bytes of a file to the Reader in caller-chosen pieces.
// Oracle: the result (header, object sequence, or error type + message) of
// the one-piece run of the same bytes.
//
// modes: exh   - files <= 256 bytes: every single cut and every pair of cuts
//        fixed - piece sizes 1,2,3,5,7,8,9,10,11,4095,4096,4097 (1 only <= 64 KiB)
//        random- seeded random cut sequences (also for the large files)

#include "model.hpp"
#include "vh_hooks.hpp"
#include "../c02_enc_o5m.hpp"

#include <osmium/io/compression.hpp>
#include <osmium/io/o5m_input.hpp>
#include <osmium/io/opl_input.hpp>
#include <osmium/io/opl_output.hpp>
#include <osmium/io/pbf_input.hpp>
#include <osmium/io/pbf_output.hpp>
#include <osmium/io/reader.hpp>
#include <osmium/io/writer.hpp>
#include <osmium/io/xml_input.hpp>
#include <osmium/io/xml_output.hpp>

#include <cxxabi.h>
#include <dirent.h>
#include <fstream>
#include <sstream>
#include <sys/stat.h>

namespace {

// ------------------------------------------------------------------ piece decompressor

std::vector<size_t> g_plan;        // piece sizes, used in order; the last one repeats; empty = one piece
std::atomic<uint64_t> g_pieces_delivered{0};

class PieceDecompressor final : public osmium::io::Decompressor {
    const char* m_data;
    size_t m_size;
    size_t m_pos = 0;
    size_t m_idx = 0;
public:
    PieceDecompressor(const char* d, size_t n) : m_data(d), m_size(n) {}
    std::string read() override {
        if (m_pos >= m_size) return std::string{};
        size_t n = m_size - m_pos;
        if (!g_plan.empty()) {
            const size_t want = g_plan[std::min(m_idx, g_plan.size() - 1)];
            ++m_idx;
            if (want > 0 && want < n) n = want;
        }
        std::string out{m_data + m_pos, n};
        m_pos += n;
        set_offset(m_pos);
        ++g_pieces_delivered;
        return out;
    }
    void close() override {}
};

const bool g_registered = osmium::io::CompressionFactory::instance().register_compression(
    osmium::io::file_compression::gzip,
    [](int, osmium::io::fsync) -> osmium::io::Compressor* { return nullptr; },
    [](int) -> osmium::io::Decompressor* { return nullptr; },
    [](const char* d, size_t n) -> osmium::io::Decompressor* { return new PieceDecompressor{d, n}; });

// ------------------------------------------------------------------ results

std::string demangle(const char* n) {
    int st = 0;
    char* d = abi::__cxa_demangle(n, nullptr, nullptr, &st);
    std::string r = (st == 0 && d) ? d : n;
    std::free(d);
    return r;
}

struct Result {
    bool ok = false;
    bool header_ok = false;
    std::string generator;
    std::vector<mdl::Box> boxes;
    std::vector<mdl::Obj> objs;
    std::string error_type, error;
    bool foreign = false;
};

osmium::thread::Pool* g_pool = nullptr;

Result run_reader(const std::string& bytes, const std::string& fmt, const std::vector<size_t>& plan) {
    g_plan = plan;
    Result r;
    try {
        osmium::io::File file{bytes.data(), bytes.size(), fmt + ".gz"};
        osmium::io::Reader reader{file, osmium::osm_entity_bits::all, *g_pool};
        const osmium::io::Header h = reader.header();
        r.header_ok = true;
        r.generator = h.get("generator");
        for (const auto& b : h.boxes()) r.boxes.push_back(mdl::Box{b.bottom_left().x(), b.bottom_left().y(), b.top_right().x(), b.top_right().y()});
        while (osmium::memory::Buffer buffer = reader.read()) mdl::from_buffer(buffer, r.objs);
        reader.close();
        r.ok = true;
    } catch (const std::exception& e) {
        r.error = e.what();
        r.error_type = demangle(typeid(e).name());
    } catch (...) {
        r.foreign = true;
        r.error_type = "non-std exception";
    }
    return r;
}

// "" if equal, else a stable description of the difference class
std::string compare(const Result& a, const Result& b, std::string* detail) {
    if (b.foreign) return "exception not derived from std::exception";
    if (a.ok != b.ok) { *detail = a.ok ? ("one piece: ok, chunked: " + b.error_type + ": " + b.error) : ("one piece: " + a.error_type + ": " + a.error + ", chunked: ok"); return a.ok ? "valid in one piece, error when chunked" : "error in one piece, accepted when chunked"; }
    if (!a.ok) {
        if (a.error_type != b.error_type) { *detail = a.error_type + " vs " + b.error_type + " (" + a.error + " / " + b.error + ")"; return "different error type"; }
        if (a.error != b.error) { *detail = a.error + " / " + b.error; return "different error message"; }
        if (a.header_ok != b.header_ok) { *detail = "header availability differs"; return "error reported at a different stage"; }
    }
    if (a.header_ok && b.header_ok) {
        if (a.generator != b.generator) { *detail = a.generator + " / " + b.generator; return "header differs"; }
        if (a.boxes.size() != b.boxes.size()) { *detail = "box count"; return "header differs"; }
    }
    if (a.ok) {
        if (a.objs.size() != b.objs.size()) { *detail = vh::fmt("%zu vs %zu objects", a.objs.size(), b.objs.size()); return "object count differs"; }
        for (size_t i = 0; i < a.objs.size(); ++i) {
            std::string d;
            const std::string f = mdl::diff(a.objs[i], b.objs[i], &d);
            if (!f.empty()) { *detail = vh::fmt("object %zu: ", i) + d; return "object content differs (" + f + ")"; }
        }
    }
    return "";
}

// ------------------------------------------------------------------ files

struct SeedFile { std::string fmt; std::string name; std::string bytes; bool truncated; };
std::vector<SeedFile> g_files;
std::vector<Result> g_base;   // one-piece results (lazily computed)
std::vector<bool> g_have_base;

std::string slurp(const std::string& path) {
    std::ifstream in{path, std::ios::binary};
    std::ostringstream ss; ss << in.rdbuf();
    return ss.str();
}

std::string write_with_writer(const std::string& dir, const std::string& fmtopts, const std::vector<mdl::Obj>& D, const mdl::Header& H) {
    const std::string path = dir + "/seed";
    ::unlink(path.c_str());
    osmium::io::Header h;
    h.set("generator", H.generator);
    for (const auto& b : H.boxes) h.add_box(osmium::Box{osmium::Location{b.x1, b.y1}, osmium::Location{b.x2, b.y2}});
    {
        osmium::io::File file{path, fmtopts};
        osmium::io::Writer writer{file, h, osmium::io::overwrite::allow, *g_pool};
        osmium::memory::Buffer buf{64 * 1024, osmium::memory::Buffer::auto_grow::yes};
        for (const auto& o : D) mdl::to_buffer(o, buf);
        writer(std::move(buf));
        writer.close();
    }
    std::string bytes = slurp(path);
    ::unlink(path.c_str());
    return bytes;
}

void build_files(uint64_t seed) {
    const char* cache = std::getenv("VERIF_CACHE");
    const std::string base = cache ? cache : "/verif/.cache";
    ::mkdir((base + "/scratch").c_str(), 0755);
    const std::string dir = base + "/scratch/c06-" + std::to_string(::getpid());
    ::mkdir(dir.c_str(), 0755);
    vh::Rng rng{seed, 0xF11E5};
    auto add = [&](const std::string& fmt, const std::string& name, const std::string& bytes) {
        g_files.push_back(SeedFile{fmt, name, bytes, false});
        // truncated variants
        if (bytes.size() > 4) {
            for (int k = 0; k < 3; ++k) {
                const size_t cut = 1 + rng.below(bytes.size() - 1);
                g_files.push_back(SeedFile{fmt, name + vh::fmt(" truncated", 0), bytes.substr(0, cut), true});
            }
            g_files.push_back(SeedFile{fmt, name + " truncated", bytes.substr(0, bytes.size() - 1), true});
        }
    };
    struct F { const char* fmt; const char* opts; mdl::Charset cs; bool changesets; };
    const F fmts[] = {{"osm", "osm", mdl::Charset::xml_safe, true}, {"osc", "osc", mdl::Charset::xml_safe, false},
                      {"pbf", "pbf,pbf_compression=none", mdl::Charset::any_utf8, false}, {"pbf", "pbf,pbf_dense_nodes=false", mdl::Charset::any_utf8, false},
                      {"pbf", "osh.pbf,locations_on_ways=true", mdl::Charset::any_utf8, false}, {"opl", "opl", mdl::Charset::any_utf8, true}};
    for (const auto& f : fmts) {
        mdl::GenOpts go;
        go.charset = f.cs;
        go.allow_changesets = f.changesets;
        go.allow_discussions = f.changesets && std::string(f.fmt) == "osm";
        go.changeset_u32_max = false;
        go.valid_locations_only = true;
        go.history = std::string(f.opts).find("os") == 0 && std::string(f.opts) != "osm";
        // tiny (few short objects), small, medium, large
        {
            mdl::GenOpts tiny = go; tiny.max_string = 6; tiny.max_tags = 1; tiny.max_nodes = 2; tiny.max_members = 1;
            for (int k = 0; k < 3; ++k) {
                mdl::Header H; H.generator = "g";
                add(f.fmt, std::string(f.opts) + " tiny", write_with_writer(dir, f.opts, mdl::gen_dataset(rng, tiny, 1 + rng.below(2)), H));
            }
        }
        add(f.fmt, std::string(f.opts) + " small", write_with_writer(dir, f.opts, mdl::gen_dataset(rng, go, 12), mdl::gen_header(rng, f.cs)));
        { mdl::GenOpts m = go; m.max_string = 60; add(f.fmt, std::string(f.opts) + " medium", write_with_writer(dir, f.opts, mdl::gen_dataset(rng, m, 400), mdl::gen_header(rng, f.cs))); }
        if (vh::thorough()) { mdl::GenOpts m = go; m.max_string = 40; add(f.fmt, std::string(f.opts) + " large", write_with_writer(dir, f.opts, mdl::gen_dataset(rng, m, 20000), mdl::gen_header(rng, f.cs))); }
    }
    // o5m / o5c from the specification-derived encoder: tiny files, a file whose only dataset has a
    // 2-byte length (>= 128 bytes payload: a way with many node refs), and files with long strings
    for (int k = 0; k < 6; ++k) {
        mdl::GenOpts go; go.valid_locations_only = true; go.changeset_u32_max = false;
        go.max_string = k < 2 ? 6 : 60; go.max_tags = k < 2 ? 1 : 4; go.max_nodes = 3; go.max_members = 3;
        std::vector<mdl::Obj> D = mdl::gen_dataset(rng, go, k < 2 ? 2 : 30);
        if (k == 2 || k == 3) {
            D.clear();
            mdl::Obj w = mdl::gen_object(rng, go, mdl::WAY);
            w.tags.clear(); w.user = "u"; w.nodes.clear();
            for (int n = 0; n < (k == 2 ? 125 : 200); ++n) w.nodes.push_back(mdl::NodeRef{100 + n, mdl::UNDEF, mdl::UNDEF});
            D.push_back(w);
        }
        const bool o5c = k == 5;
        c02::fit_o5m(D, o5c);
        c02::O5mCfg cfg; cfg.o5c = o5c; cfg.plain_style = k < 4;
        c02::O5mEncoder enc{rng, cfg};
        mdl::Header H; H.generator = "g";
        add(o5c ? "o5c" : "o5m", vh::fmt("encoder o5m #%d", k), enc.encode(D, H).bytes);
    }
    // o5m: fixtures (and whatever else is in the seeds directory)
    const std::string sdir = vh::arg("seeds", "/verif/seeds/o5m");
    if (DIR* d = ::opendir(sdir.c_str())) {
        std::vector<std::string> names;
        while (auto* e = ::readdir(d)) if (e->d_name[0] != '.') names.push_back(e->d_name);
        ::closedir(d);
        std::sort(names.begin(), names.end());
        for (const auto& n : names) add(n.find(".o5c") != std::string::npos ? "o5c" : "o5m", "fixture " + n, slurp(sdir + "/" + n));
    }
    ::rmdir(dir.c_str());
    g_base.resize(g_files.size());
    g_have_base.assign(g_files.size(), false);
}

const Result& base_result(size_t k) {
    if (!g_have_base[k]) { g_base[k] = run_reader(g_files[k].bytes, g_files[k].fmt, {}); g_have_base[k] = true; vh::count(g_base[k].ok ? "one_piece_runs_ok" : "one_piece_runs_error"); }
    return g_base[k];
}

uint64_t n_runs = 0;

void check_plan(size_t k, const std::vector<size_t>& plan, const std::string& plan_class, const std::string& plan_desc) {
    const SeedFile& f = g_files[k];
    const Result& a = base_result(k);
    const Result b = run_reader(f.bytes, f.fmt, plan);
    ++n_runs;
    std::string detail;
    const std::string d = compare(a, b, &detail);
    if (!d.empty()) {
        vh::violation(f.fmt + (f.truncated ? " (truncated file)" : "") + ": " + d + " [" + plan_class + "]",
                      f.name + vh::fmt(" (%zu bytes), pieces %s: ", f.bytes.size(), plan_desc.c_str()) + detail);
    }
    vh::cover("format", f.fmt + (f.truncated ? " truncated" : ""));
    vh::cover("plan_class", plan_class);
}

std::vector<size_t> small_files;   // indexes of files <= 256 bytes

void case_exh(uint64_t idx, vh::Rng& rng) {
    // case = (small file, first cut i)
    uint64_t acc = 0;
    for (size_t k : small_files) {
        const size_t n = g_files[k].bytes.size();
        if (idx < acc + (n - 1)) {
            const size_t i = 1 + static_cast<size_t>(idx - acc);
            vh::set_case_desc("exh file=%s (%zu bytes) first cut %zu", g_files[k].name.c_str(), n, i);
            check_plan(k, {i, n}, "single cut", vh::fmt("[%zu|rest]", i));
            const size_t pair_limit = static_cast<size_t>(vh::arg_int("pair-limit", 256));
            uint64_t done = 1;
            if (n <= pair_limit) {
                for (size_t j = i + 1; j < n; ++j) { check_plan(k, {i, j - i, n}, "two cuts", vh::fmt("[%zu|%zu|rest]", i, j - i)); ++done; }
                vh::count("files_cut_pairs_exhaustive", i == 1);
            } else {
                // larger small files (quick tier): every single cut, and for each first cut
                // the neighbouring and a few seeded second cuts
                for (size_t j : {i + 1, i + 2, i + 3, i + 8, i + 1 + static_cast<size_t>(rng.below(n)), i + 1 + static_cast<size_t>(rng.below(n)), n - 1})
                    if (j > i && j < n) { check_plan(k, {i, j - i, n}, "two cuts", vh::fmt("[%zu|%zu|rest]", i, j - i)); ++done; }
            }
            vh::evaluated(done);
            vh::count("distinct_by_construction", done);
            vh::count("exhaustive_cut_pairs", done);
            if (i == 1) vh::sample_str(vh::fmt("every cut pair of %s (%zu bytes, format %s)", g_files[k].name.c_str(), n, g_files[k].fmt.c_str()));
            return;
        }
        acc += n - 1;
    }
}

uint64_t exh_total() { uint64_t t = 0; for (size_t k : small_files) t += g_files[k].bytes.size() - 1; return t; }

void case_fixed(uint64_t idx, vh::Rng&) {
    static const size_t sizes[] = {1, 2, 3, 5, 7, 8, 9, 10, 11, 4095, 4096, 4097};
    const size_t k = static_cast<size_t>(idx / 12);
    const size_t s = sizes[idx % 12];
    if (k >= g_files.size()) return;
    if (s == 1 && g_files[k].bytes.size() > 65536) return;
    if (s < 4 && g_files[k].bytes.size() > 300000) return;
    vh::set_case_desc("fixed file=%s size %zu", g_files[k].name.c_str(), s);
    check_plan(k, {s}, vh::fmt("fixed piece size %zu", s), vh::fmt("%zu,%zu,...", s, s));
    vh::evaluated();
    vh::count("distinct_by_construction");
    vh::count("fixed_size_runs");
}

void case_random(uint64_t idx, vh::Rng& rng) {
    const size_t k = static_cast<size_t>(rng.below(g_files.size()));
    const size_t n = g_files[k].bytes.size();
    std::vector<size_t> plan;
    const int kind = static_cast<int>(rng.below(4));
    size_t total = 0;
    std::string cls;
    uint64_t h = vh::hash_u64(k);
    while (total < n && plan.size() < 100000) {
        size_t p;
        switch (kind) {
            case 0: p = 1 + rng.below(16); cls = "random pieces 1..16"; break;
            case 1: p = 1 + rng.below(3); cls = "random pieces 1..3"; break;
            case 2: p = rng.chance(1, 8) ? 1 : 1 + rng.below(5000); cls = "random pieces 1..5000"; break;
            default: p = rng.coin() ? 1 : 1 + rng.below(n); cls = "random pieces 1..n"; break;
        }
        plan.push_back(p);
        total += p;
        h = vh::hash_u64(p, h);
    }
    plan.push_back(n);
    vh::set_case_desc("random file=%s %s", g_files[k].name.c_str(), cls.c_str());
    check_plan(k, plan, cls, vh::fmt("%zu seeded pieces", plan.size()));
    vh::evaluated();
    vh::distinct(h);
    vh::count("random_plan_runs");
    if (idx % 500 == 0) vh::sample_str(vh::fmt("%s (%zu bytes) cut into %zu %s", g_files[k].name.c_str(), n, plan.size(), cls.c_str()));
}

} // namespace

int main(int argc, char** argv) {
    vh::parse_args(argc, argv);
    if (!g_registered) { std::fprintf(stderr, "could not register the piece decompressor\n"); return 2; }
    g_pool = new osmium::thread::Pool{2, 20};
    build_files(vh::st().seed);
    for (size_t k = 0; k < g_files.size(); ++k) if (g_files[k].bytes.size() >= 2 && g_files[k].bytes.size() <= 256) small_files.push_back(k);
    const std::string mode = vh::arg("mode", "fixed");
    if (mode == "count") { std::printf("%zu %" PRIu64 " %zu\n", g_files.size(), exh_total(), small_files.size()); return 0; }
    auto finish = [] {
        vh::count("reader_runs", n_runs);
        vh::count("pieces_delivered", g_pieces_delivered.load());
        vh::count_max("max_seed_files", g_files.size());
    };
    if (mode == "exh") return vh::run_cases(argc, argv, exh_total(), case_exh, finish);
    if (mode == "fixed") return vh::run_cases(argc, argv, g_files.size() * 12, case_fixed, finish);
    return vh::run_cases(argc, argv, 2000, case_random, finish);
}
