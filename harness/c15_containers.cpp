// C15 - id sets, relation maps and the item stash match their set/map models.
//
// Every case is one random operation history, replayed step by step against a
// reference model; every return value of the container is compared with the
// model after each step.
//
// mode=idset        IdSetDense<T,chunk_bits> for T in {uint32_t,uint64_t} x
//                   chunk_bits in {3,4,8,22}, IdSetSmall<T>, nwr_array<IdSet>.
//                   Model: std::set<uint64_t> per set object (three objects per
//                   history so that copy/assign/move/swap are part of the
//                   history). Id universes: dense around every chunk border of
//                   a few low chunks / sparse around far chunk borders / top of
//                   the id range (2^32-1 for uint32_t, memory-bounded for
//                   uint64_t, always crossing 2^32 where affordable).
// mode=idset_heavy  the instantiations whose chunk-pointer vector is 256-512 MB
//                   when the top of the range is used (chunk_bits 3 and 4 with
//                   ids near 2^32); few cases, run with low parallelism.
// mode=relmap       RelationsMapStash::add / add_members with 32/64-bit mixes
//                   (the first 64-bit pair at every position of the history),
//                   then one of the three builders; model: set of
//                   (member,parent) pairs; every key that occurs, its +-2^32
//                   aliases and absent keys are looked up.
// mode=stash        ItemStash histories (--profile short|autogc|reclaim);
//                   model: map handle -> bytes. `autogc` histories are long
//                   enough for add_item() to collect by itself (observed with
//                   the H6 hook counter); `reclaim` histories check that space
//                   of removed items is reusable after garbage_collect().

#include "vh.hpp"
#include "vh_hooks.hpp"

#include <osmium/builder/osm_object_builder.hpp>
#include <osmium/index/id_set.hpp>
#include <osmium/index/nwr_array.hpp>
#include <osmium/index/relations_map.hpp>
#include <osmium/memory/buffer.hpp>
#include <osmium/osm/item_type.hpp>
#include <osmium/osm/location.hpp>
#include <osmium/osm/node.hpp>
#include <osmium/osm/relation.hpp>
#include <osmium/osm/way.hpp>
#include <osmium/storage/item_stash.hpp>

#include <algorithm>
#include <limits>
#include <sstream>
#include <type_traits>
#include <utility>

namespace {

constexpr uint64_t MAX32 = 0xffffffffULL;

template <typename T> const char* tname() { return sizeof(T) == 4 ? "uint32_t" : "uint64_t"; }

std::string tail(const std::string& s, size_t n = 700) { return s.size() <= n ? s : "..." + s.substr(s.size() - n); }

std::string idlist(const std::vector<uint64_t>& v, size_t maxn = 24) {
    std::string o = "{";
    for (size_t i = 0; i < v.size() && i < maxn; ++i) o += vh::fmt(i ? ",%" PRIu64 : "%" PRIu64, v[i]);
    if (v.size() > maxn) o += vh::fmt(",...(%zu)", v.size());
    return o + "}";
}

// =====================================================================
// IdSetDense
// =====================================================================

enum { CAT_LOW = 0, CAT_MID = 1, CAT_TOP = 2 };

template <typename T, std::size_t CB>
class DenseHistory {
    using Set = osmium::index::IdSetDense<T, CB>;
    static constexpr uint64_t C = 1ULL << (CB + 3);   // ids per chunk
    static constexpr uint64_t TMAX = std::numeric_limits<T>::max();
    static constexpr bool is32 = sizeof(T) == 4;

    struct Slot {
        Set set;
        std::set<uint64_t> model;
        bool top_used = false;   // a mutating call touched the last chunk of a 32-bit id range
    };

    static constexpr int NS = 3;
    Slot m_slots[NS];
    vh::Rng& m_rng;
    uint64_t m_limit = 0;               // largest id used in mutating calls
    std::vector<uint64_t> m_anchors;
    std::vector<uint64_t> m_used;
    bool m_far = false;                 // iteration is expensive: do it less often
    std::string m_log;
    uint64_t m_hash = 0;
    uint64_t m_evals = 0;
    int m_nslots = NS;
    int64_t m_iter_budget = 1000000;    // complete iterations allowed before the final ones (cost control)

    // largest id that may be passed to set/unset: bounded by the memory of the
    // chunk-pointer vector (8 bytes per chunk below the largest id)
    static uint64_t hard_limit(bool heavy) {
        if (is32) return (CB >= 8 || heavy) ? TMAX : (1ULL << 20) * C - 1;
        if (CB >= 22) return (1ULL << 40) - 1;
        if (CB >= 8) return (1ULL << 32) + (1ULL << 13) - 1;
        return heavy ? (1ULL << 32) + 4 * C - 1 : (1ULL << 20) * C - 1;
    }

    void viol(const std::string& what, int slot, const std::string& detail) {
        vh::violation(vh::fmt("IdSetDense<%s>: %s", tname<T>(), what.c_str()),
                      vh::fmt("chunk_bits=%zu slot=%d %s | history: %s", CB, slot, detail.c_str(), tail(m_log).c_str()));
    }

    void note_touch(Slot& s, uint64_t id) {
        if (is32 && id > TMAX - C) s.top_used = true;   // id in [2^32 - C, 2^32)
    }

    uint64_t draw() {
        for (int tries = 0; tries < 1000; ++tries) {
            const uint64_t r = m_rng.below(100);
            uint64_t id;
            if (r < 50 || (m_used.empty() && r < 70)) {
                const uint64_t a = m_rng.pick(m_anchors);
                const int64_t d = m_rng.range(-10, 10);
                if (d < 0 && a < static_cast<uint64_t>(-d)) continue;
                id = a + static_cast<uint64_t>(d);
                if (d > 0 && id < a) continue;
            } else if (r < 70) {
                static const int64_t DD[] = {-8, -1, 0, 0, 0, 1, 8};
                const uint64_t a = m_rng.pick(m_used);
                const int64_t d = m_rng.pick(DD);
                if (d < 0 && a < static_cast<uint64_t>(-d)) continue;
                id = a + static_cast<uint64_t>(d);
            } else {
                const uint64_t a = std::min(m_rng.pick(m_anchors), m_limit);
                id = (a / C) * C + m_rng.below(C);
            }
            if (id > m_limit) continue;
            return id;
        }
        return 0;
    }

    void check_get(int si, uint64_t id) {
        Slot& s = m_slots[si];
        if (id > TMAX) return;
        const bool got = s.set.get(static_cast<T>(id));
        const bool exp = s.model.count(id) != 0;
        ++m_evals;
        if (got != exp) {
            viol(exp ? "get() returns false for an id that is in the set" : "get() returns true for an id that is not in the set", si,
                 vh::fmt("id=%" PRIu64 " (chunk %" PRIu64 ", offset in chunk %" PRIu64 ")", id, id / C, id % C));
        }
    }

    void check_light(int si, uint64_t id) {
        Slot& s = m_slots[si];
        const uint64_t sz = static_cast<uint64_t>(s.set.size());
        ++m_evals;
        if (sz != s.model.size()) viol("size() differs from the number of ids in the set", si, vh::fmt("size()=%" PRIu64 " model=%zu after id=%" PRIu64, sz, s.model.size(), id));
        if (s.set.empty() != s.model.empty()) viol("empty() differs from the model", si, vh::fmt("empty()=%d model size=%zu", s.set.empty(), s.model.size()));
        check_get(si, id);
        if (id > 0) check_get(si, id - 1);
        check_get(si, id + 1);
        check_get(si, id ^ 7U);
        if (id >= 8) check_get(si, id - 8);
        check_get(si, id + 8);
        if (id >= C) check_get(si, id - C);
        check_get(si, id + C);
        check_get(si, id ^ (C >> 1));
        if (!is32) { check_get(si, id + (1ULL << 32)); check_get(si, id & MAX32); }
        // far away and beyond anything allocated (must not allocate, must be false unless in model)
        check_get(si, TMAX - m_rng.below(4));
    }

    void check_members(int si) {
        Slot& s = m_slots[si];
        for (uint64_t id : s.model) check_get(si, id);
    }

    void check_iteration(int si, int style) {
        Slot& s = m_slots[si];
        const Set& cs = s.set;
        std::vector<uint64_t> got;
        const size_t guard = s.model.size() + 8;
        if (style == 0) {
            for (auto it = cs.begin(); it != cs.end(); ++it) { got.push_back(*it); if (got.size() > guard) break; }
        } else if (style == 1) {
            for (auto it = cs.begin(); it != cs.end(); it++) { got.push_back(*it); if (got.size() > guard) break; }
        } else {
            for (const auto id : cs) { got.push_back(id); if (got.size() > guard) break; }
        }
        ++m_evals;
        vh::count("dense_iterations");
        vh::count("dense_iterated_ids", got.size());
        if (s.top_used) vh::count("dense_iterations_top_chunk_used");
        std::vector<uint64_t> exp(s.model.begin(), s.model.end());
        if (got == exp) return;
        bool ascending = true, foreign = false;
        for (size_t i = 0; i < got.size(); ++i) {
            if (i && got[i] <= got[i - 1]) ascending = false;
            if (!s.model.count(got[i])) foreign = true;
        }
        std::string what;
        if (foreign) what = "iteration yields an id that is not in the set";
        else if (!ascending) what = "iteration is not strictly ascending";
        else what = "iteration incomplete";
        if (s.top_used) what += " when the top chunk is used";
        viol(what, si, vh::fmt("iterated %zu ids %s, set holds %zu ids %s, size()=%" PRIu64, got.size(), idlist(got).c_str(), exp.size(),
                               idlist(exp).c_str(), static_cast<uint64_t>(cs.size())));
    }

    void check_full(int si, bool final = false) {
        check_light(si, m_used.empty() ? 0 : m_used.back());
        check_members(si);
        if (!final) {
            if (m_iter_budget <= 0) { vh::count("dense_iterations_skipped_for_cost"); return; }
            --m_iter_budget;
        }
        check_iteration(si, static_cast<int>(m_rng.below(3)));
    }

    void logop(const char* f, ...) __attribute__((format(printf, 2, 3))) {
        char buf[160];
        va_list ap; va_start(ap, f);
        std::vsnprintf(buf, sizeof(buf), f, ap);
        va_end(ap);
        m_log += buf; m_log += ' ';
        if (m_log.size() > 6000) m_log.erase(0, 3000);
        m_hash = vh::hash_str(buf, m_hash);
    }

public:

    explicit DenseHistory(vh::Rng& rng) : m_rng(rng) {}

    void setup(int cat, bool heavy, int heavy_variant) {
        const uint64_t hard = hard_limit(heavy);
        if (CB >= 22) { m_nslots = 2; m_iter_budget = 1; }   // walking one 4 MiB chunk costs ~0.1 s under ASan
        if (heavy) {
            m_far = true;
            m_nslots = 2;
            m_iter_budget = 1;
            m_limit = hard;
            if (is32) {
                if (heavy_variant % 2 == 1) m_limit = TMAX - C;      // stay below the top chunk
                m_anchors = {m_limit, m_limit - C + 1, m_limit - 3 * C, C};
            } else {
                m_anchors = {1ULL << 32, (1ULL << 32) + C, m_limit, C};
            }
            return;
        }
        if (cat == CAT_LOW) {
            const uint64_t nch = 1 + m_rng.below(CB >= 22 ? 2 : 6);
            m_limit = std::min(hard, nch * C - 1);
            for (uint64_t k = 0; k <= nch; ++k) m_anchors.push_back(k * C);
            for (int i = 0; i < 3; ++i) m_anchors.push_back(m_rng.below(m_limit + 1) & ~7ULL);
            m_anchors.push_back(m_rng.below(m_limit + 1) & ~63ULL);
        } else if (cat == CAT_MID) {
            m_limit = hard;
            uint64_t kmax = std::min<uint64_t>(hard / C, 65536);
            if (is32) kmax = std::min<uint64_t>(kmax, ((1ULL << 32) / C) - 2);   // keep clear of the top chunk
            const int na = CB >= 22 ? 2 : 2 + static_cast<int>(m_rng.below(2));
            for (int i = 0; i < na; ++i) m_anchors.push_back((1 + m_rng.below(kmax)) * C);
            if (m_rng.coin()) m_anchors.push_back(0);
            if (kmax > 4096) m_far = true;
        } else {
            m_limit = hard;
            m_far = true;
            m_anchors = {m_limit, m_limit - C + 1, C};
            if (is32) m_anchors.push_back(1ULL << 31);
            else if ((1ULL << 32) <= m_limit) m_anchors.push_back(1ULL << 32);
        }
        if (m_far && CB < 22) m_iter_budget = 5;
    }

    void run(uint64_t nops) {
        for (uint64_t step = 0; step < nops; ++step) {
            const int si = static_cast<int>(m_rng.below(m_nslots));
            Slot& s = m_slots[si];
            const uint64_t r = m_rng.below(100);
            if (r < 28) {
                const uint64_t id = draw();
                logop("%d.set(%" PRIu64 ")", si, id);
                s.set.set(static_cast<T>(id));
                s.model.insert(id); note_touch(s, id); m_used.push_back(id);
                vh::count("dense_set");
                check_light(si, id);
            } else if (r < 48) {
                const uint64_t id = draw();
                logop("%d.check_and_set(%" PRIu64 ")", si, id);
                const bool got = s.set.check_and_set(static_cast<T>(id));
                const bool exp = s.model.insert(id).second;
                note_touch(s, id); m_used.push_back(id);
                ++m_evals;
                vh::count(exp ? "dense_check_and_set_new" : "dense_check_and_set_present");
                if (got != exp) viol(exp ? "check_and_set() returns false for an id that was not in the set" : "check_and_set() returns true for an id that was already in the set", si, vh::fmt("id=%" PRIu64, id));
                check_light(si, id);
            } else if (r < 66) {
                uint64_t id = draw();
                if (!s.model.empty() && m_rng.chance(2, 3)) {   // prefer ids that are in the set
                    auto it = s.model.lower_bound(id);
                    if (it == s.model.end()) it = s.model.begin();
                    id = *it;
                }
                logop("%d.unset(%" PRIu64 ")", si, id);
                const bool present = s.model.erase(id) != 0;
                s.set.unset(static_cast<T>(id));
                note_touch(s, id); m_used.push_back(id);
                vh::count(present ? "dense_unset_present" : "dense_unset_absent");
                check_light(si, id);
            } else if (r < 72) {
                // through the virtual base class
                const uint64_t id = draw();
                osmium::index::IdSet<T>& base = s.set;
                logop("%d.base.set(%" PRIu64 ")", si, id);
                base.set(static_cast<T>(id));
                s.model.insert(id); note_touch(s, id); m_used.push_back(id);
                ++m_evals;
                if (!base.get(static_cast<T>(id))) viol("get() returns false for an id that is in the set", si, vh::fmt("through IdSet<T>&, id=%" PRIu64, id));
                if (base.empty()) viol("empty() differs from the model", si, "through IdSet<T>& after set()");
                vh::count("dense_base_calls");
                check_light(si, id);
            } else if (r < 80) {
                logop("%d.iterate", si);
                check_full(si);
            } else if (r < 84) {
                const int sj = static_cast<int>(m_rng.below(m_nslots));
                logop("%d=copy(%d)", sj, si);
                {
                    Set copy{s.set};                       // copy constructor
                    swap(m_slots[sj].set, copy);           // (assignment from an rvalue does not compile: ambiguous operator=)
                }
                if (sj != si) { m_slots[sj].model = s.model; m_slots[sj].top_used = s.top_used; }
                vh::count("dense_copy_construct");
                check_full(sj);
                if (sj != si) check_full(si);   // the source must be unchanged
            } else if (r < 88) {
                const int sj = static_cast<int>(m_rng.below(m_nslots));
                logop("%d=assign(%d)", sj, si);
                const Set& src = s.set;
                m_slots[sj].set = src;                     // copy assignment (also self-assignment)
                if (sj != si) { m_slots[sj].model = s.model; m_slots[sj].top_used = s.top_used; }
                vh::count(sj == si ? "dense_self_assign" : "dense_copy_assign");
                check_full(sj);
                if (sj != si) check_full(si);
            } else if (r < 91) {
                const int sj = static_cast<int>(m_rng.below(m_nslots));
                if (sj == si) continue;
                logop("swap(%d,%d)", si, sj);
                swap(s.set, m_slots[sj].set);
                std::swap(s.model, m_slots[sj].model);
                std::swap(s.top_used, m_slots[sj].top_used);
                vh::count("dense_swap");
                check_full(si);
                check_full(sj);
            } else if (r < 94) {
                const int sj = static_cast<int>(m_rng.below(m_nslots));
                if (sj == si) continue;
                logop("%d=move(%d)", sj, si);
                Set moved{std::move(s.set)};               // move constructor
                swap(m_slots[sj].set, moved);
                m_slots[sj].model = s.model; m_slots[sj].top_used = s.top_used;
                s.set.clear();                             // give the moved-from object a defined value again
                s.model.clear(); s.top_used = false;
                vh::count("dense_move");
                check_full(sj);
                check_full(si);
            } else if (r < 97) {
                logop("%d.clear", si);
                if (m_rng.coin()) s.set.clear(); else { osmium::index::IdSet<T>& base = s.set; base.clear(); }
                s.model.clear(); s.top_used = false;
                vh::count("dense_clear");
                check_full(si);
            } else {
                // probe ids anywhere in T (get() must never allocate or fault)
                const uint64_t id = m_rng.coin() ? m_rng.next() & TMAX : draw();
                logop("%d.get(%" PRIu64 ")", si, id);
                check_get(si, id);
                vh::count("dense_random_get");
            }
        }
        for (int si = 0; si < m_nslots; ++si) { logop("%d.final", si); check_full(si, true); }
        bool any_top = false, any64 = false;
        for (int si = 0; si < m_nslots; ++si) {
            any_top = any_top || m_slots[si].top_used;
            for (uint64_t id : m_slots[si].model) if (id > MAX32) any64 = true;
            vh::count_max("max_dense_model_size", m_slots[si].model.size());
        }
        if (any_top) vh::count("dense_histories_top_chunk_used");
        if (any64) vh::count("dense_histories_ids_above_2^32");
    }

    uint64_t hash() const { return m_hash; }
    uint64_t evals() const { return m_evals; }
    std::string log() const { return m_log; }
};

template <typename T, std::size_t CB>
void dense_case(uint64_t idx, vh::Rng& rng, bool heavy, int variant) {
    int cat = CAT_LOW;
    if (!heavy) {
        const uint64_t r = rng.below(100);
        cat = r < 55 ? CAT_LOW : r < 87 ? CAT_MID : CAT_TOP;
        if (variant >= 0) cat = variant;   // forced universe
    }
    static const char* CN[] = {"low", "mid", "top"};
    DenseHistory<T, CB> h{rng};
    h.setup(cat, heavy, variant);
    uint64_t nops = heavy ? 10 : cat == CAT_LOW ? 20 + rng.below(280) : 15 + rng.below(90);
    if (CB >= 22 && nops > 80) nops = 80;
    vh::set_case_desc("IdSetDense<%s,%zu> %s universe=%s nops=%" PRIu64, tname<T>(), CB, heavy ? "heavy" : "", heavy ? (variant % 2 ? "below-top" : "top") : CN[cat], nops);
    h.run(nops);
    vh::evaluated(h.evals());
    vh::distinct(vh::hash_u64(CB * 2 + sizeof(T), h.hash()));
    vh::count(vh::fmt("dense_histories_%s_cb%zu", tname<T>(), CB));
    vh::count(vh::fmt("dense_histories_universe_%s", heavy ? "heavy" : CN[cat]));
    vh::cover("dense_instantiation", vh::fmt("IdSetDense<%s,%zu>/%s", tname<T>(), CB, heavy ? "heavy" : CN[cat]));
    if (idx % 211 == 0 || heavy) vh::sample_str(vh::fmt("IdSetDense<%s,%zu> %s: %s", tname<T>(), CB, heavy ? "heavy" : CN[cat], tail(h.log(), 300).c_str()));
}

// =====================================================================
// IdSetSmall
// =====================================================================

template <typename T>
void small_case(uint64_t idx, vh::Rng& rng) {
    using Set = osmium::index::IdSetSmall<T>;
    constexpr uint64_t TMAX = std::numeric_limits<T>::max();
    struct Slot { Set set; std::set<uint64_t> model; bool sorted = true; };
    Slot slots[2];
    std::vector<uint64_t> pool;
    const uint64_t base = rng.coin() ? 0 : rng.below(1000);
    const uint64_t npool = 2 + rng.below(30);
    for (uint64_t i = 0; i < npool; ++i) pool.push_back(base + i);
    for (uint64_t v : std::initializer_list<uint64_t>{0ULL, 1ULL << 31, MAX32 - 1, MAX32, (1ULL << 32), (1ULL << 32) + 1, 1ULL << 40, TMAX - 1, TMAX})
        if (v <= TMAX && rng.chance(1, 3)) pool.push_back(v);
    std::string log;
    uint64_t hash = sizeof(T), evals = 0;
    const uint64_t nops = 10 + rng.below(150);
    vh::set_case_desc("IdSetSmall<%s> nops=%" PRIu64, tname<T>(), nops);
    auto viol = [&](const std::string& what, int si, const std::string& d) {
        vh::violation(vh::fmt("IdSetSmall<%s>: %s", tname<T>(), what.c_str()), vh::fmt("slot=%d %s | history: %s", si, d.c_str(), tail(log).c_str()));
    };
    auto lg = [&](const std::string& s) { log += s; log += ' '; hash = vh::hash_str(s, hash); };
    auto check = [&](int si) {
        Slot& s = slots[si];
        ++evals;
        if (s.set.empty() != s.model.empty()) viol("empty() differs from the model", si, vh::fmt("empty()=%d model=%zu", s.set.empty(), s.model.size()));
        for (uint64_t id : pool) {
            ++evals;
            if (s.set.get(static_cast<T>(id)) != (s.model.count(id) != 0)) viol("get() differs from the model", si, vh::fmt("id=%" PRIu64 " get()=%d", id, s.set.get(static_cast<T>(id))));
        }
        if (!s.sorted) { vh::count("small_not_judged_unsorted"); return; }
        // preconditions of size(), iteration and get_binary_search() hold
        if (s.set.size() != s.model.size()) viol("size() differs from the model after sort_unique()", si, vh::fmt("size()=%zu model=%zu", s.set.size(), s.model.size()));
        std::vector<uint64_t> got;
        if (rng.coin()) for (auto it = s.set.begin(); it != s.set.end(); ++it) got.push_back(*it);
        else for (auto it = s.set.cbegin(); it != s.set.cend(); ++it) got.push_back(*it);
        std::vector<uint64_t> exp(s.model.begin(), s.model.end());
        if (got != exp) viol("iteration is not the ascending sequence of the ids in the set", si, vh::fmt("got %s expected %s", idlist(got).c_str(), idlist(exp).c_str()));
        for (uint64_t id : pool) {
            ++evals;
            if (s.set.get_binary_search(static_cast<T>(id)) != (s.model.count(id) != 0)) viol("get_binary_search() differs from the model", si, vh::fmt("id=%" PRIu64, id));
        }
        vh::count("small_sorted_checks");
    };
    for (uint64_t step = 0; step < nops; ++step) {
        const int si = static_cast<int>(rng.below(2));
        Slot& s = slots[si];
        const uint64_t r = rng.below(100);
        if (r < 55) {
            uint64_t id = rng.pick(pool);
            if (s.sorted && !s.model.empty() && rng.chance(1, 3)) {   // keep some histories "set in order"
                const uint64_t mx = *s.model.rbegin();
                if (mx < TMAX) id = mx + 1 + rng.below(3);
                if (id > TMAX) id = TMAX;
                if (std::find(pool.begin(), pool.end(), id) == pool.end()) pool.push_back(id);
            }
            lg(vh::fmt("%d.set(%" PRIu64 ")", si, id));
            if (!s.model.empty() && id <= *s.model.rbegin()) s.sorted = false;
            if (rng.coin()) s.set.set(static_cast<T>(id)); else { osmium::index::IdSet<T>& b = s.set; b.set(static_cast<T>(id)); }
            s.model.insert(id);
            vh::count("small_set");
        } else if (r < 70) {
            lg(vh::fmt("%d.sort_unique", si));
            s.set.sort_unique();
            s.sorted = true;
            vh::count("small_sort_unique");
        } else if (r < 82) {
            Slot& o = slots[1 - si];
            if (!s.sorted) { s.set.sort_unique(); s.sorted = true; lg(vh::fmt("%d.sort_unique", si)); }
            if (!o.sorted) { o.set.sort_unique(); o.sorted = true; lg(vh::fmt("%d.sort_unique", 1 - si)); }
            lg(vh::fmt("%d.merge_sorted(%d)", si, 1 - si));
            s.set.merge_sorted(o.set);
            s.model.insert(o.model.begin(), o.model.end());
            vh::count("small_merge_sorted");
            check(1 - si);
        } else if (r < 88) {
            lg(vh::fmt("%d=copy(%d)", 1 - si, si));
            if (rng.coin()) { Set c{s.set}; slots[1 - si].set = std::move(c); } else { const Set& src = s.set; slots[1 - si].set = src; }
            slots[1 - si].model = s.model; slots[1 - si].sorted = s.sorted;
            vh::count("small_copy");
            check(1 - si);
        } else if (r < 93) {
            lg(vh::fmt("%d.clear", si));
            s.set.clear(); s.model.clear(); s.sorted = true;
            vh::count("small_clear");
        } else {
            lg(vh::fmt("%d.check", si));
        }
        check(si);
    }
    check(0); check(1);
    vh::evaluated(evals);
    vh::distinct(hash);
    vh::count(vh::fmt("small_histories_%s", tname<T>()));
    if (idx % 307 == 0) vh::sample_str(vh::fmt("IdSetSmall<%s>: %s", tname<T>(), tail(log, 300).c_str()));
}

// =====================================================================
// nwr_array of id sets
// =====================================================================

template <typename Set>
void nwr_case(uint64_t idx, vh::Rng& rng, const char* name) {
    osmium::nwr_array<Set> arr;
    std::set<uint64_t> model[3];
    static const osmium::item_type TY[3] = {osmium::item_type::node, osmium::item_type::way, osmium::item_type::relation};
    const uint64_t nops = 5 + rng.below(60);
    vh::set_case_desc("nwr_array<%s> nops=%" PRIu64, name, nops);
    uint64_t hash = vh::hash_str(name), evals = 0;
    std::string log;
    for (uint64_t step = 0; step < nops; ++step) {
        const int t = static_cast<int>(rng.below(3));
        const uint64_t id = rng.below(40) + (rng.chance(1, 5) ? 2040 : 0);
        arr(TY[t]).set(static_cast<uint32_t>(id));
        model[t].insert(id);
        log += vh::fmt("%c%" PRIu64 " ", "nwr"[t], id);
        hash = vh::hash_u64(id * 3 + t, hash);
        const osmium::nwr_array<Set>& carr = arr;
        const Set* direct[3] = {&carr.nodes(), &carr.ways(), &carr.relations()};
        for (int k = 0; k < 3; ++k) {
            for (uint64_t probe : std::initializer_list<uint64_t>{id, id + 1, id + 8}) {
                ++evals;
                const bool exp = model[k].count(probe) != 0;
                if (carr(TY[k]).get(static_cast<uint32_t>(probe)) != exp || direct[k]->get(static_cast<uint32_t>(probe)) != exp)
                    vh::violation(vh::fmt("nwr_array<%s>: element for one object type differs from its own set model", name),
                                  vh::fmt("after %s: type %c id %" PRIu64 " expected %d", tail(log, 300).c_str(), "nwr"[k], probe, exp));
            }
        }
        int k = 0;
        for (auto it = carr.begin(); it != carr.end(); ++it, ++k) {
            if (k < 3 && it->empty() != model[k].empty()) vh::violation(vh::fmt("nwr_array<%s>: iteration order is not nodes, ways, relations", name), tail(log, 300));
        }
        if (k != 3) vh::violation(vh::fmt("nwr_array<%s>: iteration does not visit three elements", name), "");
    }
    vh::evaluated(evals);
    vh::distinct(hash);
    vh::count("nwr_histories");
    (void)idx;
}

void case_idset(uint64_t idx, vh::Rng& rng) {
    // 33 consecutive cases: 3 x (6 small-chunk dense instantiations, 2 x IdSetSmall, nwr_array, one more
    // dense one) and 3 histories with the production chunk size (expensive to iterate)
    const uint64_t slot = idx % 33;
    if (slot >= 30) {
        if (slot == 30) dense_case<uint32_t, 22>(idx, rng, false, -1);
        else if (slot == 31) dense_case<uint64_t, 22>(idx, rng, false, -1);
        else if ((idx / 33) % 2) dense_case<uint32_t, 22>(idx, rng, false, CAT_TOP);
        else dense_case<uint64_t, 22>(idx, rng, false, CAT_TOP);
        return;
    }
    uint64_t k = slot % 10;
    if (k == 9) k = (idx / 10) % 6;
    switch (k) {
        case 0: dense_case<uint32_t, 3>(idx, rng, false, -1); break;
        case 1: dense_case<uint32_t, 4>(idx, rng, false, -1); break;
        case 2: dense_case<uint32_t, 8>(idx, rng, false, -1); break;
        case 3: dense_case<uint64_t, 3>(idx, rng, false, -1); break;
        case 4: dense_case<uint64_t, 4>(idx, rng, false, -1); break;
        case 5: dense_case<uint64_t, 8>(idx, rng, false, -1); break;
        case 6: small_case<uint32_t>(idx, rng); break;
        case 7: small_case<uint64_t>(idx, rng); break;
        default:
            if ((idx / 33) % 2) nwr_case<osmium::index::IdSetSmall<uint32_t>>(idx, rng, "IdSetSmall<uint32_t>");
            else nwr_case<osmium::index::IdSetDense<uint64_t, 8>>(idx, rng, "IdSetDense<uint64_t,8>");
            break;
    }
}

void case_idset_heavy(uint64_t idx, vh::Rng& rng) {
    const int variant = static_cast<int>(idx / 4);
    switch (idx % 4) {
        case 0: dense_case<uint32_t, 3>(idx, rng, true, variant); break;
        case 1: dense_case<uint32_t, 4>(idx, rng, true, variant); break;
        case 2: dense_case<uint64_t, 3>(idx, rng, true, variant); break;
        default: dense_case<uint64_t, 4>(idx, rng, true, variant); break;
    }
}

// =====================================================================
// RelationsMapStash / RelationsMapIndex(es)
// =====================================================================

using Pair = std::pair<uint64_t, uint64_t>;   // (member, parent)

struct RelModel {
    std::set<Pair> pairs;
    uint64_t adds = 0;
    bool all32 = true;

    std::vector<uint64_t> lookup(uint64_t key, bool member_to_parent) const {
        std::vector<uint64_t> out;
        for (const auto& p : pairs) {
            if (member_to_parent ? p.first == key : p.second == key) out.push_back(member_to_parent ? p.second : p.first);
        }
        std::sort(out.begin(), out.end());
        return out;
    }
};

void check_index(const osmium::index::RelationsMapIndex& index, const RelModel& m, bool m2p, const char* how,
                 const std::vector<uint64_t>& queries, const std::string& history, uint64_t& evals) {
    const char* width = m.all32 ? "only 32-bit ids" : "with 64-bit ids";
    ++evals;
    if (index.empty() != m.pairs.empty()) {
        vh::violation(vh::fmt("RelationsMapIndex(%s, %s): empty() differs from the model", how, width), vh::fmt("empty()=%d model pairs=%zu | %s", index.empty(), m.pairs.size(), tail(history).c_str()));
    }
    if (index.size() != m.pairs.size()) {
        vh::violation(vh::fmt("RelationsMapIndex(%s, %s): size() is not the number of distinct pairs", how, width), vh::fmt("size()=%zu distinct pairs=%zu adds=%" PRIu64 " | %s", index.size(), m.pairs.size(), m.adds, tail(history).c_str()));
    }
    for (uint64_t q : queries) {
        std::vector<uint64_t> got;
        index.for_each(q, [&](osmium::unsigned_object_id_type id) { if (got.size() < 100000) got.push_back(id); });
        std::sort(got.begin(), got.end());
        const std::vector<uint64_t> exp = m.lookup(q, m2p);
        ++evals;
        vh::count(exp.empty() ? "relmap_lookups_absent_key" : "relmap_lookups_present_key");
        if (q > MAX32) vh::count(m.all32 ? "relmap_lookups_64bit_key_in_32bit_index" : "relmap_lookups_64bit_key_in_64bit_index");
        if (exp.size() > 1) vh::count("relmap_lookups_multi_value");
        if (got == exp) continue;
        std::string key;
        if (m.all32 && q > MAX32 && exp.empty() && !got.empty() && got == m.lookup(q & MAX32, m2p)) {
            key = "RelationsMapIndex: for_each(id >= 2^32) on an index holding only 32-bit ids returns the entries of id mod 2^32";
        } else {
            bool dup = false, missing = false, extra = false;
            for (size_t i = 1; i < got.size(); ++i) if (got[i] == got[i - 1]) dup = true;
            for (uint64_t v : exp) if (!std::binary_search(got.begin(), got.end(), v)) missing = true;
            for (uint64_t v : got) if (!std::binary_search(exp.begin(), exp.end(), v)) extra = true;
            const char* what = missing ? "for_each misses recorded pairs" : extra ? "for_each returns ids that were not recorded for the key" : dup ? "for_each returns duplicates" : "for_each result differs";
            key = vh::fmt("RelationsMapIndex(%s, %s): %s", how, width, what);
        }
        vh::violation(key, vh::fmt("%s key=%" PRIu64 " got %s expected %s | %s", how, q, idlist(got).c_str(), idlist(exp).c_str(), tail(history).c_str()));
    }
}

void case_relmap(uint64_t idx, vh::Rng& rng) {
    // id pools
    std::vector<uint64_t> p32, p64;
    const uint64_t base = rng.chance(1, 3) ? 0 : rng.below(5000);
    const uint64_t nsmall = 2 + rng.below(10);
    for (uint64_t i = 0; i < nsmall; ++i) p32.push_back(base + i);
    for (uint64_t v : std::initializer_list<uint64_t>{(1ULL << 31) - 1, 1ULL << 31, MAX32 - 1, MAX32}) if (rng.chance(1, 3)) p32.push_back(v);
    const bool via_members = rng.chance(1, 4);   // add_members(relation): ids must be valid signed ids
    for (uint64_t s : p32) if (rng.chance(1, 2)) p64.push_back(s + (1ULL << 32));   // aliases modulo 2^32
    for (uint64_t v : std::initializer_list<uint64_t>{1ULL << 32, (1ULL << 32) + 1, (1ULL << 33) + base, (1ULL << 40) + base, (1ULL << 63) - 1, 1ULL << 63, ~0ULL}) {
        if (via_members && v > static_cast<uint64_t>(std::numeric_limits<int64_t>::max())) continue;
        if (rng.chance(1, 3)) p64.push_back(v);
    }
    if (p64.empty()) p64.push_back((1ULL << 32) + base);

    const uint64_t n = rng.chance(1, 10) ? rng.below(400) : rng.below(40);
    const int mode = static_cast<int>(idx % 5);   // 0 only 32-bit, 1 only 64-bit, 2 single 64-bit pair at a swept position, 3/4 random mix
    const uint64_t single_pos = n ? (idx / 5) % (n + 1) : 0;
    const unsigned mix = 1 + static_cast<unsigned>(rng.below(9));

    RelModel m;
    std::string history;
    uint64_t hash = mode, evals = 0;
    osmium::index::RelationsMapStash stash;
    osmium::memory::Buffer rbuf{4096, osmium::memory::Buffer::auto_grow::yes};
    uint64_t first64_pos = ~0ULL;

    auto any = [&](bool want64) -> uint64_t { return want64 ? rng.pick(p64) : rng.pick(p32); };
    const uint64_t total = n + (mode == 2 ? 1 : 0);
    for (uint64_t i = 0; i < total; ++i) {
        bool is64;
        if (mode == 0) is64 = false;
        else if (mode == 1) is64 = true;
        else if (mode == 2) is64 = (i == single_pos);
        else is64 = rng.chance(mix, 10);
        uint64_t member, parent;
        if (is64) {
            switch (rng.below(3)) {
                case 0: member = any(true); parent = any(false); break;
                case 1: member = any(false); parent = any(true); break;
                default: member = any(true); parent = any(true); break;
            }
            if (first64_pos == ~0ULL) first64_pos = i;
        } else {
            member = any(false); parent = any(false);
        }
        if (via_members) {
            rbuf.clear();
            {
                osmium::builder::RelationBuilder rb{rbuf};
                const int64_t rid = static_cast<int64_t>(parent);
                rb.set_id(rng.chance(1, 4) ? -rid : rid);
                rb.set_user("u");
                osmium::builder::RelationMemberListBuilder ml{rb};
                // node and way members must be ignored, whatever their refs are
                if (rng.coin()) ml.add_member(osmium::item_type::node, static_cast<int64_t>(rng.pick(p32)) + 100000, "n");
                const int64_t mref = static_cast<int64_t>(member);
                ml.add_member(osmium::item_type::relation, rng.chance(1, 4) ? -mref : mref, "role");
                if (rng.coin()) ml.add_member(osmium::item_type::way, static_cast<int64_t>(rng.pick(p64) & 0x7fffffffffffffffULL), "w");
            }
            rbuf.commit();
            stash.add_members(rbuf.get<osmium::Relation>(0));
            vh::count("relmap_add_members_calls");
        } else {
            stash.add(member, parent);
        }
        m.pairs.insert({member, parent});
        ++m.adds;
        if (member > MAX32 || parent > MAX32) m.all32 = false;
        if (history.size() < 5000) history += vh::fmt("(%" PRIu64 ",%" PRIu64 ")", member, parent);
        hash = vh::hash_u64(member, vh::hash_u64(parent, hash));
        ++evals;
        if (stash.empty()) vh::violation("RelationsMapStash: empty() is true after add()", tail(history));
        if (stash.size() != m.adds) vh::violation("RelationsMapStash: size() differs from the number of add() calls", vh::fmt("size()=%zu adds=%" PRIu64 " | %s", stash.size(), m.adds, tail(history).c_str()));
    }
    ++evals;
    if (stash.empty() != (m.adds == 0)) vh::violation("RelationsMapStash: empty() differs from the model", vh::fmt("adds=%" PRIu64, m.adds));
    if (stash.size() != m.adds) vh::violation("RelationsMapStash: size() differs from the number of add() calls", vh::fmt("size()=%zu adds=%" PRIu64, stash.size(), m.adds));
    const auto sizes = stash.sizes();
    if (sizes.first && sizes.second) vh::count("relmap_histories_mixed_32_and_64");
    else if (sizes.second) vh::count("relmap_histories_only_64");
    else if (sizes.first) vh::count("relmap_histories_only_32");
    else vh::count("relmap_histories_empty");
    if (mode == 2) vh::cover("relmap_single_64bit_pair_position", vh::fmt("%" PRIu64 "/%" PRIu64, single_pos, n));
    if (first64_pos != ~0ULL) vh::count_max("max_relmap_first_64bit_position", first64_pos);
    if (m.pairs.size() < m.adds) vh::count("relmap_histories_with_duplicate_pairs");

    // query keys: everything recorded, aliases modulo 2^32, neighbours, pool ids
    std::set<uint64_t> qs;
    for (const auto& p : m.pairs) {
        for (uint64_t v : std::initializer_list<uint64_t>{p.first, p.second}) {
            qs.insert(v); qs.insert(v + (1ULL << 32)); qs.insert(v - (1ULL << 32)); qs.insert(v & MAX32); qs.insert(v + 1); qs.insert(v - 1);
        }
    }
    for (uint64_t v : p32) qs.insert(v);
    for (uint64_t v : p64) qs.insert(v);
    qs.insert(0); qs.insert(~0ULL); qs.insert(1ULL << 32);
    std::vector<uint64_t> queries(qs.begin(), qs.end());
    if (queries.size() > 600) { rng.shuffle(queries); queries.resize(600); }

    const int builder = static_cast<int>(rng.below(3));
    vh::set_case_desc("relmap n=%" PRIu64 " mode=%d builder=%d via_members=%d first64=%" PRId64, total, mode, builder, via_members, static_cast<int64_t>(first64_pos));
    if (builder == 0) {
        auto index = stash.build_member_to_parent_index();
        check_index(index, m, true, "build_member_to_parent_index", queries, history, evals);
        osmium::index::RelationsMapIndex moved{std::move(index)};
        if (rng.chance(1, 4)) check_index(moved, m, true, "build_member_to_parent_index", queries, history, evals);
        vh::count("relmap_build_member_to_parent");
    } else if (builder == 1) {
        auto index = stash.build_parent_to_member_index();
        check_index(index, m, false, "build_parent_to_member_index", queries, history, evals);
        vh::count("relmap_build_parent_to_member");
    } else {
        auto indexes = stash.build_indexes();
        ++evals;
        if (indexes.empty() != m.pairs.empty()) vh::violation("RelationsMapIndexes: empty() differs from the model", tail(history));
        if (indexes.size() != m.pairs.size()) vh::violation("RelationsMapIndexes: size() is not the number of distinct pairs", vh::fmt("size()=%zu pairs=%zu | %s", indexes.size(), m.pairs.size(), tail(history).c_str()));
        check_index(indexes.member_to_parent(), m, true, "build_indexes.member_to_parent", queries, history, evals);
        check_index(indexes.parent_to_member(), m, false, "build_indexes.parent_to_member", queries, history, evals);
        vh::count("relmap_build_indexes");
    }
    vh::evaluated(evals);
    vh::distinct(vh::hash_u64(builder, hash));
    vh::count_max("max_relmap_pairs", m.pairs.size());
    if (idx % 401 == 0) vh::sample_str(vh::fmt("relmap mode=%d builder=%d adds=%" PRIu64 " distinct=%zu: %s", mode, builder, m.adds, m.pairs.size(), tail(history, 300).c_str()));
}

// =====================================================================
// ItemStash
// =====================================================================

class ItemGen {
    osmium::memory::Buffer m_tmp{64UL * 1024UL, osmium::memory::Buffer::auto_grow::yes};

    static std::string rstr(vh::Rng& rng, size_t maxlen) {
        std::string s(rng.below(maxlen + 1), 'x');
        for (auto& c : s) c = static_cast<char>('a' + rng.below(26));
        return s;
    }

public:
    // profile 0: mostly minimal nodes; 1: mixed small/medium; 2: medium ways
    const osmium::memory::Item& make(vh::Rng& rng, int profile, uint64_t seq) {
        using namespace osmium::builder;
        m_tmp.clear();
        const uint64_t r = rng.below(10000);
        int kind;   // 0 minimal node, 1 node+tags, 2 way, 3 relation, 4 big way
        size_t way_nodes = 0;
        if (profile == 0) { kind = r < 8200 ? 0 : r < 9200 ? 1 : r < 9700 ? 2 : r < 9995 ? 3 : 4; way_nodes = rng.below(8); }
        else if (profile == 1) { kind = r < 3000 ? 0 : r < 6000 ? 1 : r < 8000 ? 2 : r < 9990 ? 3 : 4; way_nodes = rng.below(40); }
        else { kind = r < 1000 ? 1 : r < 9000 ? 2 : r < 9985 ? 3 : 4; way_nodes = rng.below(80); }
        const int64_t id = static_cast<int64_t>(seq + 1);
        if (kind <= 1) {
            NodeBuilder b{m_tmp};
            b.set_id(id).set_version(static_cast<uint32_t>(rng.below(100))).set_changeset(static_cast<uint32_t>(rng.next())).set_uid(static_cast<uint32_t>(rng.below(1000)));
            b.set_location(osmium::Location{static_cast<int32_t>(rng.below(1000000)), static_cast<int32_t>(rng.below(1000000))});
            if (kind == 1) {
                b.set_user(rstr(rng, 20));
                TagListBuilder tl{b};
                const uint64_t nt = rng.below(5);
                for (uint64_t i = 0; i < nt; ++i) tl.add_tag(rstr(rng, 12), rstr(rng, 30));
            } else {
                b.set_user("");
            }
        } else if (kind == 2 || kind == 4) {
            WayBuilder b{m_tmp};
            b.set_id(id).set_version(static_cast<uint32_t>(rng.below(100))).set_timestamp(osmium::Timestamp{static_cast<uint32_t>(1 + rng.below(2000000000))});
            b.set_user(rstr(rng, 10));
            if (kind == 4) way_nodes = 700 + rng.below(1800);
            {
                WayNodeListBuilder nl{b};
                for (size_t i = 0; i < way_nodes; ++i) nl.add_node_ref(static_cast<int64_t>(rng.next() >> 20), osmium::Location{static_cast<int32_t>(i), static_cast<int32_t>(seq & 0xffff)});
            }
            if (rng.coin()) { TagListBuilder tl{b}; tl.add_tag("highway", rstr(rng, 10)); }
        } else {
            RelationBuilder b{m_tmp};
            b.set_id(id).set_version(1).set_visible(rng.coin());
            b.set_user(rstr(rng, 6));
            {
                RelationMemberListBuilder ml{b};
                const uint64_t nm = rng.below(profile == 0 ? 4 : 12);
                for (uint64_t i = 0; i < nm; ++i) ml.add_member(osmium::nwr_index_to_item_type(static_cast<unsigned int>(rng.below(3))), static_cast<int64_t>(rng.below(1000000)), rstr(rng, 8));
            }
            if (rng.coin()) { TagListBuilder tl{b}; tl.add_tag("type", "multipolygon"); }
        }
        m_tmp.commit();
        return m_tmp.get<osmium::memory::Item>(0);
    }
};

class StashHistory {
    struct Ent {
        osmium::ItemStash::handle_type h;
        std::string bytes;      // byte_size() bytes of the item as it was added
        uint32_t padded = 0;
        int64_t id = 0;
        osmium::item_type type = osmium::item_type::undefined;
    };

    osmium::ItemStash m_stash;
    ItemGen m_gen;
    vh::Rng& m_rng;
    std::vector<Ent> m_ents;          // every handle ever issued since the last clear()
    std::vector<size_t> m_live;       // indices into m_ents
    uint64_t m_removed = 0;           // removed since the last collection / clear
    uint64_t m_live_bytes = 0;        // padded bytes of live items
    uint64_t m_need = 0;              // bytes occupied if every collection reclaimed all removed items
    uint64_t m_max_need = 0;          // high-water mark of m_need (capacity proven sufficient)
    uint64_t m_index_high = 0;        // most handles issued between two clear() calls
    uint64_t m_seq = 0;
    int m_last_gc = 0;                // 0 none since clear, 1 manual, 2 automatic
    int m_gc_since_verify = 0;        // 0 none, 1 manual, 2 automatic (latest)
    std::string m_log;                // compact log of the structural events
    uint64_t m_hash = 0;
    uint64_t m_evals = 0;

    std::string hstr(const osmium::ItemStash::handle_type& h) const { std::ostringstream o; o << h; return o.str(); }

    void viol(const std::string& key, const std::string& detail) {
        vh::violation("ItemStash: " + key, vh::fmt("%s | live=%zu removed_since_gc=%" PRIu64 " issued=%zu | events: %s", detail.c_str(), m_live.size(), m_removed, m_ents.size(), tail(m_log, 500).c_str()));
    }

    void event(const std::string& e) {
        m_log += e; m_log += ' ';
        if (m_log.size() > 4000) m_log.erase(0, 2000);
    }

public:

    explicit StashHistory(vh::Rng& rng) : m_rng(rng) {}

    uint64_t need() const { return m_need; }
    uint64_t live_bytes() const { return m_live_bytes; }
    size_t live() const { return m_live.size(); }
    uint64_t removed() const { return m_removed; }
    uint64_t issued() const { return m_ents.size(); }
    uint64_t hash() const { return m_hash; }
    uint64_t evals() const { return m_evals; }
    const std::string& log() const { return m_log; }
    int auto_gcs = 0;

    void check_counts(const char* after) {
        ++m_evals;
        if (m_stash.size() != m_live.size()) viol(vh::fmt("size() differs from the number of live items after %s", after), vh::fmt("size()=%zu", m_stash.size()));
        if (m_stash.count_removed() != m_removed) viol(vh::fmt("count_removed() differs from the number of items removed since the last collection after %s", after), vh::fmt("count_removed()=%zu", m_stash.count_removed()));
    }

    bool check_entry(size_t ei) {
        const Ent& e = m_ents[ei];
        ++m_evals;
        const char* ctx = m_gc_since_verify == 2 ? "after an automatic garbage collection" : m_gc_since_verify == 1 ? "after garbage_collect()" : "without any garbage collection in between";
        if (!e.h.valid()) { viol("a handle returned by add_item() is not valid()", hstr(e.h)); return false; }
        const osmium::memory::Item& item = m_stash.get_item(e.h);
        if (item.byte_size() != e.bytes.size() || item.type() != e.type) {
            viol(vh::fmt("live handle resolves to a different item %s", ctx), vh::fmt("handle %s: byte_size %u type %d, expected byte_size %zu type %d id %" PRId64, hstr(e.h).c_str(), item.byte_size(), int(item.type()), e.bytes.size(), int(e.type), e.id));
            return false;
        }
        if (std::memcmp(item.data(), e.bytes.data(), e.bytes.size()) != 0) {
            size_t off = 0;
            while (off < e.bytes.size() && item.data()[off] == static_cast<unsigned char>(e.bytes[off])) ++off;
            viol(vh::fmt("live handle resolves to changed content %s", ctx), vh::fmt("handle %s (item id %" PRId64 ", %zu bytes) first difference at byte %zu", hstr(e.h).c_str(), e.id, e.bytes.size(), off));
            return false;
        }
        // typed access
        const int64_t got_id = e.type == osmium::item_type::node ? m_stash.get<osmium::Node>(e.h).id()
                             : e.type == osmium::item_type::way ? m_stash.get<osmium::Way>(e.h).id()
                             : m_stash.get<osmium::Relation>(e.h).id();
        if (got_id != e.id) { viol(vh::fmt("get<T>() resolves to a different object %s", ctx), vh::fmt("handle %s id %" PRId64 " expected %" PRId64, hstr(e.h).c_str(), got_id, e.id)); return false; }
        return true;
    }

    void verify_all() {
        size_t bad = 0;
        for (size_t ei : m_live) { if (!check_entry(ei) && ++bad >= 3) break; }
        vh::count("stash_full_verifications");
        vh::count("stash_items_verified", m_live.size());
        if (m_gc_since_verify == 2) vh::count("stash_full_verifications_after_auto_gc");
        if (m_gc_since_verify == 1) vh::count("stash_full_verifications_after_manual_gc");
        m_gc_since_verify = 0;
    }

    void verify_some(int n) {
        for (int i = 0; i < n && !m_live.empty(); ++i) check_entry(m_live[m_rng.below(m_live.size())]);
    }

    void add(int profile) {
        const osmium::memory::Item& src = m_gen.make(m_rng, profile, m_seq);
        Ent e;
        e.bytes.assign(reinterpret_cast<const char*>(src.data()), src.byte_size());
        e.padded = static_cast<uint32_t>(src.padded_size());
        e.type = src.type();
        e.id = static_cast<int64_t>(m_seq + 1);
        ++m_seq;
        const uint64_t gc_before = vhk::hs().gc_events.load();
        const uint64_t um_before = m_stash.used_memory();
        e.h = m_stash.add_item(src);
        const uint64_t um_after = m_stash.used_memory();
        const bool gc_inside = vhk::hs().gc_events.load() != gc_before;
        uint64_t need_before = m_need;
        if (gc_inside) {
            m_removed = 0;
            need_before = m_live_bytes;
            m_last_gc = 2; m_gc_since_verify = 2;
            ++auto_gcs;
            vh::count("stash_auto_gc");
            event(vh::fmt("AUTOGC@add#%" PRIu64 "(live=%zu)", m_seq, m_live.size()));
        }
        // Did the buffer grow? The index vector can explain at most 8 bytes per
        // handle issued so far (growth factor <= 2); anything more is the buffer.
        const uint64_t index_explains = 8 * std::max<uint64_t>(m_index_high, 1);
        const bool grew = um_after > um_before && um_after - um_before > index_explains;
        ++m_evals;
        if (grew) {
            vh::count("stash_buffer_growth_events");
            event(vh::fmt("GROW@add#%" PRIu64 "(+%" PRIu64 ")", m_seq, um_after - um_before));
            if (need_before + e.padded <= m_max_need) {
                // capacity never shrinks and it once held m_max_need bytes: the removed
                // items' space cannot have been reclaimed
                viol(vh::fmt("buffer grows in add_item() although %s should have reclaimed enough space",
                             m_last_gc == 2 ? "the automatic garbage collection" : m_last_gc == 1 ? "garbage_collect()" : "clear()"),
                     vh::fmt("live+uncollected bytes %" PRIu64 " + new item %u <= %" PRIu64 " bytes that fitted before; used_memory %" PRIu64 " -> %" PRIu64,
                             need_before, e.padded, m_max_need, um_before, um_after));
            }
        } else if (m_last_gc != 0 && need_before + e.padded <= m_max_need) {
            vh::count("stash_reclaim_judged_adds");
        }
        m_need = need_before + e.padded;
        m_max_need = std::max(m_max_need, m_need);
        m_live_bytes += e.padded;
        m_ents.push_back(std::move(e));
        m_live.push_back(m_ents.size() - 1);
        m_index_high = std::max<uint64_t>(m_index_high, m_ents.size());
        m_hash = vh::hash_u64(m_ents.back().padded, m_hash);
        vh::count("stash_adds");
        if (gc_inside) { check_counts("add_item() with automatic garbage collection"); verify_all(); }
        else check_counts("add_item()");
        if (!m_ents.back().h.valid()) viol("a handle returned by add_item() is not valid()", "");
    }

    void remove_random() {
        if (m_live.empty()) return;
        const size_t li = m_rng.chance(1, 4) ? (m_rng.coin() ? 0 : m_live.size() - 1) : m_rng.below(m_live.size());
        const size_t ei = m_live[li];
        m_stash.remove_item(m_ents[ei].h);
        m_live_bytes -= m_ents[ei].padded;
        std::string().swap(m_ents[ei].bytes);
        // keep the live list in handle order (needed only for readable witnesses): swap-remove is fine
        m_live[li] = m_live.back();
        m_live.pop_back();
        ++m_removed;
        m_hash = vh::hash_u64(ei * 2 + 1, m_hash);
        vh::count("stash_removes");
        check_counts("remove_item()");
    }

    void gc() {
        const uint64_t um_before = m_stash.used_memory();
        const uint64_t removed_before = m_removed;
        m_stash.garbage_collect();
        const uint64_t um_after = m_stash.used_memory();
        m_removed = 0;
        m_need = m_live_bytes;
        m_last_gc = 1; m_gc_since_verify = 1;
        event(vh::fmt("GC(live=%zu,removed=%" PRIu64 ")", m_live.size(), removed_before));
        m_hash = vh::hash_u64(0x6763, m_hash);
        vh::count("stash_manual_gc");
        if (removed_before) vh::count("stash_manual_gc_with_removed_items");
        ++m_evals;
        if (um_after > um_before) viol("used_memory() grows in garbage_collect()", vh::fmt("%" PRIu64 " -> %" PRIu64, um_before, um_after));
        check_counts("garbage_collect()");
        verify_all();
    }

    void clear() {
        m_stash.clear();
        m_ents.clear(); m_live.clear();
        m_removed = 0; m_live_bytes = 0; m_need = 0; m_max_need = 0; m_last_gc = 0; m_gc_since_verify = 0;
        event("CLEAR");
        m_hash = vh::hash_u64(0x636c, m_hash);
        vh::count("stash_clears");
        check_counts("clear()");
    }
};

void case_stash_short(uint64_t idx, vh::Rng& rng) {
    StashHistory h{rng};
    const uint64_t nops = 20 + rng.below(380);
    const int profile = static_cast<int>(rng.below(3));
    const unsigned w_remove = 10 + static_cast<unsigned>(rng.below(35));
    vh::set_case_desc("stash short nops=%" PRIu64 " profile=%d w_remove=%u", nops, profile, w_remove);
    for (uint64_t step = 0; step < nops; ++step) {
        const uint64_t r = rng.below(100);
        if (r < w_remove) h.remove_random();
        else if (r < w_remove + 8) h.gc();
        else if (r < w_remove + 9 && rng.chance(1, 4)) h.clear();
        else if (r < w_remove + 14) h.verify_some(3);
        else h.add(profile);
        if (h.live() <= 150 || step % 8 == 0) h.verify_all();
    }
    h.gc();
    vh::evaluated(h.evals());
    vh::distinct(h.hash());
    vh::count("stash_histories_short");
    if (idx % 301 == 0) vh::sample_str(vh::fmt("stash short: %" PRIu64 " ops, %" PRIu64 " handles issued, events: %s", nops, h.issued(), tail(h.log(), 200).c_str()));
}

// long histories in which add_item() must collect by itself
void case_stash_autogc(uint64_t idx, vh::Rng& rng) {
    StashHistory h{rng};
    const unsigned p_remove = 35 + static_cast<unsigned>(rng.below(56));   // percent
    const int target = 1 + static_cast<int>(rng.below(2));
    const uint64_t max_adds = 90000;
    uint64_t adds = 0, steps = 0, tail_steps = 0;
    uint64_t tail_len = 200 + rng.below(3000);
    vh::set_case_desc("stash autogc p_remove=%u target=%d", p_remove, target);
    while (adds < max_adds) {
        ++steps;
        if (h.auto_gcs >= target) { if (++tail_steps > tail_len) break; }
        const uint64_t r = rng.below(1000);
        if (r < 8) h.verify_some(2);
        else if (h.live() && rng.below(100) < p_remove) h.remove_random();
        else { h.add(rng.chance(1, 30) ? 1 : 0); ++adds; }
        if (steps % 8192 == 0) h.verify_all();
    }
    h.verify_all();
    vh::count_max("max_stash_removed_before_collection", h.removed());
    if (rng.coin()) h.gc();
    vh::evaluated(h.evals());
    vh::distinct(h.hash());
    vh::count("stash_histories_autogc");
    if (h.auto_gcs) vh::count("stash_histories_with_auto_gc");
    vh::count_max("max_stash_handles_issued", h.issued());
    if (idx % 37 == 0) vh::sample_str(vh::fmt("stash autogc: p_remove=%u%% steps=%" PRIu64 " handles=%" PRIu64 " auto collections=%d, events: %s", p_remove, steps, h.issued(), h.auto_gcs, tail(h.log(), 300).c_str()));
}

// climb to a high-water mark, remove, collect, climb again below the mark: the buffer must not grow
void case_stash_reclaim(uint64_t idx, vh::Rng& rng) {
    StashHistory h{rng};
    const int rounds = 3 + static_cast<int>(rng.below(5));
    const int profile = 1 + static_cast<int>(rng.below(2));
    uint64_t level = 200000 + rng.below(2400000);
    vh::set_case_desc("stash reclaim rounds=%d profile=%d first level=%" PRIu64, rounds, profile, level);
    uint64_t adds = 0;
    for (int round = 0; round < rounds && adds < 60000; ++round) {
        while (h.need() < level && adds < 60000) {
            if (h.live() && rng.chance(1, 6)) h.remove_random();
            else { h.add(profile); ++adds; }
            if (rng.chance(1, 200)) h.verify_some(4);
        }
        const uint64_t to_remove = h.live() * (30 + rng.below(66)) / 100;
        for (uint64_t i = 0; i < to_remove; ++i) h.remove_random();
        if (!rng.chance(1, 8)) h.gc(); else h.verify_all();
        // next level: mostly below what already fitted, sometimes above
        level = rng.chance(1, 5) ? level + rng.below(level / 2 + 1) : level / 2 + rng.below(level / 2 + 1);
        if (level > 6000000) level = 6000000;
    }
    h.gc();
    vh::evaluated(h.evals());
    vh::distinct(h.hash());
    vh::count("stash_histories_reclaim");
    vh::count_max("max_stash_handles_issued", h.issued());
    if (idx % 41 == 0) vh::sample_str(vh::fmt("stash reclaim: rounds=%d handles=%" PRIu64 ", events: %s", rounds, h.issued(), tail(h.log(), 300).c_str()));
}

} // namespace

int main(int argc, char** argv) {
    vh::parse_args(argc, argv);
    const std::string mode = vh::arg("mode", "idset");
    auto at_end = [] { vh::count("hook_gc_events", vhk::hs().gc_events.load()); };
    if (mode == "idset") return vh::run_cases(argc, argv, 2200, case_idset);
    if (mode == "idset_heavy") return vh::run_cases(argc, argv, 4, case_idset_heavy);
    if (mode == "relmap") return vh::run_cases(argc, argv, 3000, case_relmap);
    if (mode == "stash") {
        const std::string profile = vh::arg("profile", "short");
        if (profile == "short") return vh::run_cases(argc, argv, 1500, case_stash_short, at_end);
        if (profile == "autogc") return vh::run_cases(argc, argv, 160, case_stash_autogc, at_end);
        if (profile == "reclaim") return vh::run_cases(argc, argv, 160, case_stash_reclaim, at_end);
    }
    std::fprintf(stderr, "unknown mode\n");
    return 2;
}
