// C13 - coordinate, timestamp and number text conversions are exact and strict.
//
// modes:
//   coord_rt    : case = block of 2^16 int32 values x (stride applies in quick):
//                 parse(format(x)) == x through the real formatter and parsers
//   ts_rt       : the same for uint32 timestamps (to_iso -> Timestamp(const char*))
//   coord_enum  : exhaustive strings over {0-9 . - + e E space x}; case = 2-char prefix
//   coord_gram  : grammar-directed long strings, every exponent
//   ts_str      : timestamp strings (all field values, fractional seconds, malformed)
//   ints        : integer attribute parsers at every type boundary
//
// Oracle for coordinate strings: exact decimal arithmetic on digit strings (no
// floating point). floor(|v|*10^7) and the remainder class (<half, tie, >half).

#include "vh.hpp"

#include <osmium/io/detail/opl_parser_functions.hpp>
#include <osmium/io/detail/output_format.hpp>
#include <osmium/osm/location.hpp>
#include <osmium/builder/osm_object_builder.hpp>
#include <osmium/memory/buffer.hpp>
#include <osmium/osm/node.hpp>
#include <osmium/osm/timestamp.hpp>
#include <osmium/osm/types_from_string.hpp>

#include <limits>
#include <string>

namespace {

// ------------------------------------------------------------ exact reference

struct RefNum {
    bool grammar_ok = false;      // matches the liberal grammar [+-]?(D+(.D*)?|.D+)([eE][+-]?D+)?
    bool conservative = false;    // within the documented digit limits and without '+'
    size_t consumed = 0;          // length of the longest liberal-grammar prefix
    bool negative = false;
    // result of exact scaling by 10^7:
    bool huge = false;            // |v|*1e7 >= 10^13 (certainly out of int32 range)
    unsigned __int128 ipart = 0;  // floor(|v| * 10^7)
    int frac_class = 0;           // 0: remainder == 0, 1: < half, 2: tie, 3: > half
};

bool isd(char c) { return c >= '0' && c <= '9'; }

// parse the longest prefix of s matching the liberal grammar
RefNum ref_parse(const std::string& s) {
    RefNum r;
    size_t i = 0;
    bool plus = false;
    if (i < s.size() && (s[i] == '-' || s[i] == '+')) { r.negative = s[i] == '-'; plus = s[i] == '+'; ++i; }
    std::string ip, fp;
    while (i < s.size() && isd(s[i])) ip += s[i++];
    bool had_dot = false;
    if (i < s.size() && s[i] == '.') {
        size_t j = i + 1;
        std::string f;
        while (j < s.size() && isd(s[j])) f += s[j++];
        if (!ip.empty() || !f.empty()) { had_dot = true; fp = f; i = j; }
    }
    if (ip.empty() && fp.empty()) return r;  // no number
    (void)had_dot;
    long long exp = 0;
    size_t exp_digits = 0;
    bool exp_plus = false;
    if (i < s.size() && (s[i] == 'e' || s[i] == 'E')) {
        size_t j = i + 1;
        bool eneg = false;
        if (j < s.size() && (s[j] == '-' || s[j] == '+')) { eneg = s[j] == '-'; exp_plus = s[j] == '+'; ++j; }
        std::string ed;
        while (j < s.size() && isd(s[j])) ed += s[j++];
        if (!ed.empty()) {
            exp_digits = ed.size();
            // cap to avoid overflow; anything beyond +-10^7 behaves the same
            long long e = 0;
            for (char c : ed) { e = e * 10 + (c - '0'); if (e > 100000000LL) e = 100000000LL; }
            exp = eneg ? -e : e;
            i = j;
        }
    }
    r.grammar_ok = true;
    r.consumed = i;
    r.conservative = !plus && !exp_plus && ip.size() <= 10 && fp.size() <= 20 && exp_digits <= 5;
    // v = M * 10^E with M = ip+fp (digits), E = exp - len(fp); want M * 10^(E+7)
    std::string M = ip + fp;
    long long E = exp - static_cast<long long>(fp.size()) + 7;
    // strip leading zeros
    size_t nz = 0;
    while (nz < M.size() && M[nz] == '0') ++nz;
    M = M.substr(nz);
    if (M.empty()) { r.ipart = 0; r.frac_class = 0; return r; }
    std::string I, F;
    if (E >= 0) {
        if (static_cast<long long>(M.size()) + E > 14) { r.huge = true; return r; }
        I = M + std::string(static_cast<size_t>(E), '0');
    } else {
        const long long k = -E;
        if (k >= static_cast<long long>(M.size())) {
            I = "";
            // F = zeros(k - len) + M ; only the class matters
            if (k > static_cast<long long>(M.size())) { r.ipart = 0; r.frac_class = 1; return r; }  // first frac digit is 0, M nonzero -> < half
            F = M;
        } else {
            I = M.substr(0, M.size() - static_cast<size_t>(k));
            F = M.substr(M.size() - static_cast<size_t>(k));
        }
    }
    if (I.size() > 14) { r.huge = true; return r; }
    unsigned __int128 v = 0;
    for (char c : I) v = v * 10 + static_cast<unsigned>(c - '0');
    r.ipart = v;
    if (F.empty()) { r.frac_class = 0; return r; }
    bool rest_nonzero = false;
    for (size_t q = 1; q < F.size(); ++q) if (F[q] != '0') rest_nonzero = true;
    if (F[0] > '5' || (F[0] == '5' && rest_nonzero)) r.frac_class = 3;
    else if (F[0] == '5') r.frac_class = 2;
    else if (F[0] != '0' || rest_nonzero) r.frac_class = 1;
    else r.frac_class = 0;
    return r;
}

// acceptable results of rounding (ties: either neighbour); returns count 1 or 2
int ref_round(const RefNum& r, __int128 out[2]) {
    auto sgn = [&](unsigned __int128 m) { return r.negative ? -static_cast<__int128>(m) : static_cast<__int128>(m); };
    switch (r.frac_class) {
        case 0: case 1: out[0] = sgn(r.ipart); return 1;
        case 3: out[0] = sgn(r.ipart + 1); return 1;
        default: out[0] = sgn(r.ipart); out[1] = sgn(r.ipart + 1); return 2;
    }
}

const __int128 I32MIN = std::numeric_limits<int32_t>::min(), I32MAX = std::numeric_limits<int32_t>::max();

struct LibResult { bool ok; int32_t value; size_t consumed; std::string what; bool foreign_exception = false; };

// exact-size heap copy so that ASan sees any read past the terminating NUL
struct ExactStr {
    char* p;
    explicit ExactStr(const std::string& s) : p(static_cast<char*>(std::malloc(s.size() + 1))) { std::memcpy(p, s.c_str(), s.size() + 1); }
    ~ExactStr() { std::free(p); }
    ExactStr(const ExactStr&) = delete;
    ExactStr& operator=(const ExactStr&) = delete;
};

LibResult lib_partial(const std::string& s, bool lat) {
    ExactStr e{s};
    const char* d = e.p;
    osmium::Location loc;
    try {
        if (lat) loc.set_lat_partial(&d); else loc.set_lon_partial(&d);
        return LibResult{true, lat ? loc.y() : loc.x(), static_cast<size_t>(d - e.p), ""};
    } catch (const osmium::invalid_location& ex) {
        return LibResult{false, 0, 0, ex.what()};
    } catch (const std::exception& ex) {
        return LibResult{false, 0, 0, ex.what(), true};
    }
}

LibResult lib_full(const std::string& s, bool lat) {
    ExactStr e{s};
    osmium::Location loc;
    try {
        if (lat) loc.set_lat(e.p); else loc.set_lon(e.p);
        return LibResult{true, lat ? loc.y() : loc.x(), s.size(), ""};
    } catch (const osmium::invalid_location& ex) {
        return LibResult{false, 0, 0, ex.what()};
    } catch (const std::exception& ex) {
        return LibResult{false, 0, 0, ex.what(), true};
    }
}

std::string classify_coord(const std::string& s) {
    // stable class of a coordinate string for violation keys
    bool has_e = s.find_first_of("eE") != std::string::npos;
    if (has_e) {
        auto p = s.find_first_of("eE");
        bool neg = p + 1 < s.size() && s[p + 1] == '-';
        size_t nd = 0;
        for (size_t i = p + 1; i < s.size(); ++i) if (isd(s[i])) ++nd;
        return vh::fmt("exponent(%s,%zu digits)", neg ? "neg" : "pos", nd);
    }
    if (s.find('.') != std::string::npos) return "fraction";
    return "integer";
}

uint64_t n_accept = 0, n_reject = 0, n_must_accept = 0, n_must_reject = 0, n_tie = 0;

void judge_coord(const std::string& s) {
    const RefNum r = ref_parse(s);
    const bool lat = (s.size() & 1U) != 0;
    // ---- full consumption API
    {
        const LibResult l = lib_full(s, lat);
        const bool whole = r.grammar_ok && r.consumed == s.size();
        if (l.foreign_exception) vh::violation("coordinate parser throws an undocumented exception type", s + " : " + l.what);
        if (l.ok) {
            ++n_accept;
            if (!whole) {
                vh::violation("set_lon/set_lat accepts a string outside the grammar / not fully consumed", "'" + s + "'");
            } else if (r.huge) {
                vh::violation("coordinate string too large to represent accepted with a wrong value: " + classify_coord(s), vh::fmt("'%s' -> %d", s.c_str(), l.value));
            } else {
                __int128 c[2];
                const int n = ref_round(r, c);
                if (n == 2) ++n_tie;
                bool match = false;
                for (int i = 0; i < n; ++i) if (c[i] == l.value) match = true;
                if (!match) {
                    const bool out_of_range = c[0] > I32MAX || c[0] < I32MIN;
                    vh::violation(std::string(out_of_range ? "out-of-range coordinate string accepted: " : "coordinate string parsed to a wrong value: ") + classify_coord(s),
                                  vh::fmt("'%s' -> %d, exact rounding gives %lld", s.c_str(), l.value, static_cast<long long>(c[0])));
                }
            }
        } else {
            ++n_reject;
            if (whole && r.conservative && !r.huge) {
                __int128 c[2];
                const int n = ref_round(r, c);
                bool all_in = true;
                for (int i = 0; i < n; ++i) if (c[i] > I32MAX || c[i] < I32MIN) all_in = false;
                if (all_in) {
                    vh::violation("in-grammar in-range coordinate string rejected: " + classify_coord(s), "'" + s + "' : " + l.what);
                }
            }
        }
        if (whole && r.conservative && !r.huge) ++n_must_accept;
        if (!whole || r.huge) ++n_must_reject;
    }
    // ---- partial API
    {
        const LibResult l = lib_partial(s, lat);
        if (l.foreign_exception) vh::violation("coordinate parser throws an undocumented exception type", s + " : " + l.what);
        if (l.ok) {
            const std::string pre = s.substr(0, l.consumed);
            const RefNum rp = ref_parse(pre);
            if (!(rp.grammar_ok && rp.consumed == pre.size())) {
                vh::violation("set_*_partial consumed a prefix outside the grammar", "'" + s + "' consumed " + std::to_string(l.consumed));
            } else if (l.consumed < s.size() && isd(s[l.consumed])) {
                vh::violation("set_*_partial stopped in the middle of a digit run", "'" + s + "' consumed " + std::to_string(l.consumed));
            } else if (rp.huge) {
                vh::violation("coordinate string too large to represent accepted with a wrong value: " + classify_coord(pre), vh::fmt("partial '%s' -> %d", s.c_str(), l.value));
            } else {
                __int128 c[2];
                const int n = ref_round(rp, c);
                bool match = false;
                for (int i = 0; i < n; ++i) if (c[i] == l.value) match = true;
                if (!match) vh::violation("coordinate string parsed to a wrong value: " + classify_coord(pre), vh::fmt("partial '%s' -> %d, exact %lld", s.c_str(), l.value, static_cast<long long>(c[0])));
            }
        } else if (r.grammar_ok && r.consumed == s.size() && r.conservative && !r.huge) {
            __int128 c[2];
            const int n = ref_round(r, c);
            bool all_in = true;
            for (int i = 0; i < n; ++i) if (c[i] > I32MAX || c[i] < I32MIN) all_in = false;
            if (all_in) vh::violation("in-grammar in-range coordinate string rejected: " + classify_coord(s), "partial '" + s + "' : " + l.what);
        }
    }
}

void flush_counts() {
    vh::count("coord_accepted", n_accept); vh::count("coord_rejected", n_reject);
    vh::count("coord_must_accept_class", n_must_accept); vh::count("coord_must_reject_class", n_must_reject);
    vh::count("coord_ties", n_tie);
    n_accept = n_reject = n_must_accept = n_must_reject = n_tie = 0;
}

// ------------------------------------------------------------ coord round trip

void case_coord_rt(uint64_t block, vh::Rng& rng) {
    const uint64_t stride = static_cast<uint64_t>(vh::arg_int("stride", 1));
    const uint64_t lo = block << 16, hi = lo + (1ULL << 16);
    vh::set_case_desc("coord_rt block %" PRIu64, block);
    uint64_t n = 0;
    char buf[32];
    for (uint64_t u = lo + (stride > 1 ? rng.below(stride) : 0); u < hi; u += stride) {
        const int32_t x = static_cast<int32_t>(static_cast<uint32_t>(u));
        char* end = osmium::detail::append_location_coordinate_to_string(buf, x);
        *end = 0;
        const char* p = buf;
        int32_t back;
        try {
            back = osmium::detail::string_to_location_coordinate(&p);
        } catch (const std::exception& e) {
            vh::violation("coordinate round trip: formatted value rejected by the parser", vh::fmt("x=%d text='%s' : %s", x, buf, e.what()));
            continue;
        }
        if (back != x || *p != 0) vh::violation("coordinate round trip: parse(format(x)) != x", vh::fmt("x=%d text='%s' back=%d", x, buf, back));
        // formatted text is canonical: exact decimal value x/1e7
        if ((u & 0xfff) == 0) {
            const RefNum r = ref_parse(buf);
            __int128 c[2];
            if (!r.grammar_ok || r.consumed != std::strlen(buf) || r.frac_class != 0 || ref_round(r, c) != 1 || c[0] != x)
                vh::violation("coordinate formatting is not the exact decimal value", vh::fmt("x=%d text='%s'", x, buf));
        }
        ++n;
    }
    vh::evaluated(n);
    vh::count("coord_roundtrips", n);
    vh::count("distinct_by_construction", n);
    if (block % 9973 == 0) vh::sample_str(vh::fmt("round trip of coordinates in block [%" PRIu64 ", %" PRIu64 ") stride %" PRIu64 ", e.g. last text '%s'", lo, hi, stride, buf));
}

// ------------------------------------------------------------ timestamps

int64_t days_from_civil(int64_t y, unsigned m, unsigned d) {
    y -= m <= 2;
    const int64_t era = (y >= 0 ? y : y - 399) / 400;
    const unsigned yoe = static_cast<unsigned>(y - era * 400);
    const unsigned doy = (153 * (m + (m > 2 ? -3 : 9)) + 2) / 5 + d - 1;
    const unsigned doe = yoe * 365 + yoe / 4 - yoe / 100 + doy;
    return era * 146097 + static_cast<int64_t>(doe) - 719468;
}

void civil_from_days(int64_t z, int& y, unsigned& m, unsigned& d) {
    z += 719468;
    const int64_t era = (z >= 0 ? z : z - 146096) / 146097;
    const unsigned doe = static_cast<unsigned>(z - era * 146097);
    const unsigned yoe = (doe - doe / 1460 + doe / 36524 - doe / 146096) / 365;
    const int64_t yy = static_cast<int64_t>(yoe) + era * 400;
    const unsigned doy = doe - (365 * yoe + yoe / 4 - yoe / 100);
    const unsigned mp = (5 * doy + 2) / 153;
    d = doy - (153 * mp + 2) / 5 + 1;
    m = mp < 10 ? mp + 3 : mp - 9;
    y = static_cast<int>(yy + (m <= 2));
}

std::string ref_iso(uint32_t t) {
    int y; unsigned m, d;
    civil_from_days(t / 86400, y, m, d);
    const unsigned s = t % 86400;
    return vh::fmt("%04d-%02u-%02uT%02u:%02u:%02uZ", y, m, d, s / 3600, (s / 60) % 60, s % 60);
}

void case_ts_rt(uint64_t block, vh::Rng& rng) {
    const uint64_t stride = static_cast<uint64_t>(vh::arg_int("stride", 1));
    const uint64_t lo = block << 16, hi = lo + (1ULL << 16);
    vh::set_case_desc("ts_rt block %" PRIu64, block);
    uint64_t n = 0;
    std::string iso;
    for (uint64_t u = lo + (stride > 1 ? rng.below(stride) : 0); u < hi; u += stride) {
        const uint32_t t = static_cast<uint32_t>(u);
        if (t == 0) continue;  // 0 = "not set", formats to the empty string by design
        iso = osmium::Timestamp{t}.to_iso();
        uint32_t back;
        try {
            back = uint32_t(osmium::Timestamp{iso.c_str()});
        } catch (const std::exception& e) {
            vh::violation("timestamp round trip: to_iso() output rejected by the parser", vh::fmt("t=%u iso=%s : %s", t, iso.c_str(), e.what()));
            continue;
        }
        if (back != t) vh::violation("timestamp round trip: parse(to_iso(t)) != t", vh::fmt("t=%u iso=%s back=%u", t, iso.c_str(), back));
        if ((u & 0x3ff) == 0 && iso != ref_iso(t)) vh::violation("to_iso() differs from proleptic Gregorian reference", vh::fmt("t=%u iso=%s ref=%s", t, iso.c_str(), ref_iso(t).c_str()));
        ++n;
    }
    vh::evaluated(n);
    vh::count("ts_roundtrips", n);
    vh::count("distinct_by_construction", n);
    if (block % 9973 == 0) vh::sample_str(vh::fmt("round trip of timestamps in block [%" PRIu64 ", %" PRIu64 ") stride %" PRIu64 ", e.g. %s", lo, hi, stride, iso.c_str()));
}

struct TsFields { int Y, M, D, h, m, s; };

// returns: 1 must accept (value in *out), 0 must reject, -1 not judged
int ref_ts(const std::string& str, uint32_t* out, size_t* consumed = nullptr) {
    // format yyyy-mm-ddThh:mm:ss followed by Z or [.,]d+Z
    auto dg = [&](size_t i) { return i < str.size() && isd(str[i]); };
    static const int pos[] = {0, 1, 2, 3, 5, 6, 8, 9, 11, 12, 14, 15, 17, 18};
    for (int p : pos) if (!dg(static_cast<size_t>(p))) return 0;
    if (str.size() < 20 || str[4] != '-' || str[7] != '-' || str[10] != 'T' || str[13] != ':' || str[16] != ':') return 0;
    size_t used = 20;
    if (str[19] != 'Z') {
        if (str[19] != '.' && str[19] != ',') return 0;
        size_t i = 20;
        if (!dg(i)) return 0;
        while (dg(i)) ++i;
        if (i >= str.size() || str[i] != 'Z') return 0;
        used = i + 1;
    }
    if (consumed) *consumed = used;
    auto two = [&](size_t i) { return (str[i] - '0') * 10 + (str[i + 1] - '0'); };
    TsFields f{(str[0] - '0') * 1000 + (str[1] - '0') * 100 + two(2), two(5), two(8), two(11), two(14), two(17)};
    static const int ml[12] = {31, 29, 31, 30, 31, 30, 31, 31, 30, 31, 30, 31};
    if (f.M < 1 || f.M > 12 || f.D < 1 || f.D > ml[f.M - 1] || f.h > 23 || f.m > 59 || f.s > 60) return 0;
    const bool leap = (f.Y % 4 == 0 && f.Y % 100 != 0) || f.Y % 400 == 0;
    if (f.M == 2 && f.D == 29 && !leap) return -1;       // the property does not fix this
    const int64_t v = days_from_civil(f.Y, static_cast<unsigned>(f.M), static_cast<unsigned>(f.D)) * 86400 + f.h * 3600 + f.m * 60 + f.s;
    if (v < 0 || v > 0xffffffffLL) return -1;            // outside the uint32 window: not judged
    *out = static_cast<uint32_t>(v);
    return 1;
}

void judge_ts(const std::string& s) {
    ExactStr e{s};
    bool ok = false, foreign = false;
    uint32_t v = 0;
    std::string what;
    try {
        v = uint32_t(osmium::Timestamp{e.p});
        ok = true;
    } catch (const std::invalid_argument& ex) {
        what = ex.what();
    } catch (const std::exception& ex) {
        what = ex.what(); foreign = true;
    }
    if (foreign) vh::violation("timestamp parser throws an undocumented exception type", s + " : " + what);
    uint32_t ref = 0;
    size_t used = 0;
    const int j = ref_ts(s, &ref, &used);
    // the strict entry point (XML attribute, set_attribute): the same grammar, but the string has
    // to be consumed completely
    {
        static osmium::memory::Buffer nb{256, osmium::memory::Buffer::auto_grow::no};
        static osmium::Node* node = [] { { osmium::builder::NodeBuilder b{nb}; b.set_user("u"); } nb.commit(); return &nb.get<osmium::Node>(0); }();
        bool sok = false, sforeign = false;
        std::string swhat;
        node->set_timestamp(osmium::Timestamp{uint32_t{12345}});
        try { node->set_timestamp(e.p); sok = true; }
        catch (const std::invalid_argument& ex) { swhat = ex.what(); }
        catch (const std::exception& ex) { swhat = ex.what(); sforeign = true; }
        if (sforeign) vh::violation("OSMObject::set_timestamp(const char*) throws an undocumented exception type", s + " : " + swhat);
        if (j == 1 && used == s.size()) {
            vh::count("ts_strict_must_accept");
            if (!sok) vh::violation("valid timestamp string rejected by OSMObject::set_timestamp(const char*)", s + " : " + swhat);
            else if (uint32_t(node->timestamp()) != ref) vh::violation("OSMObject::set_timestamp(const char*) stores a wrong value", vh::fmt("%s -> %u expected %u", s.c_str(), uint32_t(node->timestamp()), ref));
        } else if (j == 0 || (j == 1 && used < s.size())) {
            vh::count("ts_strict_must_reject");
            if (sok) vh::violation("OSMObject::set_timestamp(const char*) accepts a malformed or not fully consumed string", vh::fmt("%s -> %u", s.c_str(), uint32_t(node->timestamp())));
        }
    }
    if (j == 1) {
        vh::count("ts_must_accept");
        if (!ok) vh::violation("valid timestamp string rejected", s + " : " + what);
        else if (v != ref) vh::violation("timestamp string parsed to a wrong value", vh::fmt("%s -> %u expected %u", s.c_str(), v, ref));
    } else if (j == 0) {
        vh::count("ts_must_reject");
        if (ok) vh::violation("malformed/invalid timestamp string accepted", vh::fmt("%s -> %u", s.c_str(), v));
    } else {
        vh::count("ts_not_judged");
    }
}

void case_ts_str(uint64_t idx, vh::Rng& rng) {
    vh::set_case_desc("ts_str %" PRIu64, idx);
    // field-value sweeps around a random valid base
    static const int years[] = {1969, 1970, 1971, 1999, 2000, 2001, 2004, 2038, 2100, 2105, 2106, 2107, 1900, 1899, 0, 9999};
    const int Y = rng.chance(1, 3) ? static_cast<int>(rng.range(1970, 2105)) : rng.pick(years);
    uint64_t n = 0;
    std::string first;
    auto emit = [&](int y, int mo, int d, int h, int mi, int se, const std::string& tail) {
        std::string s = vh::fmt("%04d-%02d-%02dT%02d:%02d:%02d", y, mo, d, h, mi, se) + tail;
        if (first.empty()) first = s;
        judge_ts(s);
        ++n;
    };
    static const char* tails[] = {"Z", ".5Z", ",25Z", ".123456789Z", "", "z", ".Z", ".5", "+00:00", " Z", "Zjunk", ",Z"};
    const int mo0 = static_cast<int>(rng.range(1, 12)), d0 = static_cast<int>(rng.range(1, 28));
    const int h0 = static_cast<int>(rng.range(0, 23)), mi0 = static_cast<int>(rng.range(0, 59)), se0 = static_cast<int>(rng.range(0, 59));
    switch (idx % 6) {
        case 0: for (int mo = 0; mo <= 13; ++mo) for (int d = 0; d <= 32; ++d) emit(Y, mo, d, h0, mi0, se0, "Z"); break;
        case 1: for (int h = 0; h <= 25; ++h) for (int mi = 0; mi <= 61; mi += (mi < 58 ? 7 : 1)) emit(Y, mo0, d0, h, mi, se0, "Z"); break;
        case 2: for (int se = 0; se <= 62; ++se) emit(Y, mo0, d0, h0, mi0, se, "Z"); for (int se : {0, 59, 60}) emit(Y, 12, 31, 23, 59, se, "Z"); break;
        case 3: for (const char* t : tails) emit(Y, mo0, d0, h0, mi0, se0, t); break;
        case 4: {
            // single-character corruption of a valid string
            std::string base = vh::fmt("%04d-%02d-%02dT%02d:%02d:%02dZ", Y >= 1970 && Y <= 2105 ? Y : 2000, mo0, d0, h0, mi0, se0);
            static const char repl[] = {'0', '9', '-', ':', 'T', 'Z', ' ', '.', '/', 'x', '\t'};
            for (size_t p = 0; p < base.size(); ++p) for (char c : repl) { std::string s = base; s[p] = c; if (first.empty()) first = s; judge_ts(s); ++n; }
            for (size_t p = 0; p < base.size(); ++p) { std::string s = base.substr(0, p); judge_ts(s); ++n; }
            break;
        }
        default: {
            // random valid instant: must parse to exactly that value
            const uint32_t t = rng.coin() ? static_cast<uint32_t>(rng.next()) : static_cast<uint32_t>(rng.pick(std::vector<uint64_t>{1, 59, 60, 86399, 86400, 951782400, 951868800, 2147483647ULL, 2147483648ULL, 4294967295ULL, 4107542400ULL}));
            for (int k = 0; k < 40; ++k) {
                const uint32_t tt = t + static_cast<uint32_t>(k * 86399);
                if (tt == 0) continue;
                const std::string s = ref_iso(tt);
                if (first.empty()) first = s;
                judge_ts(s);
                judge_ts(s.substr(0, 19) + ".999Z");
                n += 2;
            }
        }
    }
    vh::evaluated(n);
    vh::distinct(vh::hash_str(first, vh::hash_u64(idx % 6)));
    if (idx < 6) vh::sample_str("timestamp strings e.g. '" + first + "' (sweep kind " + std::to_string(idx % 6) + ")");
}

// ------------------------------------------------------------ coordinate strings

const char ALPHA[16] = {'0', '1', '2', '3', '4', '5', '6', '7', '8', '9', '.', '-', '+', 'e', 'E', ' '};
const char ALPHA_X = 'x';

char alpha(unsigned i) { return i < 16 ? ALPHA[i] : ALPHA_X; }
constexpr unsigned NA = 17;

void case_coord_enum(uint64_t idx, vh::Rng&) {
    // case = first two characters; enumerate all continuations up to maxlen
    const unsigned maxlen = static_cast<unsigned>(vh::arg_int("maxlen", 5));
    const unsigned a = static_cast<unsigned>(idx / NA), b = static_cast<unsigned>(idx % NA);
    std::string s;
    s += alpha(a);
    vh::set_case_desc("coord_enum prefix '%c%c' maxlen %u", alpha(a), alpha(b), maxlen);
    uint64_t n = 0;
    if (b == 0) { judge_coord(s); ++n; }
    s += alpha(b);
    // iterative enumeration of suffixes of length 0..maxlen-2
    std::vector<unsigned> digits;
    while (true) {
        std::string t = s;
        for (unsigned d : digits) t += alpha(d);
        judge_coord(t);
        ++n;
        // next
        if (digits.size() < maxlen - 2) { digits.push_back(0); continue; }
        while (!digits.empty() && digits.back() == NA - 1) digits.pop_back();
        if (digits.empty()) break;
        ++digits.back();
    }
    vh::evaluated(n);
    vh::count("coord_enum_strings", n);
    vh::count("distinct_by_construction", n);
    flush_counts();
    if (idx % 50 == 7) vh::sample_str(vh::fmt("all strings over {0-9.-+eE space x} starting with '%c%c' up to length %u", alpha(a), alpha(b), maxlen));
}

std::string rand_digits(vh::Rng& rng, size_t n, bool boundary) {
    std::string s;
    static const char bd[4] = {'0', '4', '5', '9'};
    for (size_t i = 0; i < n; ++i) s += boundary ? bd[rng.below(4)] : static_cast<char>('0' + rng.below(10));
    return s;
}

void case_coord_gram(uint64_t idx, vh::Rng& rng) {
    vh::set_case_desc("coord_gram %" PRIu64, idx);
    uint64_t n = 0;
    std::string first;
    auto go = [&](const std::string& s) { if (first.empty()) first = s; judge_coord(s); ++n; };
    const uint64_t nexp_cases = 200000;  // exponents -99999..99999 (+1 for 0)
    if (idx < nexp_cases) {
        // every exponent with assorted mantissas
        const long long e = static_cast<long long>(idx) - 99999;
        static const char* mant[] = {"1", "0", "-1", "9", "1.5", "0.00000005", "214.7483647", "-214.7483648", "2147483647", "0.000000049999", "12345678901"};
        for (const char* m : mant) go(vh::fmt("%s%c%lld", m, (idx & 1) ? 'e' : 'E', e));
        // mantissa that brings the value back into range
        if (e > -40 && e < 40) {
            for (int k = 0; k < 6; ++k) {
                std::string digits = rand_digits(rng, 1 + rng.below(9), rng.coin());
                std::string frac = rand_digits(rng, rng.below(12), rng.coin());
                go((rng.coin() ? "-" : "") + digits + (frac.empty() ? "" : "." + frac) + "e" + std::to_string(e));
            }
        }
    } else {
        for (int k = 0; k < 60; ++k) {
            std::string s;
            if (rng.chance(1, 3)) s += '-';
            const size_t ni = rng.pick(std::vector<size_t>{0, 1, 1, 2, 3, 3, 9, 10, 11, 12});
            const size_t nf = rng.pick(std::vector<size_t>{0, 0, 1, 6, 7, 8, 9, 10, 19, 20, 21, 27, 28, 29});
            std::string ip = rand_digits(rng, ni, rng.coin());
            if (rng.coin() && !ip.empty()) { ip = rng.pick(std::vector<std::string>{"214", "180", "90", "179", "0", "00214"}); }
            s += ip;
            if (nf > 0 || rng.chance(1, 5)) { s += '.'; s += rng.chance(1, 4) ? (std::string("7483647") + rand_digits(rng, nf > 7 ? nf - 7 : 0, true)) : rand_digits(rng, nf, rng.coin()); }
            if (rng.chance(1, 3)) {
                s += rng.coin() ? 'e' : 'E';
                if (rng.chance(1, 3)) s += '-'; else if (rng.chance(1, 10)) s += '+';
                s += rand_digits(rng, rng.pick(std::vector<size_t>{0, 1, 1, 2, 5, 6}), false);
            }
            if (rng.chance(1, 6)) s += rng.pick(std::vector<std::string>{" ", "x", "y", ",", "0x", "e", ".", "-"});
            go(s);
        }
    }
    vh::evaluated(n);
    vh::distinct(vh::hash_str(first, vh::hash_u64(n)));
    flush_counts();
    if (idx % 40000 == 3 || idx == nexp_cases + 1) vh::sample_str("coordinate strings e.g. '" + first + "'");
}

// ------------------------------------------------------------ integers

struct RefInt { bool grammar = false; bool plus = false; bool neg = false; bool overflow = false; __int128 v = 0; size_t consumed = 0; };

RefInt ref_int(const std::string& s) {
    RefInt r;
    size_t i = 0;
    if (i < s.size() && (s[i] == '-' || s[i] == '+')) { r.neg = s[i] == '-'; r.plus = s[i] == '+'; ++i; }
    size_t nd = 0;
    while (i < s.size() && isd(s[i])) {
        if (r.v > (static_cast<__int128>(1) << 100)) r.overflow = true; else r.v = r.v * 10 + (s[i] - '0');
        ++i; ++nd;
    }
    if (nd == 0) return r;
    r.grammar = true;
    r.consumed = i;
    if (r.neg) r.v = -r.v;
    return r;
}

class IntOut : public osmium::io::detail::OutputBlock {
public:
    IntOut() : OutputBlock(osmium::memory::Buffer{64}) {}
    std::string fmt_int(int64_t v) { m_out->clear(); output_int(v); return *m_out; }
};

template <typename F>
void judge_full_int(const char* api, const std::string& s, __int128 lo, __int128 hi, __int128 must_hi, bool minus_one_is_zero, F&& parse) {
    ExactStr e{s};
    bool ok = false, foreign = false;
    __int128 v = 0;
    std::string what;
    try { v = parse(e.p); ok = true; }
    catch (const std::range_error& ex) { what = ex.what(); }
    catch (const std::exception& ex) { what = ex.what(); foreign = true; }
    if (foreign) vh::violation(std::string(api) + ": undocumented exception type", s + " : " + what);
    const RefInt r = ref_int(s);
    const bool whole = r.grammar && r.consumed == s.size();
    __int128 expect = r.v;
    bool in_range = whole && !r.overflow && r.v >= lo && r.v <= hi;
    if (minus_one_is_zero && s == "-1") { expect = 0; in_range = true; }
    if (ok) {
        if (!whole) vh::violation(std::string(api) + ": accepts a string that is not an integer / not fully consumed", "'" + s + "'");
        else if (!in_range) vh::violation(std::string(api) + ": out-of-range value accepted", vh::fmt("'%s' -> %lld", s.c_str(), static_cast<long long>(v)));
        else if (v != expect) vh::violation(std::string(api) + ": wrong value", vh::fmt("'%s' -> %lld", s.c_str(), static_cast<long long>(v)));
        vh::count("int_accepted");
    } else {
        vh::count("int_rejected");
        // must accept: optional '-', digits, no leading '+', in range
        if (whole && in_range && expect <= must_hi && !r.plus && !(r.neg && lo >= 0 && !(minus_one_is_zero && s == "-1")))
            vh::violation(std::string(api) + ": in-range value rejected", "'" + s + "' : " + what);
    }
}

template <typename T>
void judge_opl_int(const char* api, const std::string& s) {
    ExactStr e{s};
    const char* p = e.p;
    bool ok = false, foreign = false;
    __int128 v = 0;
    std::string what;
    try { v = osmium::io::detail::opl_parse_int<T>(&p); ok = true; }
    catch (const osmium::opl_error& ex) { what = ex.what(); }
    catch (const std::exception& ex) { what = ex.what(); foreign = true; }
    if (foreign) vh::violation(std::string(api) + ": undocumented exception type", s + " : " + what);
    const __int128 lo = std::numeric_limits<T>::min(), hi = std::numeric_limits<T>::max();
    const RefInt r = ref_int(s);
    if (ok) {
        const size_t consumed = static_cast<size_t>(p - e.p);
        const RefInt rp = ref_int(s.substr(0, consumed));
        if (!rp.grammar || rp.consumed != consumed) vh::violation(std::string(api) + ": consumed a prefix that is not an integer", "'" + s + "'");
        else if (consumed < s.size() && isd(s[consumed])) vh::violation(std::string(api) + ": stopped inside a digit run", "'" + s + "'");
        else if (rp.overflow || rp.v < lo || rp.v > hi) vh::violation(std::string(api) + ": out-of-range value accepted", vh::fmt("'%s' -> %lld", s.c_str(), static_cast<long long>(v)));
        else if (v != rp.v) vh::violation(std::string(api) + ": wrong value", vh::fmt("'%s' -> %lld", s.c_str(), static_cast<long long>(v)));
        vh::count("int_accepted");
    } else {
        vh::count("int_rejected");
        if (r.grammar && !r.plus && !r.overflow && r.v >= lo && r.v <= hi && !(r.neg && lo >= 0 && r.v != 0))
            vh::violation(std::string(api) + ": in-range value rejected", "'" + s + "' : " + what);
    }
}

void case_ints(uint64_t idx, vh::Rng& rng) {
    vh::set_case_desc("ints %" PRIu64, idx);
    static const std::vector<std::string> bases = {
        "0", "1", "2", "9", "10", "2147483646", "2147483647", "2147483648", "2147483649", "4294967294", "4294967295",
        "4294967296", "4294967297", "9223372036854775806", "9223372036854775807", "9223372036854775808",
        "9223372036854775809", "18446744073709551614", "18446744073709551615", "18446744073709551616",
        "10000000000000000000", "99999999999999999999", "100000000000000000000", "340282366920938463463374607431768211456",
        "922337203685477580", "9223372036854775799", "9223372036854775810"};
    std::vector<std::string> cands;
    if (idx < bases.size() * 2) {
        const std::string& b = bases[idx / 2];
        const std::string sign = (idx & 1) ? "-" : "";
        for (const char* pre : {"", "0", "000", "+", " ", "\t", "n", "w", "r", "x"})
            for (const char* post : {"", " ", "x", ".0", "e0", ",", "\n", "-", "0"})
                cands.push_back(std::string(pre) + sign + b + post);
        cands.push_back(sign);
        cands.push_back(sign + sign + b);
    } else {
        for (int k = 0; k < 60; ++k) {
            std::string s;
            if (rng.chance(1, 3)) s += '-';
            s += rand_digits(rng, 1 + rng.below(22), rng.chance(1, 4));
            if (rng.chance(1, 8)) s += rng.pick(std::vector<std::string>{" ", "x", "-", "+1"});
            cands.push_back(s);
        }
    }
    IntOut io;
    const __int128 I64MIN = std::numeric_limits<int64_t>::min(), I64MAX = std::numeric_limits<int64_t>::max();
    for (const auto& s : cands) {
        // the documented domain of ids is (INT64_MIN, INT64_MAX]; for the uint32
        // attributes the shipped unit tests pin 4294967295 as rejected, so only
        // [0, 2^32-2] is in the must-accept class (2^32-1 is not judged)
        judge_full_int("string_to_object_id", s, I64MIN + 1, I64MAX, I64MAX, false, [](const char* p) { return static_cast<__int128>(osmium::string_to_object_id(p)); });
        judge_full_int("string_to_object_version", s, 0, 0xffffffffLL, 0xfffffffeLL, true, [](const char* p) { return static_cast<__int128>(osmium::string_to_object_version(p)); });
        judge_full_int("string_to_changeset_id", s, 0, 0xffffffffLL, 0xfffffffeLL, true, [](const char* p) { return static_cast<__int128>(osmium::string_to_changeset_id(p)); });
        judge_full_int("string_to_uid", s, 0, 0xffffffffLL, 0xfffffffeLL, true, [](const char* p) { return static_cast<__int128>(osmium::string_to_uid(p)); });
        judge_opl_int<int64_t>("opl_parse_int<int64>", s);
        judge_opl_int<uint32_t>("opl_parse_int<uint32>", s);
        judge_opl_int<int32_t>("opl_parse_int<int32>", s);
        // typed ids: n/w/r prefix
        if (!s.empty() && (s[0] == 'n' || s[0] == 'w' || s[0] == 'r')) {
            try {
                auto pr = osmium::string_to_object_id(s.c_str(), osmium::osm_entity_bits::nwr);
                const RefInt r = ref_int(s.substr(1));
                if (!(r.grammar && r.consumed == s.size() - 1 && !r.overflow && r.v == pr.second && osmium::item_type_to_char(pr.first) == s[0]))
                    vh::violation("string_to_object_id(typed): wrong result", "'" + s + "'");
            } catch (const std::range_error&) {
            }
        }
        vh::evaluated();
    }
    // integer output round trip
    for (int k = 0; k < 50; ++k) {
        int64_t v = static_cast<int64_t>(rng.next()) >> rng.below(64);
        if (k < static_cast<int>(bases.size())) { const RefInt r = ref_int(bases[k]); if (!r.overflow && r.v <= I64MAX) v = (idx & 1) ? -static_cast<int64_t>(r.v) : static_cast<int64_t>(r.v); }
        if (v == std::numeric_limits<int64_t>::min()) continue;
        const std::string t = io.fmt_int(v);
        const RefInt r = ref_int(t);
        if (!r.grammar || r.consumed != t.size() || r.v != v) vh::violation("output_int: text is not the value", vh::fmt("%lld -> '%s'", static_cast<long long>(v), t.c_str()));
        const char* p = t.c_str();
        try {
            if (osmium::io::detail::opl_parse_int<int64_t>(&p) != v) vh::violation("integer round trip: parse(format(v)) != v", t);
            if (v != std::numeric_limits<int64_t>::max() || true) { if (osmium::string_to_object_id(t.c_str()) != v) vh::violation("integer round trip: string_to_object_id(format(v)) != v", t); }
        } catch (const std::exception& e) {
            vh::violation("integer round trip: formatted id rejected", t + " : " + e.what());
        }
        vh::count("int_roundtrips");
    }
    vh::distinct(vh::hash_str(cands.empty() ? "" : cands[0], vh::hash_u64(idx)));
    if (idx % 37 == 0) vh::sample_str("integer strings e.g. '" + (cands.size() > 3 ? cands[3] : std::string()) + "'");
}

} // namespace

int main(int argc, char** argv) {
    vh::parse_args(argc, argv);
    const std::string mode = vh::arg("mode", "coord_enum");
    if (mode == "coord_rt") return vh::run_cases(argc, argv, 65536, case_coord_rt);
    if (mode == "ts_rt") return vh::run_cases(argc, argv, 65536, case_ts_rt);
    if (mode == "coord_enum") return vh::run_cases(argc, argv, NA * NA, case_coord_enum);
    if (mode == "coord_gram") return vh::run_cases(argc, argv, 210000, case_coord_gram);
    if (mode == "ts_str") return vh::run_cases(argc, argv, 3000, case_ts_str);
    if (mode == "ints") return vh::run_cases(argc, argv, 600, case_ints);
    std::fprintf(stderr, "unknown mode\n");
    return 2;
}
