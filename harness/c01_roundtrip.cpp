// C01 - write-then-read round trip is lossless for every format and option.
//
// case i: seeded (data set D, header H, option vector x). D is written with the
// real Writer, read back with the real Reader and compared field by field with
// project(D, x): the model of what the format/option combination *carries*
// (written from the format documentation, see the projection_rules info lines
// in the evidence). PBF output is additionally checked by an independent
// framing parser (format limits). Special case indexes >= --special-from build
// the boundary packs (7999/8000/8001 entities per block, string table > 32 MiB).

#include "io_util.hpp"
#include "pb.hpp"

#include <osmium/io/any_compression.hpp>

#include <algorithm>

namespace {

enum Fmt { OSM = 0, OSC = 1, OSH = 2, PBF = 3, OSHPBF = 4, OPL = 5 };
const char* FMT_NAME[] = {"osm", "osc", "osh", "pbf", "osh.pbf", "opl"};

struct Opt {
    int fmt = OSM;
    bool dense = true;
    int pbfcomp = 1;        // 0 none 1 zlib 2 lz4
    unsigned meta = 31;     // bit0 version 1 timestamp 2 changeset 3 uid 4 user
    bool low = false;       // locations_on_ways
    int fcomp = 0;          // 0 none 1 gz 2 bz2
    int pool = 2;           // reader pool threads
    bool via_memory = false;
    int by_item = 0;        // 0: whole buffers, 1: single items, 2: items and buffers mixed on one Writer
    bool is_pbf() const { return fmt == PBF || fmt == OSHPBF; }
    bool is_xml() const { return fmt <= OSH; }
    bool history() const { return fmt == OSC || fmt == OSH || fmt == OSHPBF; }
};

std::string meta_string(unsigned m) {
    if (m == 31) return "all";
    if (m == 0) return "none";
    static const char* n[] = {"version", "timestamp", "changeset", "uid", "user"};
    std::string s;
    for (int i = 0; i < 5; ++i) if (m & (1U << i)) { if (!s.empty()) s += '+'; s += n[i]; }
    return s;
}

std::string format_string(const Opt& o) {
    std::string f = FMT_NAME[o.fmt];
    if (o.fcomp == 1) f += ".gz"; else if (o.fcomp == 2) f += ".bz2";
    f += ",add_metadata=" + meta_string(o.meta);
    if (o.low) f += ",locations_on_ways=true";
    if (o.is_pbf()) {
        f += o.dense ? ",pbf_dense_nodes=true" : ",pbf_dense_nodes=false";
        f += o.pbfcomp == 0 ? ",pbf_compression=none" : o.pbfcomp == 1 ? ",pbf_compression=zlib" : ",pbf_compression=lz4";
    }
    return f;
}

std::string opt_string(const Opt& o) {
    return format_string(o) + vh::fmt(" pool=%d %s %s", o.pool, o.via_memory ? "read-from-memory" : "read-from-file", o.by_item == 1 ? "writer-fed-by-item" : o.by_item == 2 ? "writer-fed-mixed" : "writer-fed-by-buffer");
}

Opt gen_opt(vh::Rng& rng) {
    Opt o;
    o.fmt = static_cast<int>(rng.below(6));
    o.dense = rng.coin();
    o.pbfcomp = static_cast<int>(rng.below(3));
    o.meta = rng.chance(1, 3) ? 31 : static_cast<unsigned>(rng.below(32));
    o.low = rng.chance(1, 3);
    o.fcomp = static_cast<int>(rng.below(3));
    o.pool = rng.pick(std::vector<int>{1, 2, 4});
    o.via_memory = rng.coin();
    o.by_item = static_cast<int>(rng.below(3));
    return o;
}

// ------------------------------------------------------------------ projection

bool loc_defined_both(int32_t x, int32_t y) { return x != mdl::UNDEF && y != mdl::UNDEF; }

mdl::Obj project(const mdl::Obj& in, const Opt& o) {
    mdl::Obj e = in;
    if (e.type == mdl::CHANGESET) {
        if (!o.is_xml()) e.comments.clear();   // discussions: XML only
        if (o.fmt == OPL) { /* all scalar fields carried */ }
        return e;
    }
    if (!(o.meta & 1U)) e.version = 0;
    if (!(o.meta & 2U)) e.timestamp = 0;
    if (!(o.meta & 4U)) e.changeset = 0;
    if (!(o.meta & 8U)) e.uid = 0;
    if (!(o.meta & 16U)) e.user.clear();
    // visible
    bool carried;
    switch (o.fmt) {
        case OSM: carried = false; break;
        case OSC: case OSH: carried = true; break;
        case PBF: carried = false; break;
        case OSHPBF: carried = true; break;
        default: carried = o.meta != 0; break;  // OPL: dV/dD whenever any metadata is written
    }
    if (!carried) e.visible = true;
    // way node locations
    if (e.type == mdl::WAY && !o.low) for (auto& n : e.nodes) { n.x = mdl::UNDEF; n.y = mdl::UNDEF; }
    return e;
}

mdl::Header project_header(const mdl::Header& h, const Opt& o) {
    mdl::Header e;
    if (o.fmt == OPL) return e;       // OPL has no header
    e.generator = h.generator;
    if (o.is_xml()) { e.boxes = h.boxes; return e; }
    if (!h.boxes.empty()) {           // PBF: one joined box
        mdl::Box j = h.boxes[0];
        for (const auto& b : h.boxes) { j.x1 = std::min(j.x1, b.x1); j.y1 = std::min(j.y1, b.y1); j.x2 = std::max(j.x2, b.x2); j.y2 = std::max(j.y2, b.y2); }
        e.boxes.push_back(j);
    }
    return e;
}

// stable class of an error message: numbers replaced by N unless they are
// well-known boundary constants
std::string msg_class(const std::string& m) {
    static const char* keep[] = {"4294967295", "4294967296", "9223372036854775807", "2147483647", "2147483648", "65535", "65536", "8000", "0.6"};
    std::string out;
    size_t i = 0;
    while (i < m.size()) {
        if (m[i] >= '0' && m[i] <= '9') {
            size_t j = i;
            while (j < m.size() && m[j] >= '0' && m[j] <= '9') ++j;
            const std::string num = m.substr(i, j - i);
            bool k = false;
            for (const char* c : keep) if (num == c) k = true;
            out += k ? num : "N";
            i = j;
        } else {
            out += m[i++];
        }
    }
    if (out.size() > 100) out.resize(100);
    // strip quoted file names / paths
    auto p = out.find("/verif/");
    if (p != std::string::npos) out.resize(p);
    return out;
}

std::string g_dir;
osmium::thread::Pool* g_pools[5] = {nullptr, nullptr, nullptr, nullptr, nullptr};
osmium::thread::Pool& pool(int n) {
    if (!g_pools[n]) g_pools[n] = new osmium::thread::Pool{n, 20};
    return *g_pools[n];
}

struct WriteOutcome { bool ok = false; std::string error, error_type; size_t size = 0; };

WriteOutcome write_dataset(const std::string& path, const Opt& o, const mdl::Header& H, const std::vector<mdl::Obj>& D) {
    WriteOutcome w;
    try {
        osmium::io::File file{path, format_string(o)};
        osmium::io::Writer writer{file, iou::model_to_header(H), osmium::io::overwrite::allow, pool(4)};
        if (o.by_item == 1) {
            osmium::memory::Buffer buf{1024, osmium::memory::Buffer::auto_grow::yes};
            for (const auto& obj : D) {
                buf.clear();
                mdl::to_buffer(obj, buf);
                writer(*buf.begin());
            }
        } else if (o.by_item == 2) {
            // a seeded sequence of API calls on one Writer: runs of single items, whole buffers (also
            // several in a row) and explicit flush() calls (also repeated), in any order
            osmium::memory::Buffer item_buf{1024, osmium::memory::Buffer::auto_grow::yes};
            vh::Rng frng{vh::hash_str(path), D.size()};
            size_t i = 0;
            while (i < D.size()) {
                const size_t run = 1 + frng.below(4);
                switch (frng.below(4)) {
                    case 0:
                        for (size_t k = 0; k < run && i < D.size(); ++k, ++i) { item_buf.clear(); mdl::to_buffer(D[i], item_buf); writer(*item_buf.begin()); }
                        break;
                    case 1: case 2: {
                        osmium::memory::Buffer buf{4096, osmium::memory::Buffer::auto_grow::yes};
                        for (size_t k = 0; k < run && i < D.size(); ++k, ++i) mdl::to_buffer(D[i], buf);
                        writer(std::move(buf));
                        break;
                    }
                    default:
                        writer.flush();
                        if (frng.coin()) writer.flush();
                        break;
                }
            }
            if (frng.coin()) writer.flush();
        } else {
            osmium::memory::Buffer buf{64 * 1024, osmium::memory::Buffer::auto_grow::yes};
            size_t n = 0;
            for (const auto& obj : D) {
                mdl::to_buffer(obj, buf);
                if (++n % 1000 == 0 || buf.committed() > 4 * 1024 * 1024) {
                    writer(std::move(buf));
                    buf = osmium::memory::Buffer{64 * 1024, osmium::memory::Buffer::auto_grow::yes};
                }
            }
            if (buf.committed() > 0) writer(std::move(buf));
        }
        w.size = writer.close();
        w.ok = true;
    } catch (const std::exception& e) {
        w.error = e.what();
        w.error_type = iou::demangle(typeid(e).name());
    }
    return w;
}

bool has_invalid_way_location(const std::vector<mdl::Obj>& D) {
    for (const auto& o : D) if (o.type == mdl::WAY) for (const auto& n : o.nodes) {
        if (loc_defined_both(n.x, n.y) && !osmium::Location{n.x, n.y}.valid()) return true;
    }
    return false;
}

void check_case(const Opt& o, const mdl::Header& H, const std::vector<mdl::Obj>& D, const std::string& what) {
    const std::string fmt = FMT_NAME[o.fmt];
    const std::string path = g_dir + "/f";
    ::unlink(path.c_str());
    const WriteOutcome w = write_dataset(path, o, H, D);
    vh::cover("format", fmt);
    vh::cover("add_metadata", meta_string(o.meta));
    vh::cover("file_compression", std::to_string(o.fcomp));
    vh::cover("pbf_opts", o.is_pbf() ? vh::fmt("dense=%d comp=%d", o.dense, o.pbfcomp) : "-");
    vh::cover("reader", vh::fmt("pool=%d mem=%d", o.pool, o.via_memory));
    vh::cover("locations_on_ways", std::to_string(o.low));
    vh::cover("writer_feed", o.by_item == 1 ? "item" : o.by_item == 2 ? "mixed" : "buffer");
    if (!w.ok) {
        // documented: OPL + locations_on_ways + defined-but-invalid location
        if (o.fmt == OPL && o.low && w.error_type == "osmium::invalid_location" && has_invalid_way_location(D)) { vh::count("expected_writer_exception"); return; }
        vh::violation("Writer threw unexpectedly: " + fmt + ": " + w.error_type + ": " + msg_class(w.error), what + " | " + opt_string(o) + " | " + w.error);
        return;
    }
    vh::count("files_written");
    const std::string bytes = iou::slurp(path);
    if (bytes.size() != w.size) vh::violation("Writer::close() size differs from file size: " + fmt, vh::fmt("%zu vs %zu | %s", w.size, bytes.size(), opt_string(o).c_str()));
    // PBF framing limits (only meaningful for uncompressed files)
    if (o.is_pbf() && o.fcomp == 0) {
        const pb::FrameStats fs = pb::check_framing(bytes);
        if (!fs.error.empty()) vh::violation("PBF file written by Writer breaks the format limits: " + fs.error_class, what + " | " + opt_string(o) + " | " + fs.error);
        vh::count("pbf_framing_checked");
        vh::count_max("max_entities_per_block", fs.max_entities);
        vh::count_max("max_uncompressed_block_bytes", fs.max_raw);
        vh::count_max("max_blob_bytes", fs.max_datasize);
    }
    // read back
    iou::ReadResult r;
    const std::string rfmt = std::string(FMT_NAME[o.fmt]) + (o.fcomp == 1 ? ".gz" : o.fcomp == 2 ? ".bz2" : "");
    if (o.via_memory) {
        osmium::io::File f{bytes.data(), bytes.size(), rfmt};
        r = iou::read_all(f, osmium::osm_entity_bits::all, pool(o.pool));
    } else {
        osmium::io::File f{path, rfmt};
        r = iou::read_all(f, osmium::osm_entity_bits::all, pool(o.pool));
    }
    const std::string src = o.via_memory ? "memory" : "file";
    if (!r.ok) {
        std::string comp = o.fcomp ? (o.is_pbf() ? std::string(" (file-compressed PBF from ") + src + ")" : "") : "";
        vh::violation("Reader rejects a file the Writer produced: " + fmt + comp + ": " + msg_class(r.error), what + " | " + opt_string(o) + " | " + r.error_type + ": " + r.error);
        return;
    }
    vh::count("files_read_back");
    // header
    const mdl::Header eh = project_header(H, o);
    if (r.header.generator != eh.generator) vh::violation("header generator differs: " + fmt, "expected " + mdl::show(eh.generator) + " got " + mdl::show(r.header.generator));
    if (r.header.boxes.size() != eh.boxes.size()) {
        vh::violation("header box count differs: " + fmt, vh::fmt("expected %zu got %zu", eh.boxes.size(), r.header.boxes.size()));
    } else {
        for (size_t i = 0; i < eh.boxes.size(); ++i) {
            const auto &a = eh.boxes[i], &b = r.header.boxes[i];
            if (a.x1 != b.x1 || a.y1 != b.y1 || a.x2 != b.x2 || a.y2 != b.y2)
                vh::violation("header bounding box differs: " + fmt, vh::fmt("expected (%d,%d,%d,%d) got (%d,%d,%d,%d)", a.x1, a.y1, a.x2, a.y2, b.x1, b.y1, b.x2, b.y2));
        }
        if (!eh.boxes.empty()) vh::count("header_boxes_compared", eh.boxes.size());
    }
    // objects
    if (r.objs.size() != D.size()) {
        vh::violation("object count differs after round trip: " + fmt, vh::fmt("wrote %zu read %zu | %s | %s", D.size(), r.objs.size(), what.c_str(), opt_string(o).c_str()));
        return;
    }
    for (size_t i = 0; i < D.size(); ++i) {
        const mdl::Obj e = project(D[i], o);
        std::string detail;
        const std::string f = mdl::diff(e, r.objs[i], &detail);
        if (!f.empty()) {
            vh::violation("round trip changes " + std::string(1, "nwrc"[e.type]) + "." + f + ": " + fmt + (o.is_pbf() ? (o.dense && e.type == mdl::NODE ? " dense" : "") : "") + (o.low && e.type == mdl::WAY ? " locations_on_ways" : ""),
                          detail + " | object " + std::to_string(i) + " " + mdl::brief(D[i]) + " | " + opt_string(o));
            break;
        }
    }
    vh::count("objects_compared", D.size());
}

mdl::GenOpts genopts_for(const Opt& o) {
    mdl::GenOpts go;
    go.charset = o.is_xml() ? mdl::Charset::xml_safe : mdl::Charset::any_utf8;
    go.allow_changesets = (o.fmt == OSM || o.fmt == OSH || o.fmt == OPL);
    go.allow_discussions = (o.fmt == OSM || o.fmt == OSH);
    go.history = o.history() || o.fmt == OPL;
    // the XML writer prints node locations with lat/lon only when both are
    // defined; every int32 pair is in the domain
    return go;
}

uint64_t hash_case(const Opt& o, const std::vector<mdl::Obj>& D) {
    uint64_t h = vh::hash_str(opt_string(o));
    for (const auto& obj : D) h = mdl::hash(obj, h);
    return h;
}

void case_random(uint64_t idx, vh::Rng& rng) {
    Opt o = gen_opt(rng);
    if (idx < 3) { o.fmt = static_cast<int>(idx); o.meta = 31; }
    mdl::GenOpts go = genopts_for(o);
    // changeset id 2^32-1 is a recorded finding for XML (reader rejects the whole file):
    // keep it in the domain but rare, so that the other XML cases are not masked by it
    if (o.is_xml()) go.changeset_u32_max = rng.chance(1, 25);
    size_t n;
    switch (rng.below(8)) {
        case 0: n = 0; break;
        case 1: n = 1; break;
        case 2: n = vh::thorough() ? 300 + rng.below(3000) : 100 + rng.below(300); break;
        default: n = 2 + rng.below(30); break;
    }
    std::vector<mdl::Obj> D = mdl::gen_dataset(rng, go, n);
    if (idx < 3 && o.is_xml() && (o.meta & 4U)) {
        // fixed witness of the recorded XML finding, so that it is reported on every run
        mdl::Obj w; w.type = mdl::NODE; w.id = 1; w.version = 1; w.changeset = 0xffffffffU; w.x = 1; w.y = 1;
        D.insert(D.begin(), w);
    }
    const mdl::Header H = mdl::gen_header(rng, go.charset);
    vh::set_case_desc("random %s n=%zu", opt_string(o).c_str(), D.size());
    check_case(o, H, D, vh::fmt("random dataset of %zu objects", D.size()));
    vh::evaluated();
    vh::distinct(hash_case(o, D));
    if (idx % 97 == 0) vh::sample_str(vh::fmt("%s; %zu objects, first: %s", opt_string(o).c_str(), D.size(), D.empty() ? "-" : mdl::brief(D[0]).c_str()));
}

// boundary packs. kind: 0..2 = 7999/8000/8001 nodes, 3..5 the same with ways,
// 6 = tag-heavy dense nodes, 7 = string-table-heavy block (> 32 MiB of unique
// strings in < 8000 objects), 8 = 8001 relations with long roles
void case_special(uint64_t idx, vh::Rng& rng) {
    const unsigned kind = static_cast<unsigned>(idx % 10);
    Opt o;
    o.fmt = rng.coin() ? PBF : OSHPBF;
    o.dense = (idx / 9) % 2 == 0;
    o.pbfcomp = static_cast<int>((idx / 18) % 3);
    o.meta = rng.coin() ? 31 : static_cast<unsigned>(rng.below(32));
    o.pool = rng.pick(std::vector<int>{1, 2, 4});
    o.via_memory = rng.coin();
    o.low = kind >= 3 && kind <= 5 && rng.coin();
    mdl::GenOpts go = genopts_for(o);
    std::vector<mdl::Obj> D;
    std::string what;
    auto small_obj = [&](int type) {
        mdl::Obj x = mdl::gen_object(rng, go, type);
        if (x.user.size() > 20) x.user.resize(0);
        x.tags.resize(std::min<size_t>(x.tags.size(), 1));
        for (auto& t : x.tags) { if (t.k.size() > 8) t.k = "k"; if (t.v.size() > 8) t.v = "v"; }
        for (auto& m : x.members) if (m.role.size() > 8) m.role = "r";
        return x;
    };
    if (kind <= 2) {
        const size_t n = 7999 + kind;
        for (size_t i = 0; i < n + 3; ++i) D.push_back(small_obj(mdl::NODE));
        D.resize(n);
        // followed by another block
        for (int i = 0; i < 5; ++i) D.push_back(small_obj(mdl::NODE));
        what = vh::fmt("%zu+5 small nodes", n);
    } else if (kind <= 5) {
        const size_t n = 7999 + (kind - 3);
        D.push_back(small_obj(mdl::NODE));
        for (size_t i = 0; i < n; ++i) D.push_back(small_obj(mdl::WAY));
        for (int i = 0; i < 3; ++i) D.push_back(small_obj(mdl::RELATION));
        what = vh::fmt("1 node + %zu small ways + 3 relations", n);
    } else if (kind == 6) {
        go.max_tags = 40;
        for (int i = 0; i < 3000; ++i) { mdl::Obj x = mdl::gen_object(rng, go, mdl::NODE); D.push_back(x); }
        what = "3000 tag-heavy nodes";
    } else if (kind == 7) {
        // unique ~1 KiB tag values: 7000 ways x 5 tags x 1000 bytes = 35 MB of strings
        const size_t nways = vh::thorough() ? 7900 : 7000;
        for (size_t i = 0; i < nways; ++i) {
            mdl::Obj x;
            x.type = mdl::WAY; x.id = static_cast<int64_t>(i) + 1; x.version = 1; x.timestamp = 1; x.changeset = 1; x.uid = 1; x.user = "u";
            for (int t = 0; t < 5; ++t) {
                std::string v = vh::fmt("%zu-%d-", i, t);
                v.resize(1000, static_cast<char>('a' + (i + static_cast<size_t>(t)) % 26));
                x.tags.push_back(mdl::Tag{vh::fmt("k%d", t), v});
            }
            D.push_back(x);
        }
        what = vh::fmt("%zu ways with 5 unique 1000-byte tag values each (string table > 32 MiB)", nways);
    } else if (kind == 9) {
        // many blocks encoded at the same time by several pool threads (text formats encode in the pool):
        // 40 buffers of 1000 small nodes with distinct timestamps, ids and coordinates
        o.fmt = static_cast<int>(rng.pick(std::vector<int>{OSM, OPL, OSH, PBF}));
        o.low = false;
        go = genopts_for(o);
        for (int i = 0; i < 40000; ++i) {
            mdl::Obj x; x.type = mdl::NODE; x.id = i + 1; x.version = 1 + static_cast<uint32_t>(i % 7); x.visible = true;
            x.timestamp = 1 + static_cast<uint32_t>(rng.below(0xfffffffeULL)); x.changeset = 1 + static_cast<uint32_t>(i); x.uid = 1 + static_cast<uint32_t>(i % 1000);
            x.user = "u" + std::to_string(i % 50); x.x = static_cast<int32_t>(rng.range(-1800000000, 1800000000)); x.y = static_cast<int32_t>(rng.range(-900000000, 900000000));
            D.push_back(x);
        }
        what = "40 buffers of 1000 nodes with distinct timestamps encoded concurrently";
    } else {
        for (int i = 0; i < 8001; ++i) {
            mdl::Obj x = small_obj(mdl::RELATION);
            x.members.clear();
            for (int m = 0; m < 3; ++m) x.members.push_back(mdl::Member{1 + m, mdl::gen_id(rng), std::string(static_cast<size_t>(rng.below(1025)), 'r')});
            D.push_back(x);
        }
        what = "8001 relations with long roles";
    }
    const mdl::Header H = mdl::gen_header(rng, go.charset);
    vh::set_case_desc("special kind=%u %s", kind, opt_string(o).c_str());
    check_case(o, H, D, what);
    vh::evaluated();
    vh::count("boundary_packs");
    vh::distinct(hash_case(o, D));
    vh::sample_str(what + "; " + opt_string(o));
}

} // namespace

int main(int argc, char** argv) {
    vh::parse_args(argc, argv);
    g_dir = iou::scratch_dir("c01");
    vh::info("projection_rules: metadata fields not selected by add_metadata come back as 0/empty; 'visible' is carried by osc, osh, osh.pbf and by OPL when any metadata is written, otherwise objects come back visible; way-node locations only with locations_on_ways; changesets: XML and OPL, discussions: XML only; header: XML all boxes + generator, PBF joined box + generator, OPL nothing");
    vh::info("domain: ids (INT64_MIN, INT64_MAX], version/uid < 2^31, any uint32 timestamp/changeset, locations fully undefined or any int32 pair (single coordinates never equal the undefined sentinel), invisible nodes have no location, strings valid UTF-8 without NUL <= 1024 bytes (XML: also no C0 controls except TAB/LF/CR, no U+FFFE/U+FFFF), anonymous changesets have an empty user");
    const std::string mode = vh::arg("mode", "random");
    int rc;
    if (mode == "special") rc = vh::run_cases(argc, argv, 60, case_special);
    else rc = vh::run_cases(argc, argv, 600, case_random);
    ::unlink((g_dir + "/f").c_str());
    ::rmdir(g_dir.c_str());
    return rc;
}
