// C11 - relation managers complete each relation exactly once with all its
// members.
//
// Every case is one *history*: a data "file" (sorted nodes, ways, relations,
// built in memory with the real builders), fed in two passes to a relations
// manager exactly as the documentation of relations_manager.hpp describes
// (pass 1: relations -> manager.relation(); prepare_for_lookup(); pass 2:
// everything -> manager.handler()). An online monitor follows the same history
// in a set-based model that knows nothing about the library's data structures:
//
//   relation -> list of members, each "wanted" or not by the test manager's own
//   seeded interest predicates; object id -> number of wanted references by
//   relations that are not completed yet ("need"); arrival position of every
//   object in the sorted stream.
//
// From it the monitor predicts
//   * the stream position at which each relation completes (arrival of its last
//     wanted member) - complete_relation() must be called exactly once, while
//     that object is being processed, and never for a relation with a missing
//     wanted member or one rejected by new_relation();
//   * inside complete_relation(): every wanted member is retrievable through
//     get_member_node/way/relation() and get_member_object() and is
//     byte-identical (memcmp over byte_size()) to the input object; the relation
//     handed over is the input relation (unwanted members have ref 0, as
//     documented);
//   * at any probe point (inside complete_relation, in after_*(), after the
//     run): an object is available iff it arrived and a not-yet-completed
//     relation still wants it; ids never wanted / not arrived / released (all
//     relations needing them completed) look up as nullptr;
//   * *_not_in_any_relation() exactly once for each object (of an enabled type)
//     no relation wants, never for others;
//   * for_each_incomplete_relation(): all relations with a missing wanted member,
//     no completed and no rejected relation;
//   * output objects written by complete_relation() into manager.buffer() reach
//     the callback / read() exactly once, in order, and the buffer does not stay
//     beyond max size when a callback is set.
//
// modes:  generic  RelationsManager<TestRM, N, W, R, CheckOrder> (16 instantiations)
//         mp       MultipolygonManager<SpyAssembler> (spy wraps the real Assembler)
//         gc       generic with large histories so that ItemStash::should_gc() fires
//         cbuf     CallbackBuffer with tiny/default thresholds driven like a manager does
//
// Not judged (left open by the property): relations of interest without any
// wanted member (nothing can "arrive last"), objects of a type the manager was
// instantiated without, areas of closed ways that are untagged / area=no, the
// order of several completions triggered by the same object.

#include "vh.hpp"
#include "vh_hooks.hpp"

#include <osmium/area/assembler.hpp>
#include <osmium/area/multipolygon_manager.hpp>
#include <osmium/builder/osm_object_builder.hpp>
#include <osmium/handler.hpp>
#include <osmium/memory/buffer.hpp>
#include <osmium/memory/callback_buffer.hpp>
#include <osmium/osm/area.hpp>
#include <osmium/relations/relations_manager.hpp>
#include <osmium/tags/tags_filter.hpp>
#include <osmium/visitor.hpp>

#include <algorithm>
#include <limits>
#include <memory>
#include <string>
#include <unordered_map>
#include <utility>
#include <vector>

namespace {

using vh::Rng;
constexpr size_t NPOS = ~size_t{0};
constexpr size_t MAX_OUT = 800UL * 1024UL;   // documented default max size of the output CallbackBuffer

const char* const TN[3] = {"node", "way", "relation"};
const osmium::item_type IT[3] = {osmium::item_type::node, osmium::item_type::way, osmium::item_type::relation};

int tindex(osmium::item_type t) {
    switch (t) {
        case osmium::item_type::node: return 0;
        case osmium::item_type::way: return 1;
        case osmium::item_type::relation: return 2;
        default: return -1;
    }
}

// cheap per-case counters (flushed into vh::count at the end of every case)
std::unordered_map<const char*, uint64_t>& lcs() { static std::unordered_map<const char*, uint64_t> m; return m; }
inline void lc(const char* name, uint64_t n = 1) { lcs()[name] += n; }
void flush_lc() {
    for (const auto& kv : lcs()) if (kv.second) vh::count(kv.first, kv.second);
    lcs().clear();
}

// ------------------------------------------------------------------ keys

const char* const K_RELEASED_NONNULL = "get_member_*(): lookup of a released member (all relations needing it are completed) returns a non-null pointer instead of nullptr";
const char* const K_UNKNOWN_NONNULL = "get_member_*(): lookup of an id no relation of interest wants returns a non-null pointer";
const char* const K_NOTARRIVED_NONNULL = "get_member_*(): lookup of a wanted member that has not arrived yet returns a non-null pointer";
const char* const K_NEEDED_NULL = "get_member_*(): member still needed by a not yet completed relation is not available (nullptr)";
const char* const K_NEEDED_BOGUS = "get_member_*(): misaligned (bogus) pointer returned for a member still needed by a not yet completed relation";
const char* const K_NEEDED_DIFF = "get_member_*(): member still needed by a not yet completed relation differs from the input object";
const char* const K_CB_MEMBER_NULL = "complete_relation(): wanted member not retrievable (nullptr)";
const char* const K_CB_MEMBER_BOGUS = "complete_relation(): misaligned (bogus) pointer returned for a wanted member";
const char* const K_CB_MEMBER_DIFF = "complete_relation(): wanted member differs from the input object";
const char* const K_CB_MEMBER_OBJ = "complete_relation(): get_member_object(member) disagrees with get_member_<type>(ref)";
const char* const K_CB_UNWANTED_OBJ = "complete_relation(): get_member_object() of an unwanted member (ref 0) is not nullptr";
const char* const K_CB_REL_DIFF = "complete_relation(): relation handed over differs from the input relation (other than ref 0 for unwanted members)";
const char* const K_CB_TWICE = "complete_relation() called more than once for the same relation";
const char* const K_CB_EARLY = "complete_relation() called before the last wanted member arrived";
const char* const K_CB_LATE = "complete_relation() called later than the arrival of the last wanted member";
const char* const K_CB_MISSING = "complete_relation() called for a relation with a missing wanted member";
const char* const K_CB_REJECTED = "complete_relation() called for a relation rejected by new_relation()";
const char* const K_CB_UNKNOWN = "complete_relation() called with a relation that is not in the input";
const char* const K_CB_OUTSIDE = "complete_relation() called outside the processing of a member object (not between before_*() and after_*())";
const char* const K_CB_NEVER = "relation with all wanted members in the input was never completed";
const char* const K_NIA_MISSING = "*_not_in_any_relation() not called for an object no relation wants";
const char* const K_NIA_WRONG = "*_not_in_any_relation() called for an object that a relation of interest wants";
const char* const K_NIA_TWICE = "*_not_in_any_relation() called more than once for the same object";
const char* const K_NIA_OTHER = "*_not_in_any_relation()/before_*()/after_*() called with an object other than the one being processed";
const char* const K_BA_COUNT = "before_*()/after_*() not called exactly once per object of an enabled type";
const char* const K_INC_MISSING = "for_each_incomplete_relation() does not list a relation with a missing wanted member";
const char* const K_INC_COMPLETED = "for_each_incomplete_relation() lists a completed relation";
const char* const K_INC_REJECTED = "for_each_incomplete_relation() lists a relation rejected by new_relation() or unknown";
const char* const K_INC_TWICE = "for_each_incomplete_relation() lists a relation twice";
const char* const K_INC_DIFF = "for_each_incomplete_relation(): relation differs from the input relation (other than ref 0 for unwanted members)";
const char* const K_ORDER = "sorted member stream rejected by the manager's order check";
const char* const K_OUT_SEQ = "output objects written in complete_relation() do not arrive exactly once and in order at the callback/read()";
const char* const K_OUT_NOFLUSH = "output buffer stays beyond its max size after an object was processed although a callback is set";
const char* const K_OUT_EMPTYCB = "output callback called with an empty or invalid buffer";
const char* const K_MP_REL_AREA = "MultipolygonManager: not exactly one area per completed multipolygon relation";
const char* const K_MP_WAY_AREA = "MultipolygonManager: not exactly one area per tagged closed way";
const char* const K_MP_OPEN_AREA = "MultipolygonManager: area created from an open or too short way";
const char* const K_MP_SPURIOUS = "MultipolygonManager: area created for an object that is no relation of interest / no way in the input";
const char* const K_MP_RINGS = "MultipolygonManager: area of a relation of disjoint closed ways does not have one outer ring per member way";
const char* const K_MP_WAYS_VEC = "MultipolygonManager: assembler called with a member list that is not the list of the relation's way members";
const char* const K_CBUF = "CallbackBuffer: ";

// ------------------------------------------------------------------ model

struct UObj {                 // one id of one type in the universe of a case
    int64_t id = 0;
    bool present = false;     // is in the data file
    int shape = 0;            // mp mode: kind of way geometry/tags
    size_t pos = NPOS;        // position in the sorted stream
    const osmium::OSMObject* ptr = nullptr;   // the input object
    int wanted_refs = 0;      // wanted references from relations of interest (with multiplicity)
    // dynamic
    bool arrived = false;
    int need = 0;             // wanted references from relations not yet completed-and-released
    int nia_calls = 0, before_calls = 0, after_calls = 0;
    int way_areas = 0;        // mp mode
};

struct MMember {
    int type = 0;
    size_t uidx = 0;
    int64_t ref = 0;
    std::string role;
    bool wanted = false;
};

struct MRel {
    size_t uidx = 0;          // in u[2]
    int64_t id = 0;
    std::vector<MMember> members;
    std::vector<std::pair<std::string, std::string>> tags;
    bool interested = false;
    int nwanted = 0;
    bool completable = false;
    size_t expect_pos = NPOS;
    int completions = 0;
    int listed = 0;
    int rel_areas = 0;        // mp mode
    bool distinct_good_ways = false;   // mp mode: all wanted ways distinct, closed squares
};

struct Pred {
    uint64_t salt = 0;
    int rel_mode = 0;
    unsigned prel = 100;
    int mem_mode = 0;
    unsigned pmem = 100;
    bool relation(int64_t id, bool type_mp) const {
        switch (rel_mode) {
            case 0: return true;
            case 1: return vh::mix(salt, static_cast<uint64_t>(id)) % 100 < prel;
            default: return type_mp;
        }
    }
    bool member(int64_t relid, size_t n, int type, int64_t ref, bool role_empty) const {
        switch (mem_mode) {
            case 0: return true;
            case 1: return vh::mix(vh::mix(salt ^ 0x55U, static_cast<uint64_t>(relid)), n) % 100 < pmem;
            case 2: return type == 1;
            case 3: return !role_empty;
            default: return vh::mix(vh::mix(salt ^ 0xaaU, static_cast<uint64_t>(ref)), static_cast<uint64_t>(type)) % 100 < pmem;
        }
    }
};

bool id_less(int64_t a, int64_t b) {    // documented file order: negative ids first, then positive, both by absolute value
    const bool na = a < 0, nb = b < 0;
    if (na != nb) return na;
    const auto ua = na ? static_cast<uint64_t>(-(a + 1)) + 1 : static_cast<uint64_t>(a);
    const auto ub = nb ? static_cast<uint64_t>(-(b + 1)) + 1 : static_cast<uint64_t>(b);
    return ua < ub;
}

struct Ctx {
    Rng& rng;
    std::string mode;
    bool en[3] = {true, true, true};
    bool co = true;
    bool mp = false;
    bool mp_keyed_filter = false;
    bool gc_mode = false;
    Pred pred;
    std::vector<UObj> u[3];
    std::unordered_map<int64_t, size_t> idmap[3];
    std::vector<MRel> rels;
    std::unordered_map<int64_t, size_t> relmap;
    osmium::memory::Buffer in{64UL * 1024UL, osmium::memory::Buffer::auto_grow::yes};
    std::vector<std::pair<int, size_t>> stream;
    std::vector<size_t> in_off;
    uint64_t h = 0xcbf29ce484222325ULL;

    // run state
    osmium::relations::RelationsManagerBase* mb = nullptr;
    size_t next_pos = 0;
    size_t cur = NPOS;
    int cur_state = 0;               // 0 nothing yet, 1 before_*() seen, 2 after_*() seen
    size_t pending_release = NPOS;   // relation completed; its references are released when the callback has returned
    bool callback_set = false;
    int out_mode = 0;
    size_t probes = 4;
    std::vector<std::string> out_expected, out_got;
    std::vector<uint64_t> pad_store;
    std::string pad_bytes;
    unsigned pad_reps = 0;
    uint64_t callbacks = 0, callbacks_midstream = 0;
    bool stream_done = false;
    uint64_t gc_at_start = 0;
    uint64_t n_completed = 0;
    uint64_t removals = 0;           // model: objects released from the manager (relations + members)

    explicit Ctx(Rng& r) : rng(r) {}

    void hash(uint64_t v) { h = vh::hash_u64(v, h); }
    void hash(const std::string& s) { h = vh::hash_str(s, h); hash(s.size()); }

    std::string where() const {
        if (stream_done) return "after the run";
        if (cur == NPOS) return "before the first object";
        return vh::fmt("while processing %s %" PRId64 " (stream position %zu)", TN[stream[cur].first], u[stream[cur].first][stream[cur].second].id, cur);
    }

    std::string rel_desc(const MRel& r) const {
        std::string s = vh::fmt("relation %" PRId64 " [", r.id);
        size_t n = 0;
        for (const auto& m : r.members) {
            if (n++) s += ' ';
            if (n > 24) { s += "..."; break; }
            const UObj& o = u[m.type][m.uidx];
            s += vh::fmt("%c%" PRId64 "%s%s", TN[m.type][0], m.ref, m.wanted ? "" : "(unwanted)", o.present ? "" : "(absent)");
            if (o.present) s += vh::fmt("@%zu", o.pos);
        }
        s += vh::fmt("] expected completion position %s", r.completable ? std::to_string(r.expect_pos).c_str() : "never");
        return s;
    }

    size_t add_uobj(int t, int64_t id, bool present) {
        auto it = idmap[t].find(id);
        if (it != idmap[t].end()) return it->second;
        UObj o; o.id = id; o.present = present;
        u[t].push_back(o);
        idmap[t][id] = u[t].size() - 1;
        return u[t].size() - 1;
    }

    // ---------------------------------------------------------------- derive the model's predictions

    void derive() {
        for (int t = 0; t < 3; ++t) {
            std::vector<size_t> order;
            for (size_t i = 0; i < u[t].size(); ++i) if (u[t][i].present) order.push_back(i);
            std::sort(order.begin(), order.end(), [&](size_t a, size_t b) { return id_less(u[t][a].id, u[t][b].id); });
            for (size_t i : order) { u[t][i].pos = stream.size(); stream.emplace_back(t, i); }
        }
        for (auto& r : rels) {
            r.nwanted = 0;
            r.completable = r.interested;
            r.expect_pos = 0;
            size_t n = 0;
            for (auto& m : r.members) {
                m.wanted = r.interested && en[m.type] && member_wanted(r, m, n);
                ++n;
                if (!m.wanted) continue;
                ++r.nwanted;
                UObj& o = u[m.type][m.uidx];
                ++o.wanted_refs;
                if (!o.present) r.completable = false;
                else r.expect_pos = std::max(r.expect_pos, o.pos);
            }
            if (r.nwanted == 0) { r.completable = false; }
            if (!r.completable) r.expect_pos = NPOS;
        }
        for (int t = 0; t < 3; ++t) for (auto& o : u[t]) o.need = o.wanted_refs;
    }

    bool rel_type_mp(const MRel& r) const {
        for (const auto& t : r.tags) if (t.first == "type") return t.second == "multipolygon";
        return false;
    }

    bool member_wanted(const MRel& r, const MMember& m, size_t n) const {
        if (mp) return m.type == 1;
        return pred.member(r.id, n, m.type, m.ref, m.role.empty());
    }

    // ---------------------------------------------------------------- monitor

    enum Avail { UNKNOWN, NOT_ARRIVED, RELEASED, AVAILABLE };

    Avail state_of(int t, const UObj& o) const {
        if (!en[t] || o.wanted_refs == 0) return UNKNOWN;
        if (!o.arrived) return NOT_ARRIVED;
        return o.need > 0 ? AVAILABLE : RELEASED;
    }

    const osmium::OSMObject* lookup(int t, int64_t id) const {
        switch (t) {
            case 0: return mb->get_member_node(id);
            case 1: return mb->get_member_way(id);
            default: return mb->get_member_relation(id);
        }
    }

    static bool aligned(const void* p) { return reinterpret_cast<uintptr_t>(p) % 8 == 0; }

    static bool same_bytes(const osmium::OSMObject* got, const osmium::OSMObject* input) {
        return got->byte_size() == input->byte_size() && std::memcmp(got, input, input->byte_size()) == 0;
    }

    void finalize_pending() {
        if (pending_release == NPOS) return;
        MRel& r = rels[pending_release];
        pending_release = NPOS;
        ++removals;   // the relation itself
        for (const auto& m : r.members) if (m.wanted && --u[m.type][m.uidx].need == 0) ++removals;   // members nobody needs any more
    }

    // probe one id against the model (never the object currently being added before its add is over)
    void probe(int t, int64_t id, const char* at) {
        if (mp && t != 1) return;
        const osmium::OSMObject* p = lookup(t, id);
        auto it = idmap[t].find(id);
        const Avail a = it == idmap[t].end() ? UNKNOWN : state_of(t, u[t][it->second]);
        auto d = [&]() { return vh::fmt("%s: get_member_%s(%" PRId64 ") = %s; %s", at, TN[t], id, p ? (aligned(p) ? "non-null" : "non-null, misaligned") : "nullptr", where().c_str()); };
        switch (a) {
            case UNKNOWN:
                lc("lookups_unknown_id");
                if (p) vh::violation(K_UNKNOWN_NONNULL, d());
                break;
            case NOT_ARRIVED:
                lc("lookups_not_yet_arrived");
                if (p) vh::violation(K_NOTARRIVED_NONNULL, d());
                break;
            case RELEASED:
                lc("lookups_released");
                if (vhk::hs().gc_events > gc_at_start) lc("lookups_released_after_gc");
                if (p) vh::violation(K_RELEASED_NONNULL, d() + vh::fmt(" (wanted by %d reference(s), all of completed relations)", u[t][it->second].wanted_refs));
                break;
            case AVAILABLE: {
                lc("lookups_still_needed");
                const UObj& o = u[t][it->second];
                if (!p) vh::violation(K_NEEDED_NULL, d() + vh::fmt(" (still needed by %d reference(s))", o.need));
                else if (!aligned(p)) vh::violation(K_NEEDED_BOGUS, d() + vh::fmt(" (still needed by %d reference(s))", o.need));
                else if (!same_bytes(p, o.ptr)) vh::violation(K_NEEDED_DIFF, d());
                else if (vhk::hs().gc_events > gc_at_start) lc("members_verified_after_gc");
                break;
            }
        }
    }

    int64_t unknown_id(int t) {
        for (;;) {
            int64_t id = rng.range(1, 3000000) * (rng.chance(1, 3) ? -1 : 1);
            if (!idmap[t].count(id)) return id;
        }
    }

    void random_probes(const char* at) {
        for (int t = 0; t < 3; ++t) {
            if (!u[t].empty()) {
                for (size_t k = 0; k < probes; ++k) {
                    const UObj& o = u[t][rng.below(u[t].size())];
                    if (cur != NPOS && !stream_done && stream[cur].first == t && u[t][stream[cur].second].id == o.id && cur_state < 2) continue;
                    probe(t, o.id, at);
                }
            }
            probe(t, unknown_id(t), at);
        }
    }

    void begin_object(const osmium::OSMObject& obj) {
        end_object();
        cur = next_pos++;
        cur_state = 0;
        if (cur >= stream.size() || u[stream[cur].first][stream[cur].second].ptr != &obj) {
            vh::violation("harness: stream position tracking lost", where());
            return;
        }
        u[stream[cur].first][stream[cur].second].arrived = true;
    }

    void end_object() {
        finalize_pending();
        if (cur == NPOS) return;
        if (callback_set && mb->buffer().committed() > MAX_OUT) {
            vh::violation(K_OUT_NOFLUSH, vh::fmt("buffer().committed()=%zu > %zu %s", mb->buffer().committed(), MAX_OUT, where().c_str()));
        }
    }

    UObj* current(const osmium::OSMObject& obj, const char* what) {
        if (cur == NPOS || cur >= stream.size()) { vh::violation(K_NIA_OTHER, std::string(what) + " before any object"); return nullptr; }
        UObj& o = u[stream[cur].first][stream[cur].second];
        if (o.ptr != &obj) {
            vh::violation(K_NIA_OTHER, vh::fmt("%s called with %s %" PRId64 " %s", what, osmium::item_type_to_name(obj.type()), obj.id(), where().c_str()));
            return nullptr;
        }
        return &o;
    }

    void on_before(const osmium::OSMObject& obj) {
        UObj* o = current(obj, "before_*()");
        if (!o) return;
        ++o->before_calls;
        if (cur_state != 0) vh::violation(K_BA_COUNT, "before_*() not first; " + where());
        cur_state = 1;
    }

    void on_after(const osmium::OSMObject& obj) {
        finalize_pending();
        UObj* o = current(obj, "after_*()");
        if (!o) return;
        ++o->after_calls;
        if (cur_state != 1) vh::violation(K_BA_COUNT, "after_*() without before_*(); " + where());
        cur_state = 2;
        random_probes("in after_*()");
        probe(stream[cur].first, o->id, "in after_*() (the object itself)");
    }

    void on_nia(const osmium::OSMObject& obj) {
        UObj* o = current(obj, "*_not_in_any_relation()");
        if (!o) return;
        ++o->nia_calls;
        lc("not_in_any_relation_calls");
        auto d = [&]() { return vh::fmt("%s %" PRId64 " (wanted by %d reference(s))", TN[stream[cur].first], o->id, o->wanted_refs); };
        if (o->wanted_refs > 0) vh::violation(K_NIA_WRONG, d());
        if (o->nia_calls > 1) vh::violation(K_NIA_TWICE, d());
        if (cur_state != 1) vh::violation(K_CB_OUTSIDE, "*_not_in_any_relation(): " + d());
    }

    // expected bytes of a relation as stored by the manager: the input relation with ref 0 in unwanted members
    bool rel_matches(const MRel& r, const osmium::Relation& got) const {
        const osmium::OSMObject* in_obj = u[2][r.uidx].ptr;
        const size_t size = in_obj->byte_size();
        if (got.byte_size() != size) return false;
        std::vector<uint64_t> tmp((size + 7) / 8);
        std::memcpy(tmp.data(), in_obj, size);
        auto* cp = reinterpret_cast<osmium::Relation*>(tmp.data());
        size_t n = 0;
        for (auto& m : cp->members()) {
            if (n < r.members.size() && !r.members[n].wanted) m.set_ref(0);
            ++n;
        }
        return std::memcmp(&got, cp, size) == 0;
    }

    // returns the model relation if the completion is to be judged, nullptr otherwise
    MRel* on_complete_common(const osmium::Relation& rel, const char* what) {
        finalize_pending();
        lc("complete_relation_calls");
        auto it = relmap.find(rel.id());
        if (it == relmap.end()) {
            vh::violation(K_CB_UNKNOWN, vh::fmt("%s: relation %" PRId64 " %s", what, rel.id(), where().c_str()));
            return nullptr;
        }
        MRel& r = rels[it->second];
        auto d = [&]() { return std::string(what) + ": " + rel_desc(r) + "; called " + where(); };
        if (!r.interested) { vh::violation(K_CB_REJECTED, d()); return nullptr; }
        if (r.nwanted == 0) { lc("not_judged_completion_of_relation_without_wanted_members"); return nullptr; }
        ++r.completions;
        if (r.completions > 1) { vh::violation(K_CB_TWICE, d()); return nullptr; }
        if (!r.completable) { vh::violation(K_CB_MISSING, d()); return nullptr; }
        // (the MultipolygonManager has no observable before_way()/after_way() for us: only the position is known there)
        if (cur == NPOS || stream_done || (!mp && cur_state != 1)) { vh::violation(K_CB_OUTSIDE, d()); return nullptr; }
        if (cur < r.expect_pos) { vh::violation(K_CB_EARLY, d()); return nullptr; }
        if (cur > r.expect_pos) { vh::violation(K_CB_LATE, d()); pending_release = it->second; return nullptr; }
        lc("completions_at_predicted_position");
        ++n_completed;
        if (vhk::hs().gc_events > gc_at_start) lc("completions_after_gc");
        pending_release = it->second;
        return &r;
    }

    void write_output(const osmium::Relation& rel, const MRel& r) {
        if (out_mode == 0) return;
        auto& ob = mb->buffer();
        auto put = [&](const osmium::memory::Item& item) {
            ob.add_item(item);
            ob.commit();
            out_expected.emplace_back(reinterpret_cast<const char*>(&item), item.byte_size());
        };
        put(rel);
        if (out_mode >= 2) {
            for (const auto& m : r.members) {
                if (!m.wanted) continue;
                const osmium::OSMObject* p = lookup(m.type, m.ref);
                if (p && aligned(p)) put(*p);
            }
        }
        if (out_mode == 3) {
            for (unsigned i = 0; i < pad_reps; ++i) {
                ob.add_item(*reinterpret_cast<const osmium::memory::Item*>(pad_store.data()));
                ob.commit();
                out_expected.push_back(pad_bytes);
            }
        }
    }

    void on_complete(const osmium::Relation& rel) {
        MRel* r = on_complete_common(rel, "complete_relation()");
        if (!r) return;
        if (!rel_matches(*r, rel)) vh::violation(K_CB_REL_DIFF, rel_desc(*r));
        size_t n = 0;
        auto mit = rel.members().begin();
        for (const auto& m : r->members) {
            if (mit == rel.members().end()) break;
            const osmium::RelationMember& lm = *mit;
            ++mit;
            const osmium::OSMObject* po = mb->get_member_object(lm);
            if (!m.wanted) {
                lc("unwanted_members_checked");
                if (lm.ref() == 0 && po) vh::violation(K_CB_UNWANTED_OBJ, rel_desc(*r) + vh::fmt(" member #%zu", n));
                ++n;
                continue;
            }
            const UObj& o = u[m.type][m.uidx];
            const osmium::OSMObject* p = lookup(m.type, m.ref);
            auto d = [&]() { return rel_desc(*r) + vh::fmt(" member #%zu %s %" PRId64 " (needed by %d open reference(s))", n, TN[m.type], m.ref, o.need); };
            if (!p) vh::violation(K_CB_MEMBER_NULL, d());
            else if (!aligned(p)) vh::violation(K_CB_MEMBER_BOGUS, d());
            else if (!same_bytes(p, o.ptr)) vh::violation(K_CB_MEMBER_DIFF, d());
            else {
                lc("members_verified_byte_identical");
                if (o.wanted_refs > 1) lc("shared_or_duplicate_members_verified");
                if (vhk::hs().gc_events > gc_at_start) lc("members_verified_after_gc");
            }
            if (po != p) vh::violation(K_CB_MEMBER_OBJ, d());
            ++n;
        }
        random_probes("inside complete_relation()");
        write_output(rel, *r);
    }

    void end_stream() {
        end_object();
        stream_done = true;
        for (const auto& r : rels) {
            if (r.completable) {
                lc("relations_completable");
                if (r.completions == 0) vh::violation(K_CB_NEVER, rel_desc(r));
            } else if (r.interested && r.nwanted > 0) {
                lc("relations_with_missing_member");
            } else if (r.interested) {
                lc("relations_without_wanted_member");
            } else {
                lc("relations_rejected_by_new_relation");
            }
        }
        if (mp) return;
        for (int t = 0; t < 3; ++t) {
            for (const auto& o : u[t]) {
                if (!o.present) continue;
                if (!en[t]) {
                    lc("not_judged_objects_of_disabled_type");
                    if (o.before_calls || o.after_calls || o.nia_calls) vh::violation(K_BA_COUNT, vh::fmt("callbacks for %s %" PRId64 " although the manager was instantiated without that type", TN[t], o.id));
                    continue;
                }
                if (o.before_calls != 1 || o.after_calls != 1) vh::violation(K_BA_COUNT, vh::fmt("%s %" PRId64 ": before=%d after=%d", TN[t], o.id, o.before_calls, o.after_calls));
                if (o.wanted_refs == 0) {
                    lc("objects_no_relation_wants");
                    if (o.nia_calls == 0) vh::violation(K_NIA_MISSING, vh::fmt("%s %" PRId64, TN[t], o.id));
                } else {
                    lc("objects_wanted");
                }
            }
        }
    }

    void on_incomplete(const osmium::Relation& rel) {
        lc("incomplete_listed");
        auto it = relmap.find(rel.id());
        if (it == relmap.end()) { vh::violation(K_INC_REJECTED, vh::fmt("relation %" PRId64 " is not in the input", rel.id())); return; }
        MRel& r = rels[it->second];
        if (!r.interested) { vh::violation(K_INC_REJECTED, rel_desc(r)); return; }
        if (++r.listed > 1) { vh::violation(K_INC_TWICE, rel_desc(r)); return; }
        if (r.nwanted == 0) { lc("not_judged_listing_of_relation_without_wanted_members"); return; }
        if (r.completions > 0 && r.completable) { vh::violation(K_INC_COMPLETED, rel_desc(r)); return; }
        if (!rel_matches(r, rel)) vh::violation(K_INC_DIFF, rel_desc(r));
        // members of an incomplete relation: arrived ones must still be there (as in the repo's own unit test)
        for (const auto& m : rel.members()) {
            if (m.ref() != 0) probe(tindex(m.type()), m.ref(), "in for_each_incomplete_relation()");
        }
    }

    void check_incomplete() {
        for (const auto& r : rels) {
            if (r.interested && r.nwanted > 0 && !r.completable) {
                if (r.listed == 0 && r.completions == 0) vh::violation(K_INC_MISSING, rel_desc(r));
                else lc("incomplete_as_predicted");
            }
        }
    }

    void final_lookups() {
        for (int t = 0; t < 3; ++t) {
            for (const auto& o : u[t]) probe(t, o.id, "after the run");
            for (int k = 0; k < 3; ++k) probe(t, unknown_id(t), "after the run");
        }
    }

    void on_callback(osmium::memory::Buffer&& b) {
        ++callbacks;
        if (!b || b.committed() == 0) { vh::violation(K_OUT_EMPTYCB, where()); return; }
        if (b.committed() > MAX_OUT) ++callbacks_midstream;
        collect(b);
    }

    void collect(const osmium::memory::Buffer& b) {
        for (const auto& item : b) out_got.emplace_back(reinterpret_cast<const char*>(&item), item.byte_size());
    }

    void check_outputs() {
        if (out_got == out_expected) {
            lc("output_objects_delivered", out_got.size());
            return;
        }
        size_t i = 0;
        while (i < out_got.size() && i < out_expected.size() && out_got[i] == out_expected[i]) ++i;
        vh::violation(K_OUT_SEQ, vh::fmt("expected %zu output items, got %zu; first difference at item %zu; callback %s, %" PRIu64 " callback calls",
                                         out_expected.size(), out_got.size(), i, callback_set ? "set" : "not set", callbacks));
    }
};

Ctx* g = nullptr;

// ------------------------------------------------------------------ test managers

template <bool N, bool W, bool R, bool CO>
struct TestRM : public osmium::relations::RelationsManager<TestRM<N, W, R, CO>, N, W, R, CO> {
    bool new_relation(const osmium::Relation& r) const {
        const char* t = r.tags().get_value_by_key("type");
        return g->pred.relation(r.id(), t && !std::strcmp(t, "multipolygon"));
    }
    bool new_member(const osmium::Relation& r, const osmium::RelationMember& m, std::size_t n) const {
        return g->pred.member(r.id(), n, tindex(m.type()), m.ref(), m.role()[0] == '\0');
    }
    void complete_relation(const osmium::Relation& r) { g->on_complete(r); }
    void before_node(const osmium::Node& o) { g->on_before(o); }
    void before_way(const osmium::Way& o) { g->on_before(o); }
    void before_relation(const osmium::Relation& o) { g->on_before(o); }
    void after_node(const osmium::Node& o) { g->on_after(o); }
    void after_way(const osmium::Way& o) { g->on_after(o); }
    void after_relation(const osmium::Relation& o) { g->on_after(o); }
    void node_not_in_any_relation(const osmium::Node& o) { g->on_nia(o); }
    void way_not_in_any_relation(const osmium::Way& o) { g->on_nia(o); }
    void relation_not_in_any_relation(const osmium::Relation& o) { g->on_nia(o); }
};

struct PosTracker : public osmium::handler::Handler {
    void node(const osmium::Node& o) { g->begin_object(o); }
    void way(const osmium::Way& o) { g->begin_object(o); }
    void relation(const osmium::Relation& o) { g->begin_object(o); }
};

// Assembler handed to the MultipolygonManager: records what the manager passes
// to it and delegates to the real assembler.
struct SpyConfig {
    osmium::area::AssemblerConfig real;
};

class SpyAssembler {
    osmium::area::Assembler m_real;
public:
    using config_type = SpyConfig;
    explicit SpyAssembler(const config_type& c) : m_real(c.real) {}
    bool operator()(const osmium::Way& way, osmium::memory::Buffer& out) {
        lc("mp_assembler_calls_for_ways");
        return m_real(way, out);
    }
    bool operator()(const osmium::Relation& rel, const std::vector<const osmium::Way*>& ways, osmium::memory::Buffer& out) {
        Ctx& c = *g;
        MRel* r = c.on_complete_common(rel, "assembler(relation, ways)");
        if (r) {
            if (!c.rel_matches(*r, rel)) vh::violation(K_CB_REL_DIFF, c.rel_desc(*r));
            size_t k = 0;
            bool vec_ok = true;
            for (const auto& m : r->members) {
                if (!m.wanted) continue;
                const UObj& o = c.u[1][m.uidx];
                const std::string d = c.rel_desc(*r) + vh::fmt(" way member %" PRId64, m.ref);
                if (k >= ways.size()) { vec_ok = false; break; }
                const osmium::Way* p = ways[k++];
                if (!p) { vh::violation(K_CB_MEMBER_NULL, d); vec_ok = false; }
                else if (!Ctx::aligned(p)) { vh::violation(K_CB_MEMBER_BOGUS, d); vec_ok = false; }
                else if (!Ctx::same_bytes(p, o.ptr)) { vh::violation(K_CB_MEMBER_DIFF, d); vec_ok = false; }
                else {
                    lc("members_verified_byte_identical");
                    if (o.wanted_refs > 1) lc("shared_or_duplicate_members_verified");
                }
            }
            if (k != ways.size()) { vh::violation(K_MP_WAYS_VEC, c.rel_desc(*r) + vh::fmt(": %zu ways passed, %d wanted", ways.size(), r->nwanted)); vec_ok = false; }
            c.random_probes("inside the assembler call");
            if (!vec_ok) return false;   // do not let the real assembler run over bogus pointers
        } else {
            for (const auto* w : ways) if (!w || !Ctx::aligned(w)) return false;
        }
        return m_real(rel, ways, out);
    }
    const osmium::area::area_stats& stats() const noexcept { return m_real.stats(); }
};

// ------------------------------------------------------------------ building the input

std::string rnd_str(Rng& r, size_t maxlen) {
    static const char abc[] = "abcdefghijklmnopqrstuvwxyz_:0123456789";
    const size_t n = r.below(maxlen + 1);
    std::string s;
    for (size_t i = 0; i < n; ++i) s += abc[r.below(sizeof(abc) - 1)];
    return s;
}

template <typename TBuilder>
void set_common(TBuilder& b, Rng& r, int64_t id, bool small) {
    b.set_id(id).set_version(static_cast<osmium::object_version_type>(r.range(1, 1000))).set_changeset(static_cast<osmium::changeset_id_type>(r.below(100000)));
    b.set_uid(static_cast<osmium::user_id_type>(r.below(5000))).set_timestamp(osmium::Timestamp{static_cast<uint32_t>(1000000000U + r.below(500000000))});
    b.set_visible(true);
    b.set_user(small ? (r.coin() ? "" : "u") : rnd_str(r, r.chance(1, 20) ? 200 : 12));
}

template <typename TBuilder>
void add_tags(TBuilder& b, const std::vector<std::pair<std::string, std::string>>& tags) {
    if (tags.empty()) return;
    osmium::builder::TagListBuilder tl{b};
    for (const auto& t : tags) tl.add_tag(t.first, t.second);
}

std::vector<std::pair<std::string, std::string>> rnd_tags(Rng& r, bool small) {
    std::vector<std::pair<std::string, std::string>> tags;
    if (small) { if (r.chance(1, 4)) tags.emplace_back("k", "v"); return tags; }
    const size_t n = r.chance(1, 2) ? 0 : r.below(4);
    for (size_t i = 0; i < n; ++i) tags.emplace_back("k" + std::to_string(i) + rnd_str(r, 6), rnd_str(r, r.chance(1, 30) ? 300 : 16));
    return tags;
}

// grid cell -> square of 4 corners (disjoint from every other cell's square)
osmium::Location corner(size_t cell, int j) {
    const int32_t x0 = static_cast<int32_t>(cell % 2000) * 1000 + 100;
    const int32_t y0 = static_cast<int32_t>(cell / 2000) * 1000 + 100;
    static const int dx[4] = {0, 500, 500, 0};
    static const int dy[4] = {0, 0, 500, 500};
    return osmium::Location{x0 + dx[j & 3], y0 + dy[j & 3]};
}

void build_input(Ctx& c, Rng& r, bool small) {
    c.in_off.resize(c.stream.size());
    for (size_t i = 0; i < c.stream.size(); ++i) {
        const int t = c.stream[i].first;
        const size_t ui = c.stream[i].second;
        const UObj& o = c.u[t][ui];
        if (t == 0) {
            osmium::builder::NodeBuilder b{c.in};
            set_common(b, r, o.id, small);
            b.set_location(osmium::Location{static_cast<int32_t>(r.range(-1800000000, 1800000000)), static_cast<int32_t>(r.range(-900000000, 900000000))});
            add_tags(b, rnd_tags(r, small));
        } else if (t == 1) {
            osmium::builder::WayBuilder b{c.in};
            set_common(b, r, o.id, small);
            if (c.mp) {
                // shapes: 0 closed square + building tag, 1 closed square untagged, 2 closed + area=no, 3 open (4 nodes),
                // 4 closed but only 3 node refs, 5 closed square with a tag that is not "building"
                const size_t cell = ui;
                {
                    osmium::builder::WayNodeListBuilder wl{b};
                    const int64_t nid = static_cast<int64_t>(cell) * 4 + 1;
                    if (o.shape == 3) { for (int j = 0; j < 4; ++j) wl.add_node_ref(nid + j, corner(cell, j)); }
                    else if (o.shape == 4) { wl.add_node_ref(nid, corner(cell, 0)); wl.add_node_ref(nid + 1, corner(cell, 1)); wl.add_node_ref(nid, corner(cell, 0)); }
                    else { for (int j = 0; j < 5; ++j) wl.add_node_ref(nid + (j & 3), corner(cell, j)); }
                }
                std::vector<std::pair<std::string, std::string>> tags;
                if (o.shape == 0 || o.shape == 3 || o.shape == 4) tags.emplace_back("building", "yes");
                if (o.shape == 2) { tags.emplace_back("building", "yes"); tags.emplace_back("area", "no"); }
                if (o.shape == 5) tags.emplace_back("landuse", "forest");
                add_tags(b, tags);
            } else {
                {
                    osmium::builder::WayNodeListBuilder wl{b};
                    const size_t nn = c.gc_mode ? r.range(40, 260) : r.below(7);
                    for (size_t j = 0; j < nn; ++j) wl.add_node_ref(r.range(1, 1000));
                }
                add_tags(b, rnd_tags(r, small));
            }
        } else {
            const MRel& mr = c.rels[c.relmap[o.id]];
            osmium::builder::RelationBuilder b{c.in};
            set_common(b, r, o.id, small);
            if (!mr.members.empty()) {
                osmium::builder::RelationMemberListBuilder ml{b};
                for (const auto& m : mr.members) ml.add_member(IT[m.type], m.ref, m.role.c_str());
            }
            add_tags(b, mr.tags);
        }
        c.in_off[i] = c.in.commit();
    }
    for (size_t i = 0; i < c.stream.size(); ++i) {
        c.u[c.stream[i].first][c.stream[i].second].ptr = &c.in.get<osmium::OSMObject>(c.in_off[i]);
    }
}

int64_t pick_id(Rng& r, int K) {
    static const int64_t big[] = {1LL << 31, (1LL << 31) + 1, 1LL << 32, 4294967295LL, (1LL << 40) + 7, std::numeric_limits<int64_t>::max(), std::numeric_limits<int64_t>::max() - 1};
    const unsigned c = static_cast<unsigned>(r.below(100));
    int64_t v;
    if (c < 82) v = r.range(1, K);
    else if (c < 90) v = r.pick(big);
    else v = r.range(1, 2000000);
    return r.chance(1, 4) ? -v : v;
}

const char* const ROLES[] = {"", "", "outer", "inner", "stop", "r1", "via"};

void gen_members(Ctx& c, Rng& r, MRel& mr, size_t maxm, const unsigned tw[3], bool uniform) {
    const size_t m = r.range(0, static_cast<int64_t>(maxm));
    for (size_t k = 0; k < m; ++k) {
        MMember mm;
        if (!mr.members.empty() && r.chance(1, 8)) {          // duplicate reference inside one relation
            mm = mr.members[r.below(mr.members.size())];
            if (r.coin()) mm.role = r.pick(ROLES);
            mr.members.push_back(mm);
            continue;
        }
        int t = -1;
        for (int tries = 0; tries < 6 && t < 0; ++tries) {
            const unsigned w = static_cast<unsigned>(r.below(tw[0] + tw[1] + tw[2]));
            const int cand = w < tw[0] ? 0 : w < tw[0] + tw[1] ? 1 : 2;
            if (!c.u[cand].empty()) t = cand;
        }
        if (t < 0) break;
        const size_t n = c.u[t].size();
        const size_t idx = uniform ? r.below(n) : std::min(r.below(n), r.below(n));   // skewed: some objects are shared a lot
        mm.type = t; mm.uidx = idx; mm.ref = c.u[t][idx].id;
        mm.role = r.chance(1, 40) ? std::string(200, 'x') : std::string(r.pick(ROLES));
        mr.members.push_back(mm);
    }
}

void finish_model(Ctx& c) {
    for (int t = 0; t < 3; ++t) c.hash(c.en[t]);
    c.hash(c.co); c.hash(c.mp); c.hash(c.pred.rel_mode); c.hash(c.pred.mem_mode); c.hash(c.pred.salt); c.hash(c.pred.prel); c.hash(c.pred.pmem);
    for (int t = 0; t < 3; ++t) for (const auto& o : c.u[t]) { c.hash(static_cast<uint64_t>(o.id)); c.hash(o.present); c.hash(o.shape); }
    for (const auto& mr : c.rels) {
        c.hash(static_cast<uint64_t>(mr.id));
        for (const auto& m : mr.members) { c.hash(m.type); c.hash(static_cast<uint64_t>(m.ref)); c.hash(m.role); }
        for (const auto& t : mr.tags) { c.hash(t.first); c.hash(t.second); }
    }
}

void gen_generic(Ctx& c, Rng& r, uint64_t index) {
    // 8 type-switch combinations with the order check + 3 without it
    static const unsigned COMBOS[12] = {0, 1, 2, 3, 4, 5, 6, 7, 7, 8 | 7, 8 | 1, 8 | 6};
    const unsigned combo = COMBOS[index % 12];
    c.en[0] = combo & 1; c.en[1] = combo & 2; c.en[2] = combo & 4; c.co = !(combo & 8);
    static const int KS[] = {3, 8, 20, 60};
    static const int UM[] = {3, 6, 12, 30, 60};
    static const unsigned PP[] = {100, 100, 100, 95, 80, 50};
    const int K = r.pick(KS);
    const int umax = r.pick(UM);
    for (int t = 0; t < 3; ++t) {
        const size_t n = r.range(t == 2 ? 1 : 0, umax);
        const unsigned pp = r.pick(PP);
        for (size_t tries = 0; c.u[t].size() < n && tries < 10 * n + 10; ++tries) c.add_uobj(t, pick_id(r, K), r.below(100) < pp);
    }
    c.pred.salt = r.next();
    static const int RM[] = {0, 0, 0, 1, 1, 2};
    static const int MMODE[] = {0, 0, 0, 1, 1, 2, 3, 4};
    c.pred.rel_mode = r.pick(RM);
    c.pred.prel = r.coin() ? 90 : 50;
    c.pred.mem_mode = r.pick(MMODE);
    c.pred.pmem = r.coin() ? 90 : 60;
    static const size_t MM[] = {1, 3, 6, 12};
    const size_t maxm = r.pick(MM);
    const unsigned tw[3] = {static_cast<unsigned>(r.range(1, 4)), static_cast<unsigned>(r.range(1, 4)), static_cast<unsigned>(r.range(0, 3))};
    for (size_t i = 0; i < c.u[2].size(); ++i) {
        if (!c.u[2][i].present) continue;
        MRel mr;
        mr.uidx = i; mr.id = c.u[2][i].id;
        gen_members(c, r, mr, maxm, tw, r.chance(1, 4));
        mr.tags = rnd_tags(r, false);
        if (r.chance(2, 5)) mr.tags.emplace_back("type", r.chance(3, 4) ? "multipolygon" : "route");
        mr.interested = c.pred.relation(mr.id, c.rel_type_mp(mr));
        c.relmap[mr.id] = c.rels.size();
        c.rels.push_back(std::move(mr));
    }
    c.derive();
    build_input(c, r, false);
    finish_model(c);
}

void gen_gc(Ctx& c, Rng& r, uint64_t index) {
    // Large history sized so that ItemStash::should_gc() becomes true: (1) many small relations of few small
    // nodes complete while the nodes arrive (> 10000 removals before the first way), (2) the ways are large
    // (KiB-sized) and wanted, so the stash then grows by more than its size at the end of the node phase and
    // therefore reaches the last 10 KiB before a doubling of its buffer. Relations over early nodes and late
    // ways/relations span the collection: their early members are moved by it.
    const bool T = vh::thorough();
    c.en[0] = true; c.en[1] = true; c.en[2] = (index % 3) == 2; c.co = (index % 6) != 5;
    c.gc_mode = true;
    const size_t nn = T ? r.range(36000, 60000) : r.range(16000, 22000);
    const size_t nw = T ? r.range(3500, 6000) : r.range(2200, 3000);
    const size_t nr = T ? r.range(24000, 36000) : r.range(11000, 14000);
    const size_t ns[3] = {nn, nw, nr};
    for (int t = 0; t < 3; ++t) {
        for (size_t i = 1; i <= ns[t]; ++i) {
            const int64_t id = static_cast<int64_t>(i) * (i % 7 == 3 ? -1 : 1);
            c.add_uobj(t, id, r.below(100) < 98);
        }
    }
    c.pred.salt = r.next();
    c.pred.rel_mode = r.coin() ? 0 : 1; c.pred.prel = 92;
    c.pred.mem_mode = r.coin() ? 0 : 1; c.pred.pmem = 90;
    auto add_member = [&](MRel& mr, int t) {
        MMember mm;
        mm.type = t; mm.uidx = r.below(c.u[t].size()); mm.ref = c.u[t][mm.uidx].id;
        mm.role = r.pick(ROLES);
        mr.members.push_back(mm);
    };
    for (size_t i = 0; i < c.u[2].size(); ++i) {
        if (!c.u[2][i].present) continue;
        MRel mr;
        mr.uidx = i; mr.id = c.u[2][i].id;
        const unsigned kind = static_cast<unsigned>(r.below(100));
        const size_t n_nodes = kind < 70 ? r.range(1, 3) : kind < 90 ? r.range(1, 2) : 0;
        const size_t n_ways = kind < 70 ? 0 : r.range(1, 2);
        for (size_t k = 0; k < n_nodes; ++k) add_member(mr, 0);
        for (size_t k = 0; k < n_ways; ++k) add_member(mr, 1);
        if (c.en[2] && r.chance(1, 12)) add_member(mr, 2);
        if (r.chance(1, 10)) mr.members.push_back(mr.members[r.below(mr.members.size())]);   // duplicate reference
        if (r.chance(1, 6)) mr.tags.emplace_back("type", "multipolygon");
        mr.interested = c.pred.relation(mr.id, c.rel_type_mp(mr));
        c.relmap[mr.id] = c.rels.size();
        c.rels.push_back(std::move(mr));
    }
    c.probes = 1;
    c.derive();
    build_input(c, r, true);
    finish_model(c);
}

void gen_mp(Ctx& c, Rng& r, uint64_t /*index*/) {
    c.mp = true;
    c.en[0] = false; c.en[1] = true; c.en[2] = false; c.co = true;
    c.mp_keyed_filter = r.chance(1, 3);
    static const int UM[] = {3, 6, 12, 30};
    static const unsigned PP[] = {100, 100, 90, 60};
    const int umax = r.pick(UM);
    for (int t = 0; t < 3; ++t) {
        const size_t n = r.range(1, umax);
        const unsigned pp = r.pick(PP);
        for (size_t tries = 0; c.u[t].size() < n && tries < 10 * n + 10; ++tries) {
            int64_t id = r.range(1, r.chance(1, 6) ? (1LL << 36) : 80);
            if (r.chance(1, 5)) id = -id;
            const size_t before = c.u[t].size();
            const size_t ui = c.add_uobj(t, id, r.below(100) < pp);
            if (t == 1 && c.u[t].size() > before) {
                static const int SH[] = {0, 0, 0, 0, 0, 0, 1, 2, 3, 4, 5};
                c.u[t][ui].shape = r.pick(SH);
            }
        }
    }
    static const size_t MM[] = {1, 3, 6, 10};
    const size_t maxm = r.pick(MM);
    const unsigned tw[3] = {static_cast<unsigned>(r.range(0, 1)), 5, static_cast<unsigned>(r.range(0, 1))};
    for (size_t i = 0; i < c.u[2].size(); ++i) {
        if (!c.u[2][i].present) continue;
        MRel mr;
        mr.uidx = i; mr.id = c.u[2][i].id;
        gen_members(c, r, mr, maxm, tw, r.coin());
        for (auto& m : mr.members) if (m.role.size() > 10) m.role = "outer";
        const unsigned tt = static_cast<unsigned>(r.below(10));
        if (r.coin()) mr.tags.emplace_back("name", rnd_str(r, 8));
        if (tt < 6) mr.tags.emplace_back("type", "multipolygon");
        else if (tt < 8) mr.tags.emplace_back("type", "boundary");
        else if (tt < 9) mr.tags.emplace_back("type", "route");
        if (r.chance(2, 3)) mr.tags.emplace_back("building", "yes");
        // interest exactly as documented for the MultipolygonManager: type=multipolygon|boundary, at least one
        // way member, tags accepted by the filter (default filter: any tag; keyed filter: a "building" tag)
        bool type_ok = false, has_way = false, filter_ok = false;
        for (const auto& t : mr.tags) {
            if (t.first == "type") type_ok = (t.second == "multipolygon" || t.second == "boundary");
            if (!c.mp_keyed_filter || t.first == "building") filter_ok = true;
        }
        for (const auto& m : mr.members) if (m.type == 1) has_way = true;
        mr.interested = type_ok && has_way && filter_ok;
        c.relmap[mr.id] = c.rels.size();
        c.rels.push_back(std::move(mr));
    }
    c.derive();
    for (auto& mr : c.rels) {
        std::vector<size_t> seen;
        mr.distinct_good_ways = mr.completable;
        for (const auto& m : mr.members) {
            if (!m.wanted) continue;
            const int sh = c.u[1][m.uidx].shape;
            if (sh == 3 || sh == 4 || std::find(seen.begin(), seen.end(), m.uidx) != seen.end()) mr.distinct_good_ways = false;
            seen.push_back(m.uidx);
        }
    }
    build_input(c, r, false);
    finish_model(c);
}

// ------------------------------------------------------------------ running a history

template <typename TManager>
void feed(Ctx& c, Rng& r, TManager& m) {
    c.mb = &m;
    c.gc_at_start = vhk::hs().gc_events;
    // ---- pass 1
    const unsigned p1 = static_cast<unsigned>(r.below(3));
    vh::cover("pass1", p1 == 0 ? "apply(whole file, manager)" : p1 == 1 ? "manager.relation() in file order" : "manager.relation() in shuffled order");
    if (p1 == 0) {
        osmium::apply(c.in, m);
    } else {
        std::vector<const osmium::Relation*> rs;
        for (const auto& mr : c.rels) rs.push_back(static_cast<const osmium::Relation*>(c.u[2][mr.uidx].ptr));
        if (p1 == 2) r.shuffle(rs);
        else std::sort(rs.begin(), rs.end(), [](const osmium::Relation* a, const osmium::Relation* b) { return id_less(a->id(), b->id()); });
        for (const auto* rel : rs) m.relation(*rel);
    }
    m.prepare_for_lookup();
    // ---- pass 2
    c.callback_set = !r.chance(1, 4);
    std::function<void(osmium::memory::Buffer&&)> cb;
    if (c.callback_set) cb = [&c](osmium::memory::Buffer&& b) { c.on_callback(std::move(b)); };
    auto& handler = m.handler(cb);
    PosTracker tracker;
    const unsigned p2 = static_cast<unsigned>(r.below(3));
    vh::cover("pass2", p2 == 0 ? "apply(whole buffer)" : p2 == 1 ? "apply(chunks)" : "apply_item per object");
    try {
        if (p2 == 0) {
            osmium::apply(c.in, tracker, handler);
        } else if (p2 == 1) {
            // buffer by buffer, as a Reader delivers them: flush() at the end of each
            auto it = c.in.begin();
            const auto end = c.in.end();
            while (it != end) {
                const size_t n = 1 + r.below(c.stream.size() < 50 ? 6 : 3000);
                for (size_t k = 0; k < n && it != end; ++k, ++it) osmium::apply_item(*it, tracker, handler);
                handler.flush();
            }
        } else {
            for (const auto& item : c.in) osmium::apply_item(item, tracker, handler);
        }
    } catch (const osmium::out_of_order_error& e) {
        vh::violation(K_ORDER, std::string(e.what()) + "; " + c.where());
    }
    c.end_stream();
    if (c.callback_set) {
        m.flush_output();
    }
    {
        osmium::memory::Buffer rest = m.read();
        if (c.callback_set && rest.committed() != 0) vh::violation(K_OUT_SEQ, "output left in the buffer after flush_output() with a callback set");
        c.collect(rest);
    }
    if (!c.mp) c.check_outputs();
    m.for_each_incomplete_relation([&c](const osmium::relations::RelationHandle& h) { c.on_incomplete(*h); });
    c.check_incomplete();
    c.final_lookups();
    const auto mem = m.used_memory();
    if (mem.stash == 0 || mem.relations_db == 0 || mem.members_db == 0) vh::violation("used_memory() reports a zero component", "");
    vh::count("histories");
    vh::count("callbacks_beyond_max_size", c.callbacks_midstream);
    vh::count(c.callback_set ? "histories_with_callback" : "histories_without_callback");
    const uint64_t gcs = vhk::hs().gc_events - c.gc_at_start;
    if (gcs) vh::count("histories_with_gc");
    vh::count_max("max_gc_events_in_one_history", gcs);
    vh::count_max("max_completions_in_one_history", c.n_completed);
    vh::count_max("max_removals_in_one_history", c.removals);
    if (c.removals >= 30000) vh::count("histories_with_30k_removals");
    if (gcs && c.removals >= 30000) vh::count("histories_with_30k_removals_and_gc");
    vh::count_max("max_stream_length", c.stream.size());
    flush_lc();
}

void setup_output(Ctx& c, Rng& r, bool allow_big, int max_mode) {
    const unsigned o = static_cast<unsigned>(r.below(20));
    c.out_mode = o < 4 ? 0 : o < 10 ? 1 : o < 18 ? 2 : 3;
    if (c.out_mode == 3 && !allow_big) c.out_mode = 2;
    if (c.out_mode > max_mode) c.out_mode = max_mode;
    if (c.out_mode == 3) {
        // a ~45 KiB padding object written several times per completion: the output passes 800 KiB mid-stream
        osmium::memory::Buffer pb{64UL * 1024UL, osmium::memory::Buffer::auto_grow::yes};
        {
            osmium::builder::NodeBuilder b{pb};
            b.set_id(4711).set_version(1).set_user("pad");
            osmium::builder::TagListBuilder tl{b};
            for (int i = 0; i < 45; ++i) tl.add_tag("pad" + std::to_string(i), std::string(1000, static_cast<char>('a' + i % 26)));
        }
        pb.commit();
        const auto& item = *pb.begin();
        c.pad_store.assign((item.padded_size() + 7) / 8, 0);
        std::memcpy(c.pad_store.data(), &item, item.padded_size());
        c.pad_bytes.assign(reinterpret_cast<const char*>(&item), item.byte_size());
        c.pad_reps = static_cast<unsigned>(r.range(1, 12));
    }
    vh::cover("output", c.out_mode == 0 ? "none" : c.out_mode == 1 ? "relation" : c.out_mode == 2 ? "relation+members" : "relation+members+padding (> max buffer size)");
}

template <bool N, bool W, bool R, bool CO>
void run_generic(Ctx& c, Rng& r) {
    TestRM<N, W, R, CO> m;
    feed(c, r, m);
}

void dispatch_generic(Ctx& c, Rng& r) {
    const unsigned combo = (c.en[0] ? 1U : 0U) | (c.en[1] ? 2U : 0U) | (c.en[2] ? 4U : 0U) | (c.co ? 0U : 8U);
    vh::cover("manager", vh::fmt("RelationsManager<nodes=%d,ways=%d,relations=%d,check_order=%d>", c.en[0], c.en[1], c.en[2], c.co));
    switch (combo) {
        case 0: run_generic<false, false, false, true>(c, r); break;
        case 1: run_generic<true, false, false, true>(c, r); break;
        case 2: run_generic<false, true, false, true>(c, r); break;
        case 3: run_generic<true, true, false, true>(c, r); break;
        case 4: run_generic<false, false, true, true>(c, r); break;
        case 5: run_generic<true, false, true, true>(c, r); break;
        case 6: run_generic<false, true, true, true>(c, r); break;
        case 7: run_generic<true, true, true, true>(c, r); break;
        case 9: run_generic<true, false, false, false>(c, r); break;
        case 14: run_generic<false, true, true, false>(c, r); break;
        case 15: run_generic<true, true, true, false>(c, r); break;
        default: vh::violation("harness: manager combination not instantiated", std::to_string(combo)); break;
    }
}

std::string sample_of(const Ctx& c) {
    std::string s = vh::fmt("%s nodes=%d ways=%d relations=%d check_order=%d pred(rel=%d,member=%d) stream=%zu objects;", c.mode.c_str(), c.en[0], c.en[1], c.en[2], c.co,
                            c.pred.rel_mode, c.pred.mem_mode, c.stream.size());
    size_t n = 0;
    for (const auto& r : c.rels) {
        if (++n > 4) break;
        s += " " + c.rel_desc(r) + (r.interested ? ";" : " (rejected);");
    }
    return s;
}

void case_generic(uint64_t index, Rng& r, bool gc) {
    Ctx c{r};
    g = &c;
    c.mode = gc ? "gc" : "generic";
    if (gc) gen_gc(c, r, index); else gen_generic(c, r, index);
    vh::set_case_desc("%s history %" PRIu64 ": nodes=%d ways=%d relations=%d check_order=%d, %zu relations, %zu objects in stream", c.mode.c_str(), index,
                      c.en[0], c.en[1], c.en[2], c.co, c.rels.size(), c.stream.size());
    setup_output(c, r, !gc, gc ? 1 : 3);
    dispatch_generic(c, r);
    vh::evaluated();
    vh::distinct(c.h);
    if (c.n_completed >= 2 && index % 40 == 0) vh::sample_str(sample_of(c));
    g = nullptr;
}

} // namespace

// (mp mode needs the delivered areas: handled by a specialised output check)
namespace {

void mp_check_areas(Ctx& c) {
    for (const auto& bytes : c.out_got) {
        std::vector<uint64_t> tmp((bytes.size() + 7) / 8);
        std::memcpy(tmp.data(), bytes.data(), bytes.size());
        const auto* item = reinterpret_cast<const osmium::memory::Item*>(tmp.data());
        if (item->type() != osmium::item_type::area) { vh::violation(K_MP_SPURIOUS, "non-area item in the output"); continue; }
        const auto& area = *reinterpret_cast<const osmium::Area*>(tmp.data());
        const int64_t id = area.id();
        const uint64_t a = id < 0 ? static_cast<uint64_t>(-id) : static_cast<uint64_t>(id);
        const bool from_rel = a & 1U;
        const int64_t orig = (id < 0 ? -1 : 1) * static_cast<int64_t>(a / 2);
        lc("mp_areas_seen");
        if (from_rel) {
            auto it = c.relmap.find(orig);
            if (it == c.relmap.end() || !c.rels[it->second].interested) { vh::violation(K_MP_SPURIOUS, vh::fmt("area %" PRId64 " (relation %" PRId64 ")", id, orig)); continue; }
            MRel& r = c.rels[it->second];
            ++r.rel_areas;
            if (r.distinct_good_ways) {
                lc("mp_ring_counts_checked");
                const auto rings = area.num_rings();
                if (rings.first != static_cast<size_t>(r.nwanted) || rings.second != 0) {
                    vh::violation(K_MP_RINGS, c.rel_desc(r) + vh::fmt(": %zu outer, %zu inner rings, %d member ways", rings.first, rings.second, r.nwanted));
                }
            }
        } else {
            auto it = c.idmap[1].find(orig);
            if (it == c.idmap[1].end() || !c.u[1][it->second].present) { vh::violation(K_MP_SPURIOUS, vh::fmt("area %" PRId64 " (way %" PRId64 ")", id, orig)); continue; }
            ++c.u[1][it->second].way_areas;
        }
    }
    for (const auto& r : c.rels) {
        if (r.completable && r.completions == 1) {
            lc("mp_relation_areas_checked");
            if (r.rel_areas != 1) vh::violation(K_MP_REL_AREA, c.rel_desc(r) + vh::fmt(": %d areas", r.rel_areas));
        } else if (r.rel_areas != 0 && !(r.interested && r.nwanted == 0)) {
            vh::violation(K_MP_REL_AREA, c.rel_desc(r) + vh::fmt(": %d areas although not completed", r.rel_areas));
        }
    }
    for (const auto& o : c.u[1]) {
        if (!o.present) continue;
        const bool eligible = o.shape == 0;   // closed, >= 4 nodes, "building" tag (accepted by both filters), no area=no
        if (eligible) {
            lc("mp_way_areas_checked");
            if (o.way_areas != 1) vh::violation(K_MP_WAY_AREA, vh::fmt("way %" PRId64 ": %d areas", o.id, o.way_areas));
        } else if (o.shape == 3 || o.shape == 4) {
            lc("mp_open_or_short_ways_checked");
            if (o.way_areas != 0) vh::violation(K_MP_OPEN_AREA, vh::fmt("way %" PRId64 " shape %d: %d areas", o.id, o.shape, o.way_areas));
        } else {
            lc("not_judged_mp_way_untagged_or_area_no");
            if (o.way_areas > 1) vh::violation(K_MP_WAY_AREA, vh::fmt("way %" PRId64 ": %d areas", o.id, o.way_areas));
        }
    }
}

// ------------------------------------------------------------------ CallbackBuffer driven like the manager drives it

void case_cbuf(uint64_t index, Rng& r) {
    static const size_t INIT[] = {64, 64, 128, 1024, 4096, 1024UL * 1024UL};
    static const size_t MAXS[] = {0, 64, 100, 1024, 5000, 800UL * 1024UL};
    const bool dflt = index % 8 == 0;
    const size_t init = dflt ? 1024UL * 1024UL : r.pick(INIT);
    const size_t maxs = dflt ? 800UL * 1024UL : r.pick(MAXS);
    const bool with_cb = !r.chance(1, 5);
    const bool cb_in_ctor = r.coin();
    vh::set_case_desc("cbuf history %" PRIu64 ": initial=%zu max=%zu callback=%d", index, init, maxs, with_cb);
    vh::cover("cbuf_thresholds", vh::fmt("initial=%zu,max=%zu", init, maxs));
    std::vector<std::string> expected, got;
    uint64_t calls = 0;
    bool in_possibly = false, over_before = false;
    auto cb = [&](osmium::memory::Buffer&& b) {
        ++calls;
        if (!b || b.committed() == 0) vh::violation(std::string(K_CBUF) + "callback called with an empty or invalid buffer", "");
        if (in_possibly && !over_before) vh::violation(std::string(K_CBUF) + "possibly_flush() flushed although committed() <= max_buffer_size", vh::fmt("max=%zu", maxs));
        for (const auto& item : b) got.emplace_back(reinterpret_cast<const char*>(&item), item.byte_size());
    };
    std::unique_ptr<osmium::memory::CallbackBuffer> cbuf;
    if (dflt) cbuf.reset(new osmium::memory::CallbackBuffer{});
    else if (with_cb && cb_in_ctor) cbuf.reset(new osmium::memory::CallbackBuffer{cb, init, maxs});
    else cbuf.reset(new osmium::memory::CallbackBuffer{init, maxs});
    if (with_cb && (dflt || !cb_in_ctor)) cbuf->set_callback(cb);
    const size_t nobj = dflt ? r.range(20, 60) : r.range(1, 60);
    uint64_t h = vh::hash_u64(init);
    h = vh::hash_u64(maxs, h); h = vh::hash_u64(with_cb, h);
    for (size_t i = 0; i < nobj; ++i) {
        const size_t before = cbuf->buffer().committed();
        {
            osmium::builder::NodeBuilder b{cbuf->buffer()};
            b.set_id(static_cast<int64_t>(i) + 1).set_version(static_cast<osmium::object_version_type>(r.range(1, 99))).set_user(rnd_str(r, 10));
            osmium::builder::TagListBuilder tl{b};
            const size_t nt = dflt ? 40 + r.below(20) : r.below(4);
            for (size_t k = 0; k < nt; ++k) tl.add_tag("k" + std::to_string(k), std::string(dflt ? 1000 : r.below(40), 'v'));
        }
        cbuf->buffer().commit();
        const auto& item = cbuf->buffer().get<osmium::memory::Item>(before);
        expected.emplace_back(reinterpret_cast<const char*>(&item), item.byte_size());
        h = vh::hash_u64(item.byte_size(), h);
        const unsigned op = static_cast<unsigned>(r.below(10));
        if (op < 7) {
            over_before = cbuf->buffer().committed() > maxs;
            const uint64_t calls_before = calls;
            in_possibly = true;
            cbuf->possibly_flush();
            in_possibly = false;
            vh::count("cbuf_possibly_flush_calls");
            if (with_cb && over_before) {
                vh::count("cbuf_threshold_flushes");
                if (calls != calls_before + 1 || cbuf->buffer().committed() != 0)
                    vh::violation(std::string(K_CBUF) + "possibly_flush() did not hand over the buffer although committed() > max_buffer_size and a callback is set",
                                  vh::fmt("max=%zu committed after=%zu", maxs, cbuf->buffer().committed()));
            }
        } else if (op == 7) {
            const uint64_t calls_before = calls;
            cbuf->flush();
            vh::count("cbuf_flush_calls");
            if (with_cb && (calls != calls_before + 1 || cbuf->buffer().committed() != 0)) vh::violation(std::string(K_CBUF) + "flush() did not hand over a non-empty buffer", "");
        } else if (op == 8 && r.chance(1, 3)) {
            osmium::memory::Buffer b = cbuf->read();
            vh::count("cbuf_read_calls");
            for (const auto& it : b) got.emplace_back(reinterpret_cast<const char*>(&it), it.byte_size());
            if (cbuf->buffer().committed() != 0) vh::violation(std::string(K_CBUF) + "buffer not empty after read()", "");
        }
    }
    cbuf->flush();
    {
        osmium::memory::Buffer b = cbuf->read();
        if (with_cb && b.committed() != 0) vh::violation(std::string(K_CBUF) + "flush() left data behind although a callback is set", "");
        for (const auto& it : b) got.emplace_back(reinterpret_cast<const char*>(&it), it.byte_size());
    }
    if (got != expected) vh::violation(std::string(K_CBUF) + "objects not delivered exactly once and in order", vh::fmt("expected %zu got %zu", expected.size(), got.size()));
    else vh::count("cbuf_objects_delivered", got.size());
    vh::count("cbuf_histories");
    vh::evaluated();
    vh::distinct(h);
}

} // namespace

int main(int argc, char** argv) {
    vh::parse_args(argc, argv);
    const std::string mode = vh::arg("mode", "generic");
    auto at_end = [] {
        vh::count("gc_events", vhk::hs().gc_events.load());
    };
    if (mode == "generic") return vh::run_cases(argc, argv, 2000, [](uint64_t i, Rng& r) { case_generic(i, r, false); }, at_end);
    if (mode == "gc") return vh::run_cases(argc, argv, 16, [](uint64_t i, Rng& r) { case_generic(i, r, true); }, at_end);
    if (mode == "cbuf") return vh::run_cases(argc, argv, 1000, case_cbuf, at_end);
    if (mode == "mp") {
        return vh::run_cases(argc, argv, 1000, [](uint64_t i, Rng& r) {
            Ctx c{r};
            g = &c;
            c.mode = "mp";
            gen_mp(c, r, i);
            vh::set_case_desc("mp history %" PRIu64 ": %zu relations, %zu objects in stream, filter=%s", i, c.rels.size(), c.stream.size(), c.mp_keyed_filter ? "building" : "default");
            vh::cover("manager", c.mp_keyed_filter ? "MultipolygonManager<SpyAssembler>(filter: building)" : "MultipolygonManager<SpyAssembler>(default filter)");
            SpyConfig cfg;
            if (c.mp_keyed_filter) {
                osmium::TagsFilter f{false};
                f.add_rule(true, "building");
                osmium::area::MultipolygonManager<SpyAssembler> m{cfg, f};
                feed(c, r, m);
            } else {
                osmium::area::MultipolygonManager<SpyAssembler> m{cfg};
                feed(c, r, m);
            }
            mp_check_areas(c);
            flush_lc();
            vh::evaluated();
            vh::distinct(c.h);
            if (c.n_completed >= 2 && i % 100 == 0) vh::sample_str(sample_of(c));
            g = nullptr;
        }, at_end);
    }
    std::fprintf(stderr, "unknown mode\n");
    return 2;
}
